import textx
from textx import *
from textx.registration import metamodels
clear_language_registrations()
register_language('NoPat', metamodel=lambda **kw: metamodel_from_str("M: 'a';"))
try: print('C26 languages_for_file with pattern None:', [l.name for l in languages_for_file('x.tx')])
except Exception as e: print('C26 EXC', type(e).__name__, e)
clear_language_registrations()
register_language('Foo', pattern='*.foo', metamodel=lambda **kw: metamodel_from_str("M: 'a';", **kw))
try: register_language('FOO', pattern='*.x')
except TextXRegistrationError as e: print('dup ok')
m1=metamodel_for_language('foo'); m2=metamodel_for_language('FOO'); print('cached', m1 is m2)
m3=metamodel_for_language('foo', ignore_case=True); print('fresh with args', m3 is not m1, 'then cached', metamodel_for_language('Foo') is m3)
clear_language_registrations(); print('after clear textx present', 'textx' in language_descriptions(), 'foo' in language_descriptions())
# generators
clear_generator_registrations()
print(sorted((l,t) for l,g in generator_descriptions().items() for t in g))
