import textx, os, tempfile
from textx import metamodel_from_str, TextXError
from textx.scoping.providers import PlainNameImportURI
g='''
Model: imports*=Import items*=Item refs*=Ref;
Import: 'import' importURI=STRING;
Item: 'item' name=ID;
Ref: 'ref' r=[Item];
'''
d=tempfile.mkdtemp()
def w(n,t): open(os.path.join(d,n),'w').write(t)
def repo(mm): return sorted(os.path.basename(k) for k in mm._tx_model_repository.all_models.filename_to_model)
# model processor failing
mm=metamodel_from_str(g, global_repository=True); mm.register_scope_providers({'*.*':PlainNameImportURI()})
fail={'on':None}
def mp(model, mm_):
    if fail['on'] and model._tx_filename and model._tx_filename.endswith(fail['on']): raise TextXError('mp fail')
mm.register_model_processor(mp)
w('a.m','import "b.m"\nitem x\nref y\n'); w('b.m','import "c.m"\nitem y\n'); w('c.m','item z\n')
fail['on']='b.m'
try: mm.model_from_file(d+'/a.m')
except TextXError as e: print('C18 mp-fail-in-import', e.message, repo(mm))
fail['on']='a.m'
try: mm.model_from_file(d+'/a.m')
except TextXError as e: print('C18 mp-fail-main', e.message, repo(mm))
fail['on']=None
# obj processor failing in import
mm=metamodel_from_str(g, global_repository=True); mm.register_scope_providers({'*.*':PlainNameImportURI()})
def op(o):
    if o.name=='z': raise TextXError('op fail')
mm.register_obj_processors({'Item':op})
try: mm.model_from_file(d+'/a.m')
except TextXError as e: print('C18 op-fail', e.message, repo(mm))
# earlier successful stays
mm=metamodel_from_str(g, global_repository=True); mm.register_scope_providers({'*.*':PlainNameImportURI()})
w('ok.m','item k\n'); mm.model_from_file(d+'/ok.m')
w('c.m','item z\nref nope\n')
try: mm.model_from_file(d+'/a.m')
except TextXError as e: print('C18 unresolved', e.message, repo(mm))
w('c.m','item z !!\n')
try: mm.model_from_file(d+'/a.m')
except TextXError as e: print('C18 syntax', e.message[:20], repo(mm))
w('c.m','item z\n')
m=mm.model_from_file(d+'/a.m'); print('C18 repaired', repo(mm), m.refs[0].r.name)
# C17 file-open counts with cycles
import builtins
cnt={}
ro=builtins.open
def co(name,*a,**k):
    cnt[os.path.basename(str(name))]=cnt.get(os.path.basename(str(name)),0)+1; return ro(name,*a,**k)
w('a.m','import "b.m"\nimport "c.m"\nimport "a.m"\nitem x\nref z\n'); w('b.m','import "c.m"\nimport "a.m"\nitem y\nref x'); w('c.m','import "a.m"\nitem z\nref y')
for gr in (False, True):
    mm=metamodel_from_str(g, global_repository=gr); mm.register_scope_providers({'*.*':PlainNameImportURI()})
    cnt.clear(); builtins.open=co
    m=mm.model_from_file(d+'/a.m'); 
    m2=mm.model_from_file(d+'/a.m')
    builtins.open=ro
    print('C17 opens gr=',gr, cnt, 'same model on reload', m is m2)
