# Feasibility: quantified order invariant for C08, append (expect refuted) vs sorted insert (expect proved)
import time
from z3 import *
I=IntSort()
pos_of = Array('gpos', I, I)      # ghost parallel array: position of originating crossref, per list index
n = Int('n')                      # len(L)
p = Int('p')                      # position of crossref being resolved
def sorted_upto(a, n):
    j,k=Ints('j k')
    return ForAll([j,k], Implies(And(0<=j, j<k, k<n), Select(a,j) < Select(a,k)))
def distinct_new(a,n,p):
    j=Int('j'); return ForAll([j], Implies(And(0<=j,j<n), Select(a,j)!=p))
# 1) append
s=Solver(); s.set('timeout',10000)
a2 = Store(pos_of, n, p)
s.add(n>=0, sorted_upto(pos_of,n), distinct_new(pos_of,n,p), Not(sorted_upto(a2, n+1)))
t=time.time(); r=s.check(); print('append preserves order:', 'REFUTED' if r==sat else r, round(time.time()-t,3))
if r==sat:
    m=s.model(); nn=m.eval(n).as_long(); print('  n=',nn,'p=',m.eval(p), 'ghost=',[m.eval(Select(pos_of,i)) for i in range(nn)])
# 2) insert at idx with bisect contract: all before idx < p, all from idx > p
idx=Int('idx')
a3 = Array('a3', I, I)
i=Int('i')
ins = ForAll([i], Select(a3,i) == If(i<idx, Select(pos_of,i), If(i==idx, p, Select(pos_of,i-1))))
bis = And(0<=idx, idx<=n, ForAll([i], Implies(And(0<=i,i<idx), Select(pos_of,i) < p)), ForAll([i], Implies(And(idx<=i,i<n), Select(pos_of,i) > p)))
s=Solver(); s.set('timeout',20000)
s.add(n>=0, sorted_upto(pos_of,n), bis, ins, Not(sorted_upto(a3,n+1)))
t=time.time(); r=s.check(); print('insert@bisect preserves order:', 'PROVED' if r==unsat else r, round(time.time()-t,3))
# 3) partition accounting invariant (C09): new ++ resolved = processed prefix ; use counts
cnt_res, cnt_new, k, N = Ints('cnt_res cnt_new k N')
s=Solver()
inv = And(0<=k, k<=N, cnt_res + cnt_new == k)
post = Or(And(cnt_res+1 + cnt_new == k+1), And(cnt_res + cnt_new+1 == k+1))
s.add(inv, k<N, Not(post)); print('accounting step:', s.check())
