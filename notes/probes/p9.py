import textx, os, tempfile, io, sys, re
from textx import metamodel_from_str, TextXError
# C21 autokwd
def t(g, txt, label, **kw):
    try:
        mm=metamodel_from_str(g, **kw); m=mm.model_from_str(txt)
        print(label, 'OK', {k:v for k,v in vars(m).items() if not k.startswith('_')})
    except TextXError as e: print(label,'ERR',type(e).__name__, e)
    except Exception as e: print(label,'EXC',type(e).__name__, e)
t("Model: 'begin' name=ID;", "beginfoo", "C21 nokwd")
t("Model: 'begin' name=ID;", "beginfoo", "C21 kwd", autokwd=True)
t("Model: 'a.b' name=ID;", "a.bfoo", "C21 sym kwd", autokwd=True)
t("Model: 'a+' name=ID;", "a+foo", "C21 sym kwd2", autokwd=True)
t("Model: 'é1' name=ID;", "é1 foo", "C21 unicode", autokwd=True)
t("Model: '_x' name=ID;", "_xfoo", "C21 underscore", autokwd=True)
t("Model: '1a' name=ID;", "1afoo", "C21 digit-start", autokwd=True)
# separator/modifier paths
t("Model: v+=ID['and'];", "a andb", "C21 sep kwd", autokwd=True)
t("Model: v+=ID['and'];", "a andb", "C21 sep nokwd")
# C20 ignore case
t("Model: 'Begin' v+=ID['AND'] /x+y/ 'End';", "bEGIN a and b XXy eND", "C20", ignore_case=True)
t("Model: 'Begin' v+=ID['AND'] /x+y/ 'End';", "bEGIN a and b XXy eND", "C20 kwd", ignore_case=True, autokwd=True)
t("Model: 'ß' v=ID;", "SS a", "C20 sharp s", ignore_case=True)
t("Model: 'ǆ' v=ID;", "ǅ a", "C20 dz", ignore_case=True)
# C23
for g in ["", "Model: ;", "Model: a=;", "Model: /(/;", "Model: a=B;", "Model[foo]: 'a';", "Model: 'a'#;", "Model: A; A: A;", "Model: a=[INT];", "Model: a=[A|ID|^^];  A: 'x' name=ID;", "Model: (a=INT)#[','];",
          "Model: a?=INT a?=INT;", "Model: 'a'*[eolterm ','];", "Model[ws]: 'a';", "Model[ws=5]: 'a';", "Model[split]: 'a';", "A: B; B: A;", "Model: a=ID?[','];", "Model: A.B;", "Model: a=A.B;", "Model: a=[x.A];", "reference foo Model: a=[foo.A];", "import x Model: 'a';",
          "Model: 'a'#[','];", "Model: ('a' 'b')#;", "Model: &;", "Model[skipws=1]: 'a';", "Model: x+=[A]['sep'] ; A: name=ID;", "Model: a=/[/;", "Model: !'a'*;", "Model: a+=!'a';", "Model: \"\\N{foo}\";", "Model: '\\x';", "Model: a=ID-;", "Model: a=B; B: 'x' | C; C: B;",
          "Model: a=Model;", "Model: Model;", "Model: a='';", "Model: ''*;", "Model: //*;", "Model: (a=ID | B)#; B: b=ID;", "Comment: x=ID; Model: 'a';", "Model: 'a'; Comment: Model;", "Model: a=OBJECT;", "Model: OBJECT;", "Model: a=[OBJECT];", "ID: 'a'; Model: a=ID;", "Model: 'a'; Model: 'b';" ]:
    try:
        metamodel_from_str(g); r='ok'
    except TextXError as e: r='TextXError:'+type(e).__name__
    except BaseException as e: r='*** OTHER: '+type(e).__name__+': '+str(e)[:80]
    print('C23', repr(g), '->', r)
