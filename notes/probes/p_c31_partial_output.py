import os, sys, tempfile, shutil, builtins
from textx import metamodel_from_str
from textx.export import model_export, metamodel_export
from textx.generators import gen_file
d = tempfile.mkdtemp(dir='/tmp/txvc-scratch')
bad=[]
mm = metamodel_from_str("Model: items+=Item; Item: 'item' name=ID ('->' ref=[Item])?;")
m = mm.model_from_str("item a item b -> a item c -> b")
class Boom(Exception): pass
def failing_writes(after):
    """patch file objects' write to fail after `after` successful writes (for files under d)"""
    import io
    real_open = builtins.open
    count=[0]
    import tempfile as tf
    real_ntf = tf.NamedTemporaryFile
    class W:
        def __init__(self, f): self._f=f
        def write(self, s):
            count[0]+=1
            if count[0] > after: raise Boom("disk full")
            return self._f.write(s)
        def __getattr__(self, n): return getattr(self._f, n)
        def __enter__(self): self._f.__enter__(); return self
        def __exit__(self,*a): return self._f.__exit__(*a)
    def o(file, mode='r', *a, **k):
        f = real_open(file, mode, *a, **k)
        return W(f) if 'w' in mode and str(file).startswith(d) else f
    def ntf(*a, **k):
        return W(real_ntf(*a, **k))
    return o, ntf, real_open, real_ntf
for export, arg, name in ((model_export, m, 'm.dot'), (metamodel_export, mm, 'mm.dot')):
    for after in (0, 1, 3):
        for preexisting in (False, True):
            target = os.path.join(d, name)
            for x in os.listdir(d): os.remove(os.path.join(d, x))
            if preexisting:
                export(arg, target); good = open(target).read()
            o, ntf, ro, rn = failing_writes(after)
            builtins.open = o; tempfile.NamedTemporaryFile = ntf
            try:
                try: export(arg, target); bad.append(f"{name}: no failure injected?")
                except Boom: pass
            finally:
                builtins.open = ro; tempfile.NamedTemporaryFile = rn
            left = sorted(os.listdir(d))
            if preexisting:
                if left != [name] or open(target).read() != good: bad.append(f"{name} after={after} preexisting: left {left}, content intact: {os.path.exists(target) and open(target).read()==good}")
            elif left: bad.append(f"{name} after={after}: left behind {left} ({[os.path.getsize(os.path.join(d,x)) for x in left]} bytes)")
# gen_file with a callback that writes directly and fails
t = os.path.join(d, 'out.txt')
def cb():
    with open(t, 'w') as f:
        f.write("partial"); raise Boom("generator failed")
try: gen_file('in', t, cb)
except Boom: pass
if os.path.exists(t): bad.append("gen_file: partial output of a failed callback left behind")
skipped=[]
gen_file('in', t, lambda: open(t,'w').write("complete"))
if open(t).read()!="complete": bad.append("gen_file: later run did not generate")
gen_file('in', t, lambda: skipped.append(1))
if skipped: bad.append("gen_file: existing output regenerated without overwrite")
shutil.rmtree(d)
print(bad or "ok"); sys.exit(1 if bad else 0)
