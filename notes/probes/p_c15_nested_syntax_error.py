from textx import metamodel_from_str
from textx.exceptions import TextXSyntaxError
from textx.scoping.providers import PlainName

class Thing:
    def __init__(self, parent=None, name=None, ref=None):
        self.parent, self.name, self.ref = parent, name, ref

G = "Model: things+=Thing; Thing: 'thing' name=ID ('->' ref=[Thing])?;"
mm = metamodel_from_str(G, classes=[Thing])
tried = []
import sys
EXTRA = sys.argv[1]
def prov(obj, attr, ref):
    if not tried:
        tried.append(1)
        try:
            mm.model_from_str(EXTRA)   # optional extra source: syntax error, ignored
        except TextXSyntaxError:
            pass
    return PlainName()(obj, attr, ref)
mm.register_scope_providers({"Thing.ref": prov})
m = mm.model_from_str("thing a -> b thing b -> a")
print([ (t.name, getattr(t.ref,'name',t.ref)) for t in m.things])
print('_tx_instrumented' in Thing.__dict__, Thing.__dict__.get('_tx_obj_attrs'))
