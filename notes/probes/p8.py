import textx, os, tempfile, io, sys, gc, weakref
from textx import metamodel_from_str, TextXError, TextXSemanticError
# C07
g='''
Model: things+=Thing refs+=Ref;
Thing: A|B;
A: 'a' name=ID;
B: 'b' name=ID;
Ref: 'ref' r=[A] | 'refs' rs+=[Thing] | 'rb' rb=[B];
'''
def t(txt, label, **kw):
    try:
        mm=metamodel_from_str(g, **kw); m=mm.model_from_str(txt)
        print(label, [ (getattr(r,'r',None), getattr(r,'rs',None), getattr(r,'rb',None)) for r in m.refs])
    except Exception as e: print(label,'ERR',type(e).__name__, e)
t('a x b x ref x', 'C07 dup name other class')
t('a x a x ref x', 'C07 dup')
t('a x ref y', 'C07 unknown')
class Bt: 
    name='y'
mmtmp=metamodel_from_str(g)
t('a x ref y', 'C07 builtin wrong type', builtins={'y': Bt()})
t('a x refs x x', 'C07 list')
# builtins with conforming type: need instance of A
mm=metamodel_from_str(g); 
a_inst=mm['A'].__new__(mm['A']); a_inst.name='y'
mm.builtins={'y':a_inst}
print('C07 builtin ok', mm.model_from_str('a x ref y').refs[0].r is a_inst)
try: print('C07 builtin B for rb wrongtype', mm.model_from_str('a x rb y').refs[0].rb)
except Exception as e: print('C07 builtin wrongtype ERR', e)
# name falsy / int names
g2='''
Model: things+=T refs+=Ref;
T: 't' name=INT;
Ref: 'ref' r=[T:INT];
'''
try:
    m=metamodel_from_str(g2).model_from_str('t 0 t 1 ref 0 ref 1'); print('C07 int names', [r.r.name for r in m.refs])
except Exception as e: print('C07 int names ERR', type(e).__name__, e)
