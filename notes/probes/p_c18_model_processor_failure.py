import os, tempfile, shutil, sys
from textx import metamodel_from_str
import textx.scoping.providers as sp
G = "Model: imports*=Import items*=Item uses*=Use; Import: 'import' importURI=STRING; Item: 'item' name=ID; Use: 'use' ref=[Item];"
d = tempfile.mkdtemp(dir='/tmp/txvc-scratch')
def w(n,t): open(os.path.join(d,n),'w').write(t)
w('a.m','import "b.m"\nitem a\nuse b\n'); w('b.m','item b\n'); w('c.m','import "b.m"\nitem c\nuse b\n')
mm = metamodel_from_str(G, global_repository=True)
mm.register_scope_providers({"*.*": sp.FQNImportURI()})
fail=[True]
def mp(model, metamodel):
    if fail[0] and (model._tx_filename or '').endswith('a.m'):
        raise Exception("model processor says no")
mm.register_model_processor(mp)
bad=[]
keys=lambda: sorted(os.path.basename(k) for k in mm._tx_model_repository.all_models.filename_to_model)
mc = mm.model_from_file(os.path.join(d,'c.m'))      # earlier successful load: c.m and b.m cached
assert keys()==['b.m','c.m'], keys()
try:
    mm.model_from_file(os.path.join(d,'a.m')); bad.append("no failure")
except Exception as e: pass
if keys()!=['b.m','c.m']: bad.append(f"after failing load: {keys()} (expected the earlier ['b.m','c.m'])")
fail[0]=False
ma = mm.model_from_file(os.path.join(d,'a.m'))
if ma.uses[0].ref is not mc.uses[0].ref: bad.append("identity of b lost")
if keys()!=['a.m','b.m','c.m']: bad.append(f"after good load: {keys()}")
# string route with imports
fail[0]=True
mm2 = metamodel_from_str(G, global_repository=True)
mm2.register_scope_providers({"*.*": sp.FQNImportURI()})
def mp2(model, metamodel):
    if model._tx_filename is None: raise Exception("no")
mm2.register_model_processor(mp2)
try:
    mm2.model_from_str('import "%s"\nitem s\nuse b\n' % os.path.join(d,'b.m')); bad.append("no failure 2")
except Exception as e: pass
k2=sorted(os.path.basename(k) for k in mm2._tx_model_repository.all_models.filename_to_model)
if k2: bad.append(f"string route leaves {k2}")
shutil.rmtree(d)
print(bad or "ok"); sys.exit(1 if bad else 0)
