import textx
from textx import metamodel_from_str
# C34 pos_rule_dict nested same span / sort
mm=metamodel_from_str('''
Model: outer=Outer;
Outer: inner=Inner;
Inner: 'x' name=ID;
''', textx_tools_support=True)
m=mm.model_from_str('  x foo ')
print('C34 rule dict', [(k, type(v).__name__) for k,v in m._pos_rule_dict.items()])
mm=metamodel_from_str('''
Model: outer+=Outer;
Outer: inner=Inner 'end';
Inner: 'x' name=ID;
''', textx_tools_support=True)
m=mm.model_from_str('x foo end x bar end')
print('C34 rule dict2', [(k, type(v).__name__) for k,v in m._pos_rule_dict.items()])
# C11 proxy path with trailing non-consuming step
from textx.scoping.rrel import find, parse
mm=metamodel_from_str('''
Model: packages+=Package refs+=Ref;
Package: 'package' name=ID '{' main=Class classes*=Class '}';
Class: 'class' name=ID;
Ref: 'ref' r=[Class:ID|+p:packages.~main];
''')
m=mm.model_from_str('package p { class c1 class c2 } ref p')
r=m.refs[0].r
print('C11 proxy', type(r).__name__, [getattr(x,'name',None) for x in r._tx_path], r._tx_obj.name, 'expected target main=c1')
