import textx, os, tempfile, io, sys
from textx import metamodel_from_str, TextXError, TextXSemanticError
# C02 multiplicity
def t(g, txt, label):
    try:
        mm=metamodel_from_str(g); m=mm.model_from_str(txt)
        print(label, {k:v for k,v in vars(m).items() if not k.startswith('_')}, {a.name:a.mult for a in mm['Model']._tx_attrs.values()})
    except Exception as e: print(label,'ERR',type(e).__name__, e)
t("Model: a=INT a=INT;", "0 5", "C02 seq")
t("Model: (a=INT | b=INT) a=INT;", "0 5", "C02 choice-then")
t("Model: (a=INT)? a=INT;", "0 5", "C02 opt")
t("Model: a=INT ('x' a=INT)?;", "0 x 5", "C02 opt2")
t("Model: ('x' a=INT | 'y' a=INT) ;", "y 5", "C02 alt")
t("Model: ('x' a=INT | 'y' b=INT) ('z' a=INT)? ;", "x 0 z 5", "C02 alt-then")
t("Model: (a=INT 'k' | a=INT 'j');", "0 j", "C02 backtrack")
t("Model: ('x' a=INT 'k')#;", "x 0 k", "C02 unordered")
t("Model: (('x' a=INT) ('y' a=INT))#;", "x 0 y 1", "C02 unordered2")
t("Model: Sub a=INT; Sub: a=INT;", "0 1", "C02 sub")
t("Model: ('x' a=INT)* ;", "x 0 x 1", "C02 rep")
t("Model: a=Inner a=Inner; Inner: 'i' v=INT;", "i 0 i 1", "C02 obj")
