import textx, os, tempfile, io, sys, gc, weakref
from textx import metamodel_from_str, TextXError, TextXSemanticError
# C03 abstract rule selection
def t(g, txt, label, show=lambda m: {k:(type(v).__name__, v if isinstance(v,(str,int,list)) else '') for k,v in vars(m).items() if not k.startswith('_')}):
    try:
        mm=metamodel_from_str(g); m=mm.model_from_str(txt)
        print(label, type(m).__name__, show(m) if hasattr(m,'__dict__') else repr(m), {c.__name__:(c._tx_type,[i.__name__ for i in c._tx_inh_by]) for c in mm if c.__name__ not in textx.lang.ALL_TYPE_NAMES})
    except Exception as e: print(label,'ERR',type(e).__name__, e)
t("Model: x=A; A: 'pre' B | C; B: 'b' v=INT; C: 'c' w=INT;", "pre b 3", "C03 a")
t("Model: x=A; A: M B | C; M: 'm' INT; B: 'b' v=INT; C: 'c' w=INT;", "m 1 b 3", "C03 match-first")
t("Model: x=A; A: B C | C; B: 'b' v=INT; C: 'c' w=INT;", "b 1 c 3", "C03 seq of two common")
t("Model: x=A; A: M | B; M: 'm' INT; B: 'b' v=INT;", "m 1", "C03 mixed match alt")
t("Model: x=A; A: M N | B; M: 'm'; N: INT; B: 'b' v=INT;", "m 1", "C03 mixed match alt 2")
t("Model: x=A; A: A2 | B; A2: C | D; B: 'b' v=INT; C: 'c' v=INT; D: 'd' v=INT;", "d 1", "C03 chain")
t("Model: x=A; A: ('x' B)* | C; B: 'b' v=INT; C: 'c' w=INT;", "x b 1", "C03 rep")
t("Model: x=A; A: B; B: C; C: 'c' w=INT;", "c 1", "C03 singleref chain")
t("Model: x=A; A: B | '(' A ')'; B: 'b' v=INT;", "( ( b 1 ) )", "C03 rec")
