import textx, os, tempfile, sys
from textx import metamodel_from_str, TextXError, textx_isinstance
mm=metamodel_from_str("Model: x+=A c+=C r+=R; A: B | '(' A ')'; B: 'b' name=ID; C: 'c' name=ID; R: 'r' a=[A];")
print({c.__name__:[i.__name__ for i in c._tx_inh_by] for c in mm if c._tx_inh_by and c.__name__ not in ('NUMBER','BASETYPE','OBJECT')})
sys.setrecursionlimit(200)
try:
    m=mm.model_from_str('b k c z r z')
except TextXError as e: print('TX', e)
except RecursionError as e: print('C03/C07 RecursionError in textx_isinstance')
# C14/15 multi-file failure leaves instrumentation?
from textx.scoping.providers import PlainNameImportURI
class Item:
    def __init__(self, parent, name): self.parent=parent; self.name=name
g='''
Model: imports*=Import items*=Item refs*=Ref;
Import: 'import' importURI=STRING;
Item: 'item' name=ID;
Ref: 'ref' r=[Item];
'''
d=tempfile.mkdtemp()
def w(n,t): open(os.path.join(d,n),'w').write(t)
mm=metamodel_from_str(g, classes=[Item]); mm.register_scope_providers({'*.*':PlainNameImportURI()})
w('a.m','import "b.m"\nitem x\nref nope\n'); w('b.m','item y\n')
try: mm.model_from_file(d+'/a.m')
except TextXError as e: print('fail:', e.message)
print('C14 after failing multi-file load:', {k for k in Item.__dict__ if k in('__setattr__','__getattribute__','__delattr__','_tx_instrumented')}, Item.__dict__.get('_tx_instrumented'), len(Item._tx_obj_attrs))
w('a.m','item x\nref nope\n')
mm=metamodel_from_str(g, classes=[Item]); mm.register_scope_providers({'*.*':PlainNameImportURI()})
try: mm.model_from_file(d+'/a.m')
except TextXError as e: print('fail:', e.message)
print('C14 after failing single-file load:', {k for k in Item.__dict__ if k in('__setattr__','__getattribute__','__delattr__','_tx_instrumented')}, Item.__dict__.get('_tx_instrumented'), len(Item._tx_obj_attrs))
