# Spike: extract the REAL TextXMetaModel.process from /repo, symbolically execute it path by path,
# check the C33 exceptional postcondition with z3. (Throw-away; measures effort & feasibility.)
import ast, time, sys
from z3 import *
SRC='/repo/textx/metamodel.py'
tree=ast.parse(open(SRC).read())
def find(tree, path):
    node=tree
    for name in path:
        node=next(n for n in ast.walk(node) if isinstance(n,(ast.FunctionDef,ast.ClassDef)) and n.name==name)
    return node
fn=find(tree,['TextXMetaModel','process'])
Val=Datatype('Val'); Val.declare('none'); Val.declare('b',('bv',BoolSort())); Val.declare('i',('iv',IntSort())); Val.declare('s',('sv',StringSort())); Val.declare('ref',('addr',IntSort())); Val=Val.create()
I=IntSort(); S=StringSort()
class St:
    def __init__(s, env, fld, pc, trace): s.env=env; s.fld=fld; s.pc=pc; s.trace=trace
    def fork(s, c): return St(dict(s.env), s.fld, s.pc+[c], list(s.trace))
is_textx = Function('is_TextXError', Val, BoolSort())   # class test of exception value
fresh=[0]
def newv(n): fresh[0]+=1; return Const(f'{n}!{fresh[0]}', Val)
def ev(e, st):
    if isinstance(e, ast.Name): return st.env[e.id]
    if isinstance(e, ast.Constant):
        if e.value is None: return Val.none
    if isinstance(e, ast.Attribute):
        o=ev(e.value, st); return Select(st.fld, Val.addr(o), StringVal(e.attr))
    raise NotImplementedError(ast.dump(e))
def cond(e, st):
    if isinstance(e, ast.Compare) and isinstance(e.ops[0], ast.Is): return ev(e.left,st)==ev(e.comparators[0],st)
    if isinstance(e, ast.Call) and getattr(e.func,'id','')=='isinstance':
        assert e.args[1].id=='TextXError'; return is_textx(ev(e.args[0],st))
    raise NotImplementedError(ast.dump(e))
def run(stmts, st):
    """yields (kind, value, state) ; kind in normal/return/raise"""
    if not stmts: yield ('normal', None, st); return
    h,t=stmts[0],stmts[1:]
    for k,v,s2 in step(h, st):
        if k=='normal': yield from run(t, s2)
        else: yield (k,v,s2)
def step(h, st):
    if isinstance(h, ast.Expr) and isinstance(h.value, ast.Constant): yield ('normal',None,st)   # docstring dropped
    elif isinstance(h,(ast.Import,ast.ImportFrom)): yield ('normal',None,st)
    elif isinstance(h, ast.Return):
        # only shape in this unit: return <External call>(value)
        if isinstance(h.value, ast.Call):
            r=newv('proc_result'); e=newv('proc_exc')
            s1=st.fork(BoolVal(True)); s1.trace.append(('ret',r)); yield ('return', r, s1)
            s2=st.fork(Val.is_ref(e)); s2.trace.append(('exc',e)); yield ('raise', e, s2)
        else: yield ('return', ev(h.value,st), st)
    elif isinstance(h, ast.Try):
        for k,v,s2 in run(h.body, st):
            if k!='raise': yield (k,v,s2); continue
            hd=h.handlers[0]; assert hd.type.id=='Exception'
            s3=s2.fork(BoolVal(True)); s3.env[hd.name]=v
            yield from run(hd.body, s3)
    elif isinstance(h, ast.If):
        c=cond(h.test, st)
        yield from run(h.body, st.fork(c)); yield from run(h.orelse, st.fork(Not(c)))
    elif isinstance(h, ast.Assign):
        tgt=h.targets[0]; v=ev(h.value,st); s2=st.fork(BoolVal(True))
        if isinstance(tgt, ast.Attribute): s2.fld=Store(st.fld, Val.addr(ev(tgt.value,st)), StringVal(tgt.attr), v)
        else: s2.env[tgt.id]=v
        yield ('normal',None,s2)
    elif isinstance(h, ast.Raise):
        yield ('raise', ev(h.exc,st) if h.exc else st.env['e'], st)
    else: raise NotImplementedError(ast.dump(h)[:80])
fld0=Array('fld', I, S, Val)
env={a.arg: Const(a.arg, Val) for a in fn.args.args}
st0=St(env, fld0, [], [])
t0=time.time(); paths=list(run(fn.body, st0)); print('paths:', len(paths), [p[0] for p in paths])
def g(fld,o,n): return Select(fld, Val.addr(o), StringVal(n))
ob=0; bad=[]
for k,v,st in paths:
    if k!='raise': continue
    e=st.trace[-1][1]
    for field in ['line','col','filename','nchar']:
        ob+=1
        s=Solver(); s.add(*st.pc); s.add(is_textx(e))
        want = If(g(fld0,e,field)!=Val.none, g(fld0,e,field), env[field])
        s.add(Not(And(v==e, g(st.fld,e,field)==want)))
        r=s.check()
        if r!=unsat: bad.append((field, r, s.model().eval(env[field]) if r==sat else None))
print('obligations', ob, 'refuted:', bad, 'time', round(time.time()-t0,3))
