import textx
from textx import metamodel_from_str, get_children, get_children_of_type, get_model, get_parent_of_type, get_location
# C13
log=[]
g='''
Model: things+=Thing one=Thing? refs*=Ref;
Thing: A | B;
A: 'a' name=ID ('{' kids+=Thing '}')?;
B: 'b' name=ID;
Ref: 'ref' r=[Thing];
'''
mm=metamodel_from_str(g)
def mk(n):
    def p(o): log.append((n, getattr(o,'name',type(o).__name__), all(not isinstance(getattr(r,'r',None), textx.model.ObjCrossRef) for r in get_model(o).refs) if hasattr(get_model(o),'refs') else None))
    return p
mm.register_obj_processors({n:mk(n) for n in ['Model','Thing','A','B','Ref']})
m=mm.model_from_str('a x { b y a z { b w } } b q ref w')
print('C13', [(a,b) for a,b,c in log], all(c for a,b,c in log))
# replacement
log.clear()
def repl(o):
    log.append(('B',o.name)); return 'REPL_'+o.name
mm.register_obj_processors({'B':repl, 'Thing': lambda o: log.append(('Thing', o if isinstance(o,str) else o.name))})
m=mm.model_from_str('a x { b y } b q')
print('C13 repl', log, m.things[0].kids, m.things[1])
# C05
mm=metamodel_from_str(g)
m=mm.model_from_str('a x { b y a z { b w } } b q ref w ref x')
allc=get_children(lambda x: True, m)
print('C05 all', [getattr(o,'name',type(o).__name__) for o in allc])
print('C05 cf', [getattr(o,'name',type(o).__name__) for o in get_children(lambda x: True, m, children_first=True)])
print('C05 parents ok', all(get_model(o) is m for o in allc), [ (o.name, o.parent.name if hasattr(o.parent,'name') else 'Model') for o in get_children_of_type('B', m)])
print('C05 sf', [getattr(o,'name',type(o).__name__) for o in get_children(lambda x: True, m, should_follow=lambda o: getattr(o,'name','')!='z')])
# C06
txt='  a x {\n  b y /*c*/ a z { b w } }\n b q   ref w'
mm=metamodel_from_str(g+"Comment: /\\/\\*.*?\\*\\//;")
m=mm.model_from_str(txt)
for o in get_children(lambda x: True, m): print('C06', type(o).__name__, repr(txt[o._tx_position:o._tx_position_end]), get_location(o))
