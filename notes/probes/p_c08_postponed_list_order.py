from textx import metamodel_from_str
from textx.scoping import Postponed
from textx.scoping.providers import PlainName
import itertools, sys
G = "Model: items+=Item 'refs' refs+=[Item]+ ';' ('more' more+=[Item]+)?; Item: 'item' name=ID;"
bad=[]
names=["a","b","c","d"]
for delays in itertools.product(range(3), repeat=4):
    mm = metamodel_from_str(G)
    seen={}
    def prov(obj, attr, ref):
        k=(attr.name, ref.obj_name, ref.position)
        seen[k]=seen.get(k,0)+1
        if seen[k] <= delays[names.index(ref.obj_name)]:
            return Postponed()
        return PlainName()(obj, attr, ref)
    mm.register_scope_providers({"Model.refs": prov, "Model.more": prov})
    try:
        m = mm.model_from_str("item a item b item c item d refs d a c b ; more b b a")
    except Exception as e:
        if "Unresolvable" in str(e): continue
        raise
    got=[x.name for x in m.refs]; got2=[x.name for x in m.more]
    if got!=["d","a","c","b"] or got2!=["b","b","a"]:
        bad.append((delays, got, got2))
print(len(bad), bad[:3]); sys.exit(1 if bad else 0)
