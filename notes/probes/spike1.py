import time
from z3 import *
t0=time.time()
Val = Datatype('Val')
Val.declare('none'); Val.declare('b', ('bv', BoolSort())); Val.declare('i', ('iv', IntSort()))
Val.declare('s', ('sv', StringSort())); Val.declare('ref', ('addr', IntSort()))
Val = Val.create()
S=StringSort(); I=IntSort()
fld = Array('fld', I, S, Val)     # attribute store
dhas = Array('dhas', I, Val, BoolSort())
dval = Array('dval', I, Val, Val)
obj, attr, crossref, mm, sp = Ints('obj attr crossref mm sp')
cls = Function('cls', I, I)
def getf(o, n): return Select(fld, o, StringVal(n)) if isinstance(n,str) else Select(fld,o,n)
cname = Val.sv(getf(cls(obj), '__name__')); aname = Val.sv(getf(attr,'name'))
keys = [Concat(cname, StringVal('.'), aname), Concat(StringVal('*.'), aname), Concat(cname, StringVal('.*')), StringVal('*.*')]
DEFAULT = Const('DEFAULT', Val)
csp = getf(crossref,'scope_provider')
# code semantics (as symbolic executor would produce): chosen provider
def code(keys):
    e = DEFAULT
    for k in reversed(keys):
        e = If(Select(dhas, sp, Val.s(k)), Select(dval, sp, Val.s(k)), e)
    return If(csp != Val.none, csp, e)
# spec from the property statement: first registered among 'Rule.attr','*.attr','Rule.*','*.*'
R=String('R'); A=String('A')
def spec():
    ks=[Concat(R,StringVal('.'),A), Concat(StringVal('*.'),A), Concat(R,StringVal('.*')), StringVal('*.*')]
    e = DEFAULT
    for k in reversed(ks):
        e = If(Select(dhas, sp, Val.s(k)), Select(dval, sp, Val.s(k)), e)
    return If(csp != Val.none, csp, e)
pre = And(R==cname, A==aname, Val.is_s(getf(cls(obj),'__name__')), Val.is_s(getf(attr,'name')))
for name, ks in [('orig', keys), ('mutant', [keys[1],keys[0],keys[2],keys[3]])]:
    s=Solver(); s.set('timeout', 10000)
    s.add(pre, code(ks) != spec())
    t=time.time(); r=s.check(); print(name, r, round(time.time()-t,3))
    if r==sat:
        m=s.model(); print(' R=',m.eval(R),'A=',m.eval(A), 'has k0', m.eval(Select(dhas,sp,Val.s(keys[0]))), 'has k1', m.eval(Select(dhas,sp,Val.s(keys[1]))))
print('total', time.time()-t0)
