import textx, os, tempfile, io
from textx import metamodel_from_str, TextXError
# C04 STRING
mm = metamodel_from_str('Model: v*=STRING;')
def enc(s,q): return q + s.replace(q, '\\'+q) + q
import itertools
bad=[]
alpha=['a',' ','"',"'",'\\','\n']
for n in range(0,5):
    for t in itertools.product(alpha, repeat=n):
        s=''.join(t)
        if s.endswith('\\'): continue
        for q in '"\'':
            try:
                v=mm.model_from_str(enc(s,q)).v
                if v!=[s]: bad.append((s,q,v))
            except Exception as e: bad.append((s,q,type(e).__name__))
print('C04 bad', len(bad), bad[:8])
# two strings on the same line
for s in ['a\\\\', 'x\\"y']:
  pass
bad=[]
for n in range(0,4):
    for t in itertools.product(alpha, repeat=n):
        s=''.join(t)
        if s.endswith('\\'): continue
        for q in '"\'':
          for q2 in '"\'':
            try:
                v=mm.model_from_str(enc(s,q)+' '+enc('zz',q2)).v
                if v!=[s,'zz']: bad.append((s,q,q2,v))
            except Exception as e: bad.append((s,q,q2,type(e).__name__))
print('C04 two bad', len(bad), bad[:8])
mm = metamodel_from_str('Model: v*=NUMBER;')
for t in ['1','-1','+5','1.0','1e5','.5','5.','1E-3','-0.0','007','1_0']:
    try: print(t, repr(mm.model_from_str(t).v))
    except Exception as e: print(t,'ERR',type(e).__name__)
mm = metamodel_from_str('Model: v*=FLOAT;')
for t in ['1','1.0','1e5','.5','5.','+.5e-3']:
    try: print('F',t, repr(mm.model_from_str(t).v))
    except Exception as e: print('F',t,'ERR',type(e).__name__)
mm = metamodel_from_str('Model: v*=INT;')
for t in ['1','-1','+5','12345678901234567890123','1.5']:
    try: print('I',t, repr(mm.model_from_str(t).v))
    except Exception as e: print('I',t,'ERR',type(e).__name__)
