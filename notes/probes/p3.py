import textx, gc, weakref, os, tempfile
from textx import metamodel_from_str, TextXError, get_location
# C33: nchar on obj processor TextXError without location
mm = metamodel_from_str('''
Model: items+=Item;
Item: 'item' name=ID;
''')
def proc(o):
    if o.name=='b': raise TextXError('bad')
mm.register_obj_processors({'Item':proc})
try: mm.model_from_str('item a\n  item b')
except TextXError as e: print('C33', e.line,e.col,e.nchar,e.filename)
def proc2(o):
    if o.name=='b': raise ValueError('bad')
mm.register_obj_processors({'Item':textx.textxerror_wrap(proc2)})
try: mm.model_from_str('item a\n  item b')
except TextXError as e: print('C33 wrap', e.line,e.col,e.nchar,e.filename)
# match processor
mm.register_obj_processors({'ID':lambda x: (_ for _ in ()).throw(TextXError('badid')) if x=='b' else x})
try: mm.model_from_str('item a\n  item b')
except TextXError as e: print('C33 match', e.line,e.col,e.nchar,e.filename)

# C15: failing user class init leaks
class Item:
    def __init__(self, parent, name):
        if name=='b': raise ValueError('x')
        self.parent=parent; self.name=name
mm = metamodel_from_str('''
Model: items+=Item;
Item: 'item' name=ID;
''', classes=[Item])
try: mm.model_from_str('item a item b item c')
except Exception as e: print('C15 exc', type(e).__name__)
print('C15 leftovers', {k:v for k,v in Item.__dict__.items() if k.startswith('_tx') or k in('__setattr__','__getattribute__','__delattr__')}.keys(), len(Item.__dict__.get('_tx_obj_attrs',{})))

# C28: unknown object in imported file
d=tempfile.mkdtemp()
mm = metamodel_from_str('''
Model: imports*=Import items*=Item refs*=Ref;
Import: 'import' importURI=STRING;
Item: 'item' name=ID;
Ref: 'ref' r=[Item];
''')
from textx.scoping.providers import PlainNameImportURI
mm.register_scope_providers({'*.*':PlainNameImportURI()})
open(d+'/a.m','w').write('import "b.m"\nitem x\nref x\n')
open(d+'/b.m','w').write('\n\n\nitem y\n     ref zzz\n')
try: mm.model_from_file(d+'/a.m')
except TextXError as e: print('C28 unknown', e.filename, e.line, e.col, e.message)
open(d+'/b.m','w').write('\n\n\nitem y\n     ref !!\n')
try: mm.model_from_file(d+'/a.m')
except TextXError as e: print('C28 syntax', e.filename, e.line, e.col, e.message)
# unresolvable postponed in imported
from textx.scoping import Postponed
class P(PlainNameImportURI):
    def __call__(self,obj,attr,ref):
        if ref.obj_name=='pp': return Postponed()
        return super().__call__(obj,attr,ref)
mm.register_scope_providers({'*.*':P()})
open(d+'/a.m','w').write('import "b.m"\nitem x\nref x\n')
open(d+'/b.m','w').write('\n\n\nitem y\n     ref pp\n')
try: mm.model_from_file(d+'/a.m')
except TextXError as e: print('C28 unresolvable', e.filename, e.line, e.col, e.message)
open(d+'/a.m','w').write('item x\n\n  ref pp\n')
try: mm.model_from_file(d+'/a.m')
except TextXError as e: print('C28 unresolvable main', e.filename, e.line, e.col, e.message)
# non unique
mm.register_scope_providers({'*.*':PlainNameImportURI()})
open(d+'/a.m','w').write('item x item x\n\n  ref x\n')
try: mm.model_from_file(d+'/a.m')
except TextXError as e: print('C28 nonunique', e.filename, e.line, e.col, e.message)
