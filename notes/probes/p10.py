import textx, os, tempfile, io, sys
from click.testing import CliRunner
from textx.cli import textx as cli
from textx import register_generator, GeneratorDesc, clear_generator_registrations
from textx.registration import GeneratorParam
got={}
def gen(metamodel, model, output_path, overwrite, debug, **custom):
    got.clear(); got.update(custom)
register_generator(GeneratorDesc('any','probe', generator=gen))
register_generator(GeneratorDesc('any','probe2', generator=gen, custom_args=[GeneratorParam('my_flag','d',mandatory=False), GeneratorParam('need','d',mandatory=True)]))
d=tempfile.mkdtemp()
open(d+'/g.tx','w').write("Model: 'a';")
open(d+'/m.x','w').write("a")
open(d+'/bad.x','w').write("b")
r=CliRunner()
def run(*a):
    got.clear()
    res=r.invoke(cli, list(a)); print(a[0], a[-3:], '-> exit', res.exit_code, got, (res.output or '')[:100].replace('\n',' | '), repr(res.exception) if res.exception and not isinstance(res.exception, SystemExit) else '')
run('generate','--grammar',d+'/g.tx','--target','probe',d+'/m.x','--my-flag')
run('generate','--grammar',d+'/g.tx','--target','probe',d+'/m.x','--my-val','3')
run('generate','--grammar',d+'/g.tx','--target','probe',d+'/m.x','--my-val','--other-flag')
run('generate','--grammar',d+'/g.tx','--target','probe2',d+'/m.x','--my-flag', '--need', '1')
run('generate','--grammar',d+'/g.tx','--target','probe2',d+'/m.x','--need', '1', '--undeclared','2')
run('generate','--grammar',d+'/g.tx','--target','probe2',d+'/m.x')
run('check','--grammar',d+'/g.tx',d+'/m.x')
run('check','--grammar',d+'/g.tx',d+'/m.x',d+'/bad.x')
run('check','--grammar',d+'/g.tx',d+'/bad.x',d+'/m.x')
# C31
from textx.export import model_export, metamodel_export
from textx import metamodel_from_file
mm=metamodel_from_file(d+'/g.tx'); m=mm.model_from_file(d+'/m.x')
import builtins
class FailFile(io.StringIO):
    n=0
real_open=builtins.open
def failing_open(name, mode='r', *a, **k):
    f=real_open(name, mode, *a, **k)
    if 'w' in mode:
        orig=f.write; cnt=[0]
        class W:
            def __getattr__(s,n): return getattr(f,n)
            def write(s,x):
                cnt[0]+=1
                if cnt[0]==2: raise OSError('disk full')
                return orig(x)
            def __enter__(s): return s
            def __exit__(s,*a): return f.__exit__(*a)
        return W()
    return f
builtins.open=failing_open
try: model_export(m, d+'/out.dot')
except OSError as e: print('C31 failed', e)
builtins.open=real_open
print('C31 exists after failure:', os.path.exists(d+'/out.dot'), os.path.getsize(d+'/out.dot') if os.path.exists(d+'/out.dot') else None)
