import textx, gc, weakref, os, tempfile, io
from textx import metamodel_from_str, TextXError
from textx.export import model_export_to_file, metamodel_export_tofile, dot_escape, dot_repr, PlantUmlRenderer
mm = metamodel_from_str('''
Model: items+=Item vals*=Val mixed*=Mixed;
Item: 'item' name=STRING (desc=STRING)?;
Val: 'val' v+=STRING;
Mixed: 'mixed' m+=MixedE;
MixedE: Item | STRING;
''')
m = mm.model_from_str(r'''item "a\"b|{}<>" "de\\sc\"x\n" val "q\"uote" "pi|pe" mixed "plain\"q" item "zz" ''')
f=io.StringIO(); model_export_to_file(f, m); print(f.getvalue()[300:])
print(repr(dot_escape('a\nb\\c"')))
print(dot_repr('\\'*10+'"'*10+'x'*5))
