import textx, gc, weakref
from textx import metamodel_from_str, TextXError
from textx.scoping.providers import FQN
# C10: FQN through parent / refs
mm = metamodel_from_str('''
Model: packages+=Package refs+=Ref;
Package: 'package' name=ID '{' (packages+=Package | classes+=Class)* '}';
Class: 'class' name=ID ('extends' base=[Class:FQN])?;
Ref: 'ref' cls=[Class:FQN];
FQN: ID('.'ID)*;
''')
mm.register_scope_providers({'*.*':FQN()})
def t(txt):
    try:
        m=mm.model_from_str(txt); print('C10 OK  ', txt, '->', [ (r.cls.name, r.cls.parent.name) for r in m.refs])
    except TextXError as e: print('C10 ERR ', txt, '->', e.message)
t('package p1 { package p2 { class c1 } } ref p1.p2.c1')
t('package p1 { package p2 { class c1 } } ref p1.p2.p1.p2.c1')   # via parent link? 
t('package p1 { class c1 class c2 extends c1 } ref p1.c2.c1')   # via non-containment reference base
t('package p1 { class c1 } ref p1.c1.p1.c1')   # via parent
