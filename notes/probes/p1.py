import textx, gc
from textx import metamodel_from_str
from textx.scoping import Postponed
# C08: order under postponement
mm = metamodel_from_str('''
Model: items+=Item 'refs' refs+=[Item]+;
Item: 'item' name=ID;
''')
state={'round':{}}
from textx.scoping.providers import PlainName
pn=PlainName()
def prov(obj, attr, ref):
    n=state['round'].get(ref.obj_name,0); state['round'][ref.obj_name]=n+1
    if ref.obj_name=='a' and n==0: return Postponed()
    return pn(obj,attr,ref)
mm.register_scope_providers({'*.*':prov})
m=mm.model_from_str('item a item b item c refs a b c')
print('C08 refs order:', [r.name for r in m.refs])

# C34: ref_pos_end with qualified names
mm2 = metamodel_from_str('''
Model: packages+=Package refs+=Ref;
Package: 'package' name=ID '{' classes+=Class '}';
Class: 'class' name=ID;
Ref: 'ref' cls=[Class:FQN];
FQN: ID('.'ID)*;
''', textx_tools_support=True)
from textx.scoping.providers import FQN
mm2.register_scope_providers({'*.*':FQN()})
txt='package p1 { class c1 } ref p1.c1'
m=mm2.model_from_str(txt)
for r in m._pos_crossref_list: print('C34', r.name, r.ref_pos_start, r.ref_pos_end, repr(txt[r.ref_pos_start:r.ref_pos_end]))

# C12: repr
from textx.scoping.rrel import parse
for e in ['+p:a.b', '+m:a.b', '+mp:a.b', "'x'~a.b", '^a', '..a', 'parent(T).a', '(a,b)*.c', '~a.b', '.a', '...', '^', 'a*.b', "(..)*.a", ".."]:
    try:
        t=parse(e); s=str(t); t2=parse(s); print('C12', e, '->', s, '->', str(t2), t.flags, t2.flags)
    except Exception as ex: print('C12 ERR', e, type(ex).__name__, ex)
