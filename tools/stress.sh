#!/bin/sh
# tools/stress.sh: every quick command with a 20 ms feasibility budget (verdicts must not depend on pruning); ~100 min
cd /verif
OUT=/verif/.drill/stress-feas20.txt   # copy to notes/ by hand when a run is to be kept
echo "Stress run: every check's quick command with TXVC_FEAS_TIMEOUT=20 (feasibility budget 20 ms instead of 600 ms:" > $OUT
echo "almost nothing is pruned in time, so every syntactic path is explored; verdicts must not change)." >> $OUT
echo "Tree: /repo $(git -C /repo rev-parse --short HEAD), /verif $(git rev-parse --short HEAD).  Output went to .drill/stress (not evidence)." >> $OUT
echo "C07: 612/612 obligations discharged (538 at the normal budget) -> exit 0   [run separately, see DESIGN.md 11.15]" >> $OUT
for c in C01 C02 C03 C04 C05 C06 C12 C14 C16 C17 C20 C21 C22 C23 C25 C26 C30 C31 C33 C10 C15 C18 C27 C13 C08 C28 C32 C34 C09; do
  line=$(TXVC_FEAS_TIMEOUT=20 TXVC_OUT=/verif/.drill/stress timeout 3000 ./check $c 2>&1 | grep "^$c:\|CHECKER-ERROR" | cut -c1-220 | tr '\n' ' ')
  echo "$line" >> $OUT
done
echo "done" >> $OUT
