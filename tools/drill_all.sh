#!/bin/sh
# tools/drill_all.sh <seeded ids...>: apply each confirmed seeded change to /repo, run its check, undo; one summary line each
# re-drill seeded changes (quick ones first); summary lines only
cd /verif
for n in "$@"; do
  out=$(tools/try_mutation $n 2>&1)
  rc=$(echo "$out" | grep "try_mutation $n" | sed 's/.*check exit \([0-9]*\).*/\1/')
  viol=$(echo "$out" | grep "failed obligation" | sed 's/.*failed obligation: //' | cut -c1-90 | tr '\n' ';')
  echo "$n exit=$rc  $viol"
done
