#!/usr/bin/env python3
"""Regenerate /verif/MANIFEST.json from the table below (kept valid at all times)."""
import json
import os

HERE = os.path.dirname(os.path.dirname(os.path.abspath(__file__)))

TECH = ("contract-based deductive verification: own VC generator (txvc) symbolically executing the "
        "real /repo function bodies against sidecar contracts, discharged by z3 (cvc5 for z3-unknowns)")

# pid -> (level text, level note, design ref, technique suffix)
CLAIMED = {
    "C10": (
        "Partial - for the plain FQN provider (scope_redirection_logic is None; FQNImportURI / FQNGlobalRepo are not "
        "covered). Proved: find_obj(parent, name), one step of a qualified name: the object returned is held by an "
        "attribute found in parent.__dict__ that is a CONTAINMENT attribute of parent's class (cont == True in "
        "_tx_attrs; never the parent link, never a reference attribute; objects whose class has no _tx_attrs are "
        "searched as before) and has the name; None is returned only if no such attribute holds an object with that "
        "name (completeness of one step, through the Skolem functions of the comprehension over __dict__). "
        "_find_obj_fqn: the parts of name.split('.') are consumed left to right, each one containment step from the "
        "object reached so far (inductive relation chain(p, name, i, o), loop invariant), all parts consumed, the "
        "result conforms to the target class (textx_isinstance by contract). _find_referenced_obj: what is returned "
        "was found by _find_obj_fqn from the referencing object or from an object reached from it through parent "
        "links (relation up); the ORDER of the attempts, as two statement regions: the first attempt is made on the "
        "referencing object, every iteration of the loop moves exactly one parent link outward, tries there, and "
        "returns the first hit and nothing else. NOT proved: the composition of these into 'the nearest ancestor with "
        "a chain wins' as one postcondition (it needs the attempts as a sequence), completeness of the whole chain "
        "(needs unique sibling names as a global invariant), termination of the parent walk, tuples as attribute "
        "values (A-WD: the engine iterates lists), FQN.__call__ itself (an assert and one call). The bounded battery "
        "decides the whole statement natively: 140 (600 thorough) random package trees with sibling-unique, globally "
        "repeated names, one reference each at a random depth, every third with a user class; expected target from "
        "an oracle over the generated tree. One defect repaired: b6b22e7.",
        "Partial correctness; implicit exceptions not excluded; redirection not covered.",
        "DESIGN.md 5/C10, 11.12", "bounded battery for nearest-first, exactness and user classes"),
    "C02": (
        "Proved, grammar side: _update_attr_multiplicities (the recursive walk of visit_textx_rule over the Arpeggio "
        "expression of one rule) against spec functions taken from the statement - c1(r) = the largest number "
        "(saturated at 2) of assignments to an attribute outside repetitions along one way through r (sequence: sum, "
        "ordered choice: largest branch, reference to another rule: 0), rep(r) = an assignment inside a repetition. "
        "Contract, for one ARBITRARY attribute name (an uninterpreted constant, so for every name): the set of seen "
        "assignments afterwards is the set before plus the names with c1 >= 1, and the attribute is many-valued "
        "afterwards exactly when it was before, or rep, or c1 >= 2, or (c1 >= 1 and it had been seen before) - with "
        "the empty set of the top-level call: a list exactly when one object can collect more than one value. The "
        "recursion is used through its own contract, the two loops over rule.nodes carry prefix folds (cmax / csum / "
        "rany) as invariants, two statement regions (multiplicity in force; the node's own assignment) are units of "
        "their own; mult_lt by complete enumeration (FIN, 16 pairs). Model side: the assignment branches of "
        "process_node (a plain value is stored, or appended at the end when the slot is a list; each list element "
        "appended exactly once at the end, earlier elements in place; 'Multiple assignments' is raised only if the "
        "slot already holds a truthy non-list value) and _init_obj_attrs (a list exactly for many-valued attributes). "
        "ASSUMED, not proved: Arpeggio hands one object at most c1 assignment nodes outside repetitions (T-ARP) - that "
        "is what makes the 'Multiple assignments' raise and the overwrite of a falsy earlier value unreachable; the "
        "bounded battery (276 generated rule bodies / ~840 sentences in the quick tier, 643 / ~2000 in the thorough "
        "tier) checks exactly that end to end with an oracle that does not look at textX's code. One defect repaired: "
        "0508619 (branches of an ordered choice did not share the seen set).",
        "Partial correctness of the recursion (no variant: the expression tree is finite by construction, not proved). "
        "Implicit exceptions (KeyError for an assignment whose attribute is not in _tx_attrs) are not excluded.",
        "DESIGN.md 5/C02, 11.11, Appendix C", "bounded battery for the end-to-end statement (T-ARP link)"),
    "C01": (
        "Partial - the TRANSLATION from grammar constructs to Arpeggio expressions and the attribute defaults, not "
        "Arpeggio's PEG interpreter. Proved: visit_assignment's operator statement (`+=` builds OneOrMore over exactly "
        "the right-hand side named __asgn_oneormore with multiplicity 1..*; `*=` ZeroOrMore / __asgn_zeroormore with 0..* "
        "unless already 1..*; `?=` Optional / __asgn_optional with 0..1, a boolean attribute of type BOOL; `=` Sequence / "
        "__asgn_plain leaving the multiplicity; exactly one expression is built); the modifier statements of "
        "visit_assignment and visit_repeatable_expr (modifiers are rejected for `=`, `?=`, `?`; otherwise sep is the "
        "written separator or None and eolterm is set exactly when written, independently of sep); per attribute of "
        "TextXMetaModel._init_obj_attrs (a fresh empty list exactly for multiplicity 0..* / 1..*, the base type's "
        "default only with auto_init_attributes, False only for a `?=` attribute without it, else None); the terminal "
        "branch of process_node (the matched text or group 1 under use_regexp_group reaches the match processor "
        "unchanged, with rule name and location). NOT covered: sequences, choices, predicates, suppression, rule "
        "references, the recursion of process_node, whitespace (C22) and everything Arpeggio does with the expressions; "
        "a bounded battery (15 grammars, 29 inputs: optional, repetitions with separators and eolterm, unordered groups, "
        "predicates, suppression, abstract alternatives, regex groups, auto_init on/off) compares acceptance and model "
        "with hand-written expectations, reported separately.",
        "Partial claim by design (DESIGN.md 5/C01): the acceptance relation is Arpeggio's (T-ARP). The denotation of the "
        "Arpeggio constructors is an assumption (A den).",
        "DESIGN.md 5/C01, 11.10", "bounded battery with the real parser for everything not under contract"),
    "C03": (
        "Proved: textx_isinstance(obj, R) equals the conformance relation of the statement (obj's rule is R, R is "
        "OBJECT, or obj's rule is reachable from R through _tx_inh_by), by unfold-once with the recursion used through "
        "its own contract (partial correctness); the abstract-rule and match-rule branch of process_node (a region "
        "unit): a match rule yields the value of process_match and creates no object; an abstract rule never "
        "instantiates its own class - a single child is passed through, otherwise the child handed on is a "
        "non-Terminal, a reference to a non-match rule is preferred (loop invariant: everything skipped before it is a "
        "match rule) and a match-rule reference is used only when every reference of the alternative is one; without any "
        "rule reference the text is concatenated. TWO KNOWN FINDINGS (bounded battery): textx_isinstance does not "
        "terminate on a directly recursive abstract rule (A: B | '(' A ')'), and an alternative with only match rules "
        "yields its FIRST match reference, not the concatenated text (pinned by test_issue166, not repairable here). "
        "NOT under contract: _determine_rule_types (the fixpoint that computes rule kinds and _tx_inh_by) - the battery "
        "(3 grammars with nested / recursive abstract rules, 14 conformance queries) is its only check.",
        "Partial. Termination of textx_isinstance needs acyclic _tx_inh_by (assumed; violated by the first known "
        "finding). One defect repaired: 438e637 (class compared with a string in the child selection).",
        "DESIGN.md 5/C03, 11.10", "bounded battery for rule kinds and the two recorded deviations"),
    "C23": (
        "Exception-type contracts (wd=True: every partial primitive forks its implicit exception; "
        "allowed_exc=['TextXError']: anything else leaving the function is a failed WD obligation) on the visitor "
        "methods where foreign exceptions were found: visit_re_match (an invalid user regex - re.compile raising any "
        "Exception - ends in a TextXSyntaxError created in the handler; before the repair the handler itself raised "
        "TypeError), the per-parameter body of visit_rule_params (a bare ws flag; unknown names; split values), and "
        "visit_str_match for exceptions raised by a dependency (decode_escapes raising UnicodeDecodeError now ends in a "
        "TextXSyntaxError). Preconditions are the node shapes the grammar of lang.py guarantees and the is_valid() of "
        "the visitor. NOT decided deductively: the other visitor methods, the second-pass functions, and termination of "
        "_resolve_rule / _determine_rule_type on cyclic references (RecursionError) - a bounded battery feeds a corpus "
        "of 56 invalid or odd grammars (invalid regexes, bad parameters, bad escapes, reference cycles, undefined "
        "rules, misplaced operators) to metamodel_from_str and reports every exception that is not a TextXError "
        "(the documented import-in-a-string AssertionError excepted); reported separately, never counted as proved.",
        "Partial claim: three of roughly twenty-five visitor / second-pass functions are under an exception-type "
        "contract. Five genuine defects were repaired by five fix: commits (known_findings.json): invalid regex, bare "
        "ws flag, invalid escape (obligations) and reference cycles, `Rule#` (battery).",
        "DESIGN.md 5/C23, 11.9", "bounded corpus battery for the functions not under contract"),
    "C04": (
        "Decided on the REAL processor lambdas extracted by AST from TextXMetaModel.__init__ on every run. STRING: the "
        "lambda is checked to have the shape x[1:-1].replace(A, B) if x[0] == Q else x[1:-1].replace(C, D); for each "
        "quote q the composition of the statement's escaping s -> s.replace(q, backslash + q) with the lambda's replace is "
        "proved to be the identity on ALL strings by exhaustive exploration of the composed streaming transducer over the "
        "alphabet classes {double quote, single quote, backslash, any other character} (FST back end, complete; the "
        "pre-repair processor that unescaped both quotes is refuted with the string backslash-quote). BOOL: the real "
        "lambda evaluated on every spelling of the BOOL regex (FIN, complete). INT / FLOAT / STRICTFLOAT: the lambdas "
        "are int(x) / float(x) (shape), whose round trip is CPython's. NOT proved: which text the base-type regexes "
        "delimit (re's backtracking order) - a bounded battery parses every string up to length 3 (thorough: 4) over 8 "
        "symbols as STRING literals in both quotes with further strings following, and the grid sign x mantissa shape "
        "(5 integer, 6 dotted spellings) x exponent shape (none, e/E, signed/unsigned) through INT, NUMBER, FLOAT, "
        "STRICTFLOAT plus every BOOL spelling; reported separately, never counted as proved.",
        "Back ends FST and FIN instead of the VC generator (DESIGN.md 2.6). A-REPLACE (the streaming transducer "
        "computes str.replace) is cross-checked against CPython on every run (all strings up to length 5 over the "
        "classes). If the lambda no longer has the replace shape the FST does not apply and a bounded native search "
        "(all strings up to length 5 over 5 symbols) decides instead.",
        "DESIGN.md 2.6, 5/C04, 11.9", "FST transducer exploration + FIN enumeration on the extracted lambdas; bounded battery for regex extents"),
    "C22": (
        "Proved (the /repo side): visit_rule_param turns `name` into (name, True), `noname` into (name, False) and "
        "`name=value` into (name, value); per parameter visit_rule_params accepts only skipws / ws / split (a "
        "TextXSyntaxError otherwise), records the value under its name leaving the others alone, and decodes a ws value "
        "written with escapes to exactly the characters newline, carriage return, tab and space it mentions; the statement "
        "of visit_textx_rule that places the parameters: a body that is a single match or a single rule reference is "
        "wrapped in Sequence(nodes=[body], rule_name=rule, root=True, **params), otherwise the body itself becomes the "
        "root expression and receives every parameter (loop invariant over the parameter dict), a bare reference "
        "without parameters is left for the second pass; visit_textx_model creates the model parser with the "
        "metamodel's skipws / ws (contracts/c20.py). Skipping itself is Arpeggio's (assumed); a bounded battery "
        "(insertion of active whitespace and comments at every token boundary, inactive characters, modifiers on a "
        "sequence, a single match and a single reference, global skipws/ws) is reported separately.",
        "Partial claim: insertion-invariance is Arpeggio's parser loop (T-ARP). The Comment rule wiring "
        "(comments_model = metamodel['Comment']._tx_peg_rule) is exercised by the battery only. A bare `[ws]` flag "
        "(value True) is outside the precondition of the per-parameter unit (that input raises TypeError: C23).",
        "DESIGN.md 5/C22, 11.8", "bounded battery with the real parser for the assumed skipping semantics"),
    "C31": (
        "Proved over a ghost file system (only open(name,'w'), os.replace(tmp, name) and os.remove(name) touch a final "
        "name; every such call, every write and the closing of a file may fail - the engine forks the exceptional "
        "outcome at each): export._atomic_write (a @contextmanager; `yield` is the caller's with-body, `with f:` ends in "
        "a close that may fail): the final name is touched by exactly one call, os.replace(temporary, final), made only "
        "after the body AND the closing of the temporary file have completed; on every failing path os.replace was not "
        "called (or was itself the failing call), the temporary file - a new file in the target directory - is removed, "
        "and the original error is raised; metamodel_export / model_export write only through _atomic_write; "
        "gen_file: the callback runs iff overwrite or the output is missing; when it fails the output's signature is "
        "taken again and an output that the callback created or modified is removed, an untouched one kept, and the "
        "callback's error is raised. A bounded battery injects a failure after 0/1/3/8 writes and at the closing flush "
        "into the real exports, with and without an earlier complete output (reported separately).",
        "os.replace is atomic on one file system (POSIX rename, T-PY). contextlib.contextmanager semantics assumed. A "
        "user generator that writes by other means than the gen_file callback / the exports is outside the statement. "
        "Before the fix commit abbdd54 the exports opened the final name first (partial files of 0/219/334 bytes).",
        "DESIGN.md 5/C31, 11.9", "bounded fault-injection battery"),
    "C08": (
        "Proved: (1) process_node appends exactly one cross-reference per element of a reference list, in child "
        "order, each located at its own text, earlier entries staying in place (per-element step contract); (2) the "
        "statement of resolve_one_step that stores a resolved target (a region unit of its own, with FRAME): the "
        "resolver keeps per (object, list attribute) the sorted input positions of the references already resolved "
        "into the list; for EVERY state of that bookkeeping - i.e. every order in which a provider lets the references "
        "resolve, including postponement - the target is inserted at the place its reference's position has among "
        "them (everything before has a position <= it, everything after a greater one), the positions stay sorted "
        "ints not longer than the list, elements before the insertion point keep their place, nothing but the "
        "attribute / list and the bookkeeping changes; (3) the loop body of resolve_one_step uses that statement by "
        "contract for every provider behaviour: a postponed reference stores nothing, a resolved one is inserted "
        "exactly once. A bounded battery runs every postponement schedule of a small model end to end (reported "
        "separately, never counted as proved).",
        "The induction over resolution steps (invariant: recorded positions sorted, not longer than the list) is the "
        "modular structure, not one solver obligation. Providers are assumed not to modify the list being filled or "
        "the bookkeeping; bisect.bisect_right's postcondition on sorted int lists is an engine primitive (T-PY). "
        "Before the fix commit 85e4752 the list was appended to (49 of 51 schedules wrong).",
        "DESIGN.md 5/C08, 11.8", "bounded battery of postponement schedules with the real loader"),
    "C13": (
        "Proved: call_obj_processors against its own recursive contract, for every metamodel and processor behaviour: "
        "match rules call nothing; at most two processor calls per object, both with the object itself, the own rule's "
        "processor FIRST (its _type is the class registered under the object's _tx_fqn) and the grammar rule's second; "
        "the result is the own processor's value when it is not None - a falsy value such as 0 is a replacement like "
        "any other - else the grammar processor's; per containment attribute / list element (two region units): one "
        "recursive call with the attribute's class as grammar rule, a non-None result replaces the attribute / the "
        "element, None leaves it, non-containment attributes are not entered. Main-model phase: object processors "
        "start only when the last resolution round left nothing postponed and EVERY model of the load has ended "
        "construction (CALL obligation at the processors call, carried by two loop invariants over the "
        "under-construction marker) - processors see a fully linked model with all user __init__ done. A bounded "
        "battery (call log on a grammar with abstract and common rules, multi-file order of __init__ vs processors) is "
        "reported separately.",
        "'Exactly once per object' = one recursive call per contained child + at most one call per processor per "
        "activation; that every object is reached exactly once is the containment forest (C05, bounded there). "
        "Processors and user __init__ are External, assumed not to put the under-construction marker on a model. "
        "Match-rule processors during construction: terminal branch of process_node (contracts/c20.py); process_match "
        "is not under contract.",
        "DESIGN.md 5/C13, 11.8", "bounded battery with the real loader"),
    "C14": (
        "Proved: the instrumentation of user classes as a counted, reversible operation - "
        "_replace_user_attr_methods_for_class saves each own __setattr__/__delattr__/__getattribute__ (or None) and sets "
        "the count to 1; per class _replace_user_attr_methods raises the count by one and instruments only at count 0; "
        "per class _restore_user_attr_methods lowers the count, and at the last load removes the marker and puts back "
        "exactly the saved slots (deletes a slot that did not exist), an un-instrumented class is untouched (29 paths); "
        "get_model_from_str instruments once after parsing and restores on every failing path on which it had "
        "instrumented (balance); _end_model_construction removes the marker and switches the instrumentation off "
        "BEFORE any user __init__; per user object: __init__ is called exactly once with exactly the collected "
        "attributes that belong to the rule (plus parent), and its per-object storage entry is removed first; object "
        "processors start only after every model of the load has ended construction (main-model phase). "
        "Failure path (_abandon_model_construction, added by the repair bbf2621): per user object the storage entry is "
        "dropped; the user classes are restored exactly for a model that is still in construction and whose parser is "
        "not the one of the failing call; the failure handler of the main-model phase runs it for every model of the "
        "load before the models are removed from the repositories. The three defects the bounded battery had found "
        "(per-object storage kept after an unknown reference and after an __init__ raising on the second of three "
        "objects; classes left instrumented after a failing multi-file load) are repaired (known_findings.json: fixed).",
        "The data invariant of _user_class_inst (every element has a storage entry) is a precondition of the "
        "per-object unit (assumed). User __init__ is External. That the abandon step itself raises nothing is assumed "
        "in the main-model-phase unit.",
        "DESIGN.md 5/C14, 11.8, 11.13", "bounded battery of successful and failing loads with user classes"),
    "C15": (
        "Proved: the roots through which textX could keep a failed load alive, each with its clean-up contract - "
        "(1) model repositories: the whole chain of C18 (every failing exit of parse_tree_to_objgraph / the main-model "
        "phase / a failing model processor removes exactly the models of this load); (2) user classes: "
        "get_model_from_str restores the instrumentation on every failing path on which it was switched on and raises "
        "the original error; _restore_user_attr_methods puts back exactly the saved attribute methods at the last load; "
        "the per-object storage entry of an object is removed before its __init__ runs, also when that __init__ fails. "
        "(3) the failure handler of the main-model phase abandons every model of the load (storage entries of its user "
        "objects dropped, user classes restored for models still in construction) before the removal - the repair "
        "bbf2621 of the three defects the battery had found (known_findings.json: fixed).",
        "GC reachability itself is not modelled: the obligations are about the long-lived roots textX has (class "
        "attributes of user classes, repositories); parser clones and resolvers are per load (C16). 'Same result as a "
        "fresh metamodel afterwards' is checked only by the bounded battery.",
        "DESIGN.md 5/C15, 11.8, 11.13", "bounded battery of failing loads with user classes"),
    "C05": (
        "Proved: get_model returns the root (loop invariant root_of(p) == root_of(obj), variant depth) and the root has "
        "no parent; get_parent_of_type returns the nearest ancestor whose class name is the given type. The traversal "
        "closure get_children.follow is proved against its own recursive contract for every model, selector and "
        "should_follow: no object is collected twice in the default parents-first order (invariant over the result "
        "list), the id of every collected object is recorded, the result only grows at the end, an object already "
        "collected is not visited again (no callback, no recursion), an object not yet recorded whose class is a textX "
        "class and which the selector accepts IS collected and the selector is asked exactly once about it; per child "
        "(two region units): a child is visited only through a CONTAINMENT attribute - a reference attribute never "
        "introduces children - only if should_follow accepts it, and every such child is visited; get_children returns "
        "the fresh list filled by one traversal from the root, get_children_of_type forwards root and options. "
        "NOT proved: 'exactly once' for children_first=True (needs containment to be a forest), the parent == container "
        "link set by process_node, and the global statement 'equals the pre/post-order of the containment tree' - a "
        "bounded battery (reference traversal written from the statement, 2 models incl. user classes with value "
        "equality and a user class reused by a second metamodel, 2 orders, 4 selector/should_follow pairs) covers "
        "those end to end, reported separately and never counted as proved.",
        "Partial. Callbacks (selector, should_follow) are External: assumed not to touch the result list, the id set "
        "or the _tx_attrs of classes. Recursion is by contract (partial correctness; termination needs acyclic "
        "containment). Iterating an untyped attribute value assumes it is a list (A-WD).",
        "DESIGN.md 5/C05, 11.7", "bounded battery with the real API for the global order/completeness statement"),
    "C17": (
        "Proved: GlobalModelRepository.load_model parses a file only if it is known neither locally nor globally, "
        "returns the globally registered model (identity of a cached model preserved) and makes it locally visible iff "
        "requested; pre_ref_resolution_callback registers a freshly parsed model under its absolute file name BEFORE its "
        "own imports are followed and gives it a repository sharing all_models (this is what ends import cycles); the "
        "search-path and file-pattern loaders register the importing model before any import is loaded and load every "
        "import through load_model with the importer's parameters; ImportURI / GlobalRepo import-following steps go "
        "through the importing model's repository; internal_model_from_file returns the cached model of a file without "
        "opening or parsing it when the metamodel has a global repository; ImportURI.__call__ searches the model itself "
        "first, a hit wins and ends the search, then (per-step region units) each loaded model and each builtin model is "
        "searched for the same reference and the first hit is returned at once.",
        "The loops over loaded / builtin models are used through their per-step units (the order 'loaded before "
        "builtin' is the order of the two loops in the source); the wrapped scope provider, glob, os.path and the file "
        "system are External. 'Every reference points to the single instance' follows from load-once + cache identity; "
        "end to end it is checked by the native battery (diamond + cycle, search-path cycle, lookup order, cached reload).",
        "DESIGN.md 5/C17, 11.7", ""),
    "C20": (
        "Proved (the /repo side): every matcher built for a grammar literal gets the metamodel's ignore_case - "
        "visit_str_match in both branches (contracts/c21.py) and visit_re_match (RegExMatch(group(1), "
        "ignore_case=metamodel.ignore_case), compiled before use); TextXVisitor.__init__ compiles the keyword pattern "
        "with re.IGNORECASE iff ignore_case; visit_textx_model creates the model parser with the metamodel's "
        "ignore_case / skipws / ws / autokwd / memoization; the terminal branch of process_node hands node.value (or "
        "group 1 under use_regexp_group) unchanged to the match processor - values keep the case they were written in. "
        "What a matcher with ignore_case does with the input is Arpeggio / re: assumed, validated by a bounded battery "
        "(random case mutations of all literal text of a grammar with keywords, escaped literals, regex literals and "
        "separators, autokwd on/off), reported separately and never counted as proved.",
        "Partial claim: matcher semantics trusted (T-ARP, A-RE). TextXMetaModel.__contains__ is used through an assumed "
        "contract (pure bool).",
        "DESIGN.md 5/C20, 11.7", "bounded battery with the real parser for the assumed matcher semantics"),
    "C09": (
        "Proved: (1) the resolution rounds of the main-model phase of parse_tree_to_objgraph terminate - loop variant "
        "pending() (cross-references of the load still to resolve) strictly decreases whenever another round follows "
        "(inner-loop invariant pending == pending_at_round_start - resolved_count; VAR obligation), given the contract "
        "of resolve_one_step that the references it counts as resolved leave the pending lists; (2) the phase returns "
        "normally only when the last round left nothing postponed, otherwise it raises (error report units: every model "
        "and every delayed reference of it is visited, the text only grows); (3) one step of resolve_one_step (loop-body "
        "region unit, every provider behaviour): a reference is counted as resolved exactly when it is not postponed, "
        "it then leaves the pending list and its target is stored, a postponed one stays pending, is recorded as "
        "delayed and its attribute is left alone. NOT proved: that the resolved set is the least fixpoint of the "
        "providers' dependency relation ('succeeds exactly when some order exists', order independence) - a bounded "
        "battery (every dependency graph over <= 3 postponable references, one or two files, real loader) stands in "
        "for it, reported separately and never counted as proved.",
        "Partial claim. Assumed (A-PENDING): resolve_one_step as a whole removes exactly the counted references from "
        "the pending lists - proved per reference on the loop body, the summation over the loop is the modular "
        "structure, not a solver obligation; providers terminate and add no cross-references. The fixpoint/exactly-when "
        "half of the statement is bounded only. That the error text contains each reference name was attempted as a "
        "quantified string invariant and left undecided by z3 and cvc5 (not claimed).",
        "DESIGN.md 5/C09, 11.7", "bounded battery with the real loader for the fixpoint half"),
    "C18": (
        "Proved, as a chain of contracts over the real functions: (1) main-model phase of parse_tree_to_objgraph: on "
        "EVERY exceptional exit (provider error, unresolvable references, assertion, user __init__, object processor) "
        "remove_models_from_repositories is called exactly once, last, with the list of models of this load (computed "
        "before resolution, so still complete after construction has ended) as both arguments; nothing is removed on "
        "success; (2) parse_tree_to_objgraph as a whole (the phase used by contract): once the model object exists every "
        "failure - callback, loading of imports, resolution, processors, tool-support tables - ends in "
        "_remove_all_affected_models_in_construction(model) as the last action, a failure while the object graph is "
        "built and a success remove nothing; (3) _remove_all_affected_models_in_construction removes exactly the "
        "included models that still carry the under-construction marker (filter facts, both directions); "
        "(4) TextXMetaModel._call_model_processors: a failing model processor removes exactly the models whose files "
        "were not cached before the load (snapshot by _known_model_files, both directions), earlier models stay; "
        "internal_model_from_file / model_from_str take the snapshot before anything is loaded and run the processors "
        "through that wrapper; (5) GlobalModelRepository.remove_model removes from both repositories, "
        "ModelRepository.remove_model: the model is gone, every other entry untouched, nothing added.",
        "remove_models_from_repositories / GlobalModelRepository.remove_models (two loops over models) are used through "
        "an assumed contract (they forward to remove_model; not yet under contract). User code (providers, processors, "
        "callbacks, __init__) is External: assumed not to re-insert models into repositories. 'The next load succeeds "
        "with correct identities' is checked only by the native replay battery (five failure kinds).",
        "DESIGN.md 5/C18, 11.7", ""),
    "C06": (
        "Proved (the part that is /repo code): (1) process_node copies the span of the parse node that created an object "
        "into _tx_position / _tx_position_end (two assignment regions); (2) get_location reports line/col of "
        "_tx_position computed by the ROOT model's parser, nchar == end - start and the root model's file name, for every "
        "object and every depth (get_model's loop invariant); (3) the text those offsets refer to is the caller's text: "
        "get_model_from_str hands model_str unchanged to Parser.parse, model_from_str / internal_model_from_file hand the "
        "given string (or exactly what open(abspath(file), encoding=...).read() returned) unchanged to it. "
        "NOT proved, assumed (T-ARP): that Arpeggio's node positions delimit exactly the matched non-empty text, nest and "
        "are ordered; a bounded battery of loads with the real parser (LF/CRLF/tabs/comments, strings and files, four "
        "configurations, one of them with user classes) checks the end-to-end statement and is reported separately, never counted as proved.",
        "Partial claim: non-emptiness, nesting and ordering of spans are properties of Arpeggio's parse tree (assumed, "
        "bounded battery only). Attribute stores on objects under construction are plain stores (A-PLAIN-ATTR; the "
        "instrumented user-class path is C14).",
        "DESIGN.md 5/C06, 11.7", "bounded battery with the real parser for the assumed node positions"),
    "C16": (
        "Proved: TextXModelParser.clone returns a NEW parser object of the same class and language whose parse-dependent "
        "containers (_inst_stack, _crossrefs, _instances, comments, comment_positions, sem_actions) are fresh and empty "
        "and not shared with the blueprint, and it writes nothing on the blueprint (FRAME: modifies nothing); "
        "model_from_str and internal_model_from_file run every load on blueprint.clone(), never on the blueprint, hand the "
        "caller's arguments through unchanged, and with a global repository return the cached model of a file without "
        "parsing; get_model_from_str passes its own parser and the caller's arguments to the object-graph builder and "
        "instruments user classes exactly once per load, balanced on every failing path.",
        "Partial claim (DESIGN.md 5/C16): no frame for the whole pipeline. Arpeggio state re-initialised by Parser.parse "
        "(T-ARP), the grammar-parser cache of language_from_str, shared base-type rule objects and the registries are not "
        "covered; 'structurally equal to a fresh process' therefore rests on the clone/blueprint separation plus C14/C15 "
        "(instrumentation restored) and C18 (repositories cleaned), not on one end-to-end theorem. copy.copy is an "
        "engine primitive (new object, same class, same attribute row).",
        "DESIGN.md 5/C16, 11.7", ""),
    "C33": (
        "Exceptional postcondition of TextXMetaModel.process proved for every processor behaviour "
        "(return/raise, any exception class, any pre-set location fields) and every argument value: "
        "a TextXError leaves with line/col/filename/nchar filled from the supplied location exactly where the "
        "processor left them None; other exceptions pass through unchanged. Call sites carry CALL obligations "
        "that the supplied location is that of the processed object / match.",
        "Trusted: CPython semantics as encoded (T-PY), z3/cvc5 (T-SMT), the engine (T-ENG); Arpeggio's "
        "pos_to_linecol and node positions (T-ARP). The processor is an External callable (universally quantified).",
        "DESIGN.md 5/C33, 2.10", ""),
    "C25": (
        "TextXMetaModel.__getitem__ proved: an unqualified name resolves to the current file's rule if it defines one, "
        "else to the first imported namespace in list order that defines it (loop invariant: no earlier namespace "
        "defines it), else KeyError. _new_import proved: the imported namespace is appended after the previously "
        "imported ones, the file is loaded iff its namespace is not yet known, and the namespace is registered before "
        "the file is loaded (diamonds and cycles yield one set of classes). _enter_namespace (base types searched "
        "first, existing namespaces kept) and _cls_fqn (file-based qualified names) proved.",
        "== / `in` on dicts and lists is modelled as identity-or-structural (an uninterpreted over-approximation); "
        "os.path arithmetic (namespace name of a file) is uninterpreted. Qualified lookups through referenced languages "
        "go through an External metamodel_for_language.",
        "DESIGN.md 5/C25", ""),
    "C26": (
        "Every operation of registration.py is proved against a whole-view contract over the abstract registry state "
        "(languages: None or dict lower-case name -> description; generators: two-level dict; metamodels cache): "
        "register_* adds exactly one binding under the lower-cased key and refuses an existing key leaving the view "
        "unchanged; clear_* unloads; the lazy loader re-reads the entry points exactly when the registry is unloaded "
        "(so entry-point registrations survive clearing) and never touches the metamodel cache; language_description / "
        "generator_description (incl. the 'any' fallback and its KeyError logic); languages_for_file returns exactly "
        "the matching descriptions, once each, in registry order (counting spec function + loop invariant); "
        "language_for_file fails unless exactly one; metamodel_for_language returns the cached instance without "
        "arguments and otherwise the instance or factory(**kwargs), cached. An arbitrary history of operations is "
        "covered by induction over these per-operation contracts.",
        "Assumed: entry_points() is a fixed list; loading an entry point and metamodel factories do not rebind the "
        "registry globals or touch the metamodel cache; fnmatch is a pure predicate on strings; str.lower is an "
        "uninterpreted function. register_*_with_project is used through an assumed (trusted) contract.",
        "DESIGN.md 5/C26", ""),
    "C30": (
        "The body of the custom-argument loop of `textx generate` (a statement region of the real click command, "
        "decorators dropped) is proved against the per-token contract taken from the statement: a token --name "
        "contributes exactly the key name[2:] with '-' replaced by '_', value True when bare (last token or followed "
        "by another --token) else the next token stripped of quotes; no other key changes; consumed tokens and model "
        "files accounted with quantified whole-list postconditions. Holds for every token list.",
        "str.replace is an uninterpreted function with four ground lemmas for single-character patterns (A-REPLACE), "
        "str.strip is uninterpreted; click's option parsing and sys.exit are trusted. NOT covered yet: validation of "
        "declared/mandatory generator arguments and the exit-status paths of check/generate.",
        "DESIGN.md 5/C30", ""),
    "C07": (
        "PlainName.__call__ is proved against the statement: the model search is asked for exactly 'has a name equal "
        "to the reference text and conforms to the target class' starting at the model root; one match is returned, "
        "several raise the located 'not unique' error, none gives None. The resolution loop body is proved to use the "
        "builtins entry only when the provider returned None and the entry conforms (textx_isinstance, itself proved "
        "equal to the conformance relation over _tx_inh_by), and to raise 'Unknown object' exactly when nothing was "
        "found; a resolved target is stored in / appended to the attribute.",
        "get_children is used through an assumed contract (all contained objects satisfying the selector, once each); "
        "its traversal is only covered by the bounded stand-in of C05. Termination of textx_isinstance needs acyclic "
        "_tx_inh_by (assumed, see C03). Scope providers are External callables.",
        "DESIGN.md 5/C07, Appendix B", ""),
    "C27": (
        "check_params is proved to accept exactly the declared parameter names (loop invariant over the keyword "
        "arguments); model_from_str / model_from_file call it first and forward a ModelParams holding exactly the "
        "given arguments; the two kwargs_callback closures install those parameters on every model of the load; "
        "GlobalModelRepository.load_model / load_models_using_filepattern / load_model_using_search_path and the "
        "import-following steps of ImportURI and GlobalRepo pass the importing model's parameters on (CALL-site "
        "clauses on the recorded call events); each definitions registry owns a fresh dict.",
        "The callbacks are invoked by parse_tree_to_objgraph for every model that has _tx_metamodel (the existing "
        "assert there) - that call site is not yet under contract. Arpeggio parsing and user callbacks are External.",
        "DESIGN.md 5/C27", ""),
    "C28": (
        "Error construction sites proved to carry file/line/col of the offending text: unknown object (file of the "
        "resolver's model, position of the cross-ref by the resolver's parser), non-unique name (PlainName), syntax "
        "error (_parse forwards the NoMatch location and the parsing parser's file), unresolvable postponed references "
        "(location computed by the parser of the model owning the reference, file of that model). The cross-ref "
        "positions themselves are proved to be those of the reference's own parse node for plain and list assignments "
        "(per-element step contract of process_node).",
        "Arpeggio NoMatch fields and pos_to_linecol are trusted (T-ARP). That resolver.parser is the model's own "
        "parser is established where the resolver is created (not yet under contract). The induction from the "
        "per-element step contracts to the whole loops is the modular structure, not a solver obligation.",
        "DESIGN.md 5/C28", ""),
    "C12": (
        "Every __repr__ of the RREL classes (Parent, Navigation, Brackets, Dots, Sequence, ZeroOrMore, Path, "
        "Expression) is proved equal to a spec printer written production by production from the RREL grammar "
        "(flags printed whenever present; a fixed name quoted with the quote it does not contain; leading dots glued "
        "to the first path element), for all field values. That the spec printer re-parses to the same tree is "
        "validated with the real parser on every tree up to depth 2 (3 thorough) over all operators and flag sets: a "
        "bounded stand-in, reported separately and never counted as proved.",
        "Arpeggio runs the RREL grammar (T-ARP). str(x) of an RREL node is its __repr__; sep.join(map(str, L)) is "
        "modelled as one function of (sep, contents of L). The parse(pp(t)) == t half is bounded, not proved.",
        "DESIGN.md 5/C12", "spec printer + bounded round trip with the real parser"),
    "C32": (
        "Per-reference contract of the resolution loop body (a statement region of ReferenceResolver.resolve_one_step) "
        "proved for every metamodel provider table, every cross-ref and every provider behaviour: exactly one provider "
        "is applied to (obj, attr, crossref); it is the grammar RREL provider if present, else the value under the "
        "first present key of Rule.attr, *.attr, Rule.*, *.*, else the default PlainName. register_scope_providers "
        "(loop invariant over the table) and RuleCrossRef.__init__ both build RREL providers with the same constructor.",
        "Providers are External callables (assumed not to write the resolver, the cross-ref, the meta attribute or the "
        "provider table). create_rrel_scope_provider is an assumed pure function of its argument.",
        "DESIGN.md 5/C32, Appendix B", ""),
    "C34": (
        "Proved: (1) per resolved reference exactly one RefRulePosition with start = reference position, end = end of "
        "the reference text (ObjCrossRef.position_end), definition span/file of the target (loop-body region unit); "
        "(2) resolve_one_step leaves the list sorted by start (list.sort contract); (3) the position map gets an entry "
        "for each object span, the innermost object wins a shared span (insertion region unit); (4) the final ordering "
        "statement lists every span before all different spans containing it (sorted()/OrderedDict contracts, "
        "quantified over all dicts of int-pair keys).",
        "That ObjCrossRef.position_end is the parse node's end is a CALL-site fact of process_node not yet under "
        "contract (assumed). list.sort / sorted are modelled as 'permutation ordered by the inlined key'.",
        "DESIGN.md 5/C34", ""),
    "C21": (
        "TextXVisitor.visit_str_match, the one place where a grammar string literal becomes a matcher, is proved for "
        "every literal text, every autokwd / ignore_case value and every child list: when autokwd is on and the keyword "
        "pattern matches the whole literal (the literal looks like an identifier) the result is a compiled RegExMatch "
        "whose pattern is the literal followed by \\b, printed as the literal, with the metamodel's ignore_case; in "
        "every other case - in particular for every literal when autokwd is off - the result is StrMatch(literal, "
        "ignore_case), i.e. exactly the construction made without autokwd, and the keyword pattern is not even consulted "
        "when autokwd is off. That a \\b-terminated regex refuses a following word character and otherwise agrees with "
        "the string matcher is Arpeggio + re (assumed); it is validated with the real metamodel and parser on a bounded "
        "battery of literals x following texts, reported separately and never counted as proved.",
        "Assumed (A-RE, T-ARP): semantics of re patterns and of arpeggio.RegExMatch/StrMatch; keyword_regex.match/span "
        "are modelled by an uninterpreted prefix-length function; decode_escapes is an uninterpreted pure function. "
        "The 'same model as without autokwd' sentence of the statement therefore rests on proved identical matcher "
        "construction for non-identifier literals plus the assumed agreement of the two matchers for identifier-like "
        "ones when no word character follows (bounded battery only).",
        "DESIGN.md 5/C21, 11.2", "; bounded battery with the real parser for the assumed matcher semantics"),
}

NA = {
    "C11": "not claimed: no check is built. The RREL evaluator (textx/scoping/rrel.py: get_next_matches of the RREL "
           "node classes, find_object_with_path) is a set of mutually recursive LAZY GENERATORS; the verification-"
           "condition generator of /verif executes generators only in the two shapes it models (a generator consumed "
           "by next() over a list, and yield inside a @contextmanager), so the functions this property is anchored in "
           "are outside what it can bring under contract in the time available. Only the printers of the RREL node "
           "classes are under contract (C12). No other technique was substituted; nothing is asserted either way "
           "(DESIGN.md 11.10, 11.12).",
    "C29": "not claimed: no check is built. One fragment is decided - dot_escape is proved safe inside DOT double "
           "quotes for every input string by the transducer back end (DESIGN.md 11.9) - but the write sites of "
           "model_export_to_file / metamodel_export_tofile and the renderers ('a node for every object', every "
           "written string escaped, PlantUML balanced) are not under contract, and the round-0 probes showed "
           "unescaped pieces there; a green check on the fragment alone would overstate what is known, so the "
           "property is not claimed and the fragment is not registered as a check.",
    "C19": "Arpeggio's packrat cache (_result_cache keyed by position) decides this; no /repo function is "
           "involved beyond forwarding one keyword argument, so no contract on /repo code can express or decide it.",
    "C24": "Equivalence of two hand-written PEG grammars (textx.tx vs lang.py) is not a property of any function; "
           "comparing them would be translation validation / language equivalence, a different family.",
}

PENDING_REASON = ("not claimed: no check is built for this property. The technique can express it (DESIGN.md 5 names the "
                  "contracts that would decide it), but the verifier itself took the available time and no other technique "
                  "was substituted (DESIGN.md 11.3). Nothing is asserted about it either way.")

PARTIAL = {
    "C03": "textx_isinstance is proved equal to the conformance relation (used by C07); the abstract-rule branch of "
           "process_node and _determine_rule_types are not under contract",
    "C02": "clauses tagged C02 sit on the process_node assignment-step units and verify, but _update_attr_multiplicities "
           "and visit_assignment are not under contract",
    "C05": "get_model and get_parent_of_type are proved; get_children / get_children_of_type and the parent assignment "
           "in process_node are not under contract",
    "C08": "the append-in-order clause of the resolution loop body verifies; cross-reference collection order in "
           "process_node is only partly under contract",
    "C09": "the per-step accounting clause of the resolution loop body verifies; the fixpoint loop of "
           "parse_tree_to_objgraph is not under contract",
    "C17": "pre_ref_resolution_callback is proved; the loaders, the cache branch and the lookup order are not under contract",
    "C18": "ModelRepository.remove_model and GlobalModelRepository.remove_model are proved; the exception handlers that "
           "call them are not under contract",
}


def main():
    props = [json.loads(l)["id"] for l in open(os.path.join(HERE, "properties.jsonl"))]
    checks = []
    for pid in props:
        if pid in CLAIMED:
            text, note, ref, tech = CLAIMED[pid]
            checks.append({
                "property_id": pid,
                "quick_cmd": f"./check {pid} --tier quick",
                "thorough_cmd": f"./check {pid} --tier thorough",
                "evidence_file": f"evidence/{pid}.json",
                "replay_cmd_template": f"./check {pid} --replay {{path}}",
                "engine": "txvc",
                "level_claimed": {"category": "proof", "text": text, "design_ref": ref},
                "level_note": note,
                "technique": TECH + (("; " + tech) if tech else ""),
            })
    na = []
    for pid in props:
        if pid in CLAIMED:
            continue
        reason = NA.get(pid, PENDING_REASON)
        if pid in PARTIAL:
            reason += (" Partial units exist (" + PARTIAL[pid] + "); that is too small a part of the statement to "
                       "register a check that would look green.")
        na.append({"property_id": pid, "reason": reason})
    m = {
        "version": 1,
        "setup_cmd": "./tools/setup",
        "hooks": {
            "guard": "TEXTX_VERIF",
            "enable": "no hook exists: contracts are sidecar files under /verif/contracts, the engine reads "
                      "/repo sources with ast and imports the real package only for native replay",
            "baseline_off_cmd": "cd /repo && /venv/bin/python -m pytest -ra -q -p no:cacheprovider --timeout=900 "
                                "--continue-on-collection-errors",
            "source_commits": [],
            "add_only": True,
        },
        "engines": [{
            "name": "txvc",
            "path": "txvc/",
            "serves_properties": sorted(CLAIMED),
            "kind_free_text": "VC generator + path-wise symbolic executor for Python (ast of the real sources), "
                              "contracts/invariants/ghost state in /verif/contracts, z3 + cvc5",
        }],
        "checks": checks,
        "not_applicable": na,
        "notes": "exit codes of ./check: 0 held, 1 violation (VIOLATION line + replay file), 2 undecided, "
                 "3 checker broken. Known findings: known_findings.json. fix: commits in /repo are listed there as fixed.",
    }
    with open(os.path.join(HERE, "MANIFEST.json"), "w") as f:
        json.dump(m, f, indent=1)
    print("MANIFEST.json:", len(checks), "checks,", len(na), "not applicable/pending")


if __name__ == "__main__":
    main()
