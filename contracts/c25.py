"""C25 - grammar imports resolve rules in the documented order."""

from txvc.contracts import Ext, Loop, Schema, SpecFn, Unit

from . import common  # noqa: F401

CUR = "self._namespace_stack[-1]"
IMPORTED = f"as_list(self._imported_namespaces[{CUR}])"

Unit(
    "metamodel.__getitem__",
    target="textx/metamodel.py::TextXMetaModel.__getitem__",
    props=["C25"],
    params={"self": "obj:TextXMetaModel", "name": "str"},
    requires=["len(self._namespace_stack) >= 1", f"{CUR} in self.namespaces",
              f"{CUR} in self._imported_namespaces"],
    calls={"metamodel_for_language": Ext("metamodel_for_language", raises="any")},
    inline=["TextXMetaModel._current_namespace"],
    modifies=["*"],
    loops={f"for:self._imported_namespaces[self._namespace_stack[-1]]": Loop(
        pure=True,
        inv=[f"forall(lambda j: implies(0 <= j and j < _i, not (name in as_dict({IMPORTED}[j]))))"])},
    ensures=[
        ("unqualified-current-file-first",
         f"implies(not ('.' in name) and name in as_dict(self.namespaces[{CUR}]),"
         f" result == as_dict(self.namespaces[{CUR}])[name])"),
        ("unqualified-then-first-import-in-import-order",
         f"implies(not ('.' in name) and not (name in as_dict(self.namespaces[{CUR}])),"
         f" exists_in(0, len({IMPORTED}), lambda i: name in as_dict({IMPORTED}[i])"
         f" and result == as_dict({IMPORTED}[i])[name]"
         f" and forall(lambda j: implies(0 <= j and j < i, not (name in as_dict({IMPORTED}[j]))))))"),
    ],
    raises={"KeyError": [
        ("unknown-only-if-defined-nowhere",
         f"implies(created_here(exc) and not ('.' in name), not (name in as_dict(self.namespaces[{CUR}]))"
         f" and forall(lambda j: implies(0 <= j and j < len({IMPORTED}), not (name in as_dict({IMPORTED}[j])))))")]},
    canary="result is None",
)

Unit(
    "metamodel._enter_namespace",
    target="textx/metamodel.py::TextXMetaModel._enter_namespace",
    props=["C25"],
    params={"self": "obj:TextXMetaModel", "namespace_name": "any"},
    requires=["'__base__' in self.namespaces",
              "distinct(self.namespaces, self._imported_namespaces, self._namespace_stack)"],
    modifies=["dict(self.namespaces)", "dict(self._imported_namespaces)", "list(self._namespace_stack)"],
    ensures=[
        ("pushed", "len(self._namespace_stack) == old(len(self._namespace_stack)) + 1 and "
                   "self._namespace_stack[-1] == namespace_name"),
        ("new-namespace-searches-base-types-first",
         "implies(not old(namespace_name in self.namespaces), namespace_name in self.namespaces and "
         "len(as_list(self._imported_namespaces[namespace_name])) == 1 and "
         "as_list(self._imported_namespaces[namespace_name])[0] == self.namespaces['__base__'])"),
        ("existing-namespace-kept-one-set-of-classes",
         "implies(old(namespace_name in self.namespaces), "
         "self.namespaces[namespace_name] == old(self.namespaces[namespace_name]))"),
    ],
    canary="len(self._namespace_stack) == 0",
)

NS = "self._namespace_stack"
IMP_NAME = ("(before(evn('rsplit-probe', 0), 0) if False else 0)")  # placeholder, not used

Unit(
    "metamodel._new_import",
    target="textx/metamodel.py::TextXMetaModel._new_import",
    props=["C25"],
    params={"self": "obj:TextXMetaModel", "import_name": "str"},
    requires=["len(self._namespace_stack) >= 1", "is_str(self._namespace_stack[-1])",
              f"{CUR} in self._imported_namespaces", "'__base__' in self.namespaces",
              "distinct(self.namespaces, self._imported_namespaces, self._namespace_stack)"],
    calls={
        "self._enter_namespace": "metamodel._enter_namespace",
        "self._leave_namespace": Ext("_leave_namespace", raises=None,
                                     modifies=["list(self._namespace_stack)"],
                                     ensures=[]),
        "self.dprint": Ext("dprint", pure=True, raises=None, returns="none"),
        "metamodel_from_file": Ext("metamodel_from_file",
                                   protect=["self._namespace_stack", "self._imported_namespaces", "self.namespaces",
                                            "self.root_path"],
                                   note="loading the imported grammar file (re-enters _new_import for its own imports)"),
    },
    modifies=["*"],
    ensures=[
        # a relative import is resolved against the package (directory) of the IMPORTING grammar file:
        # everything up to the LAST dot of the current namespace, not its top-level package
        ("relative-import-resolved-against-the-importers-package",
         f"(final_import_name == old(import_name)) if '.' not in as_str(old({CUR})) else ("
         f"final_import_name.endswith('.' + old(import_name)) and "
         f"as_str(old({CUR})).startswith(final_import_name[:len(final_import_name) - len(old(import_name))]) and "
         f"'.' not in as_str(old({CUR}))[len(final_import_name) - len(old(import_name)):])"),
        # the imported namespace is appended AFTER the previously imported ones (import order)
        ("import-appended-in-import-order",
         f"len(as_list(self._imported_namespaces[old({CUR})])) >= 1 and "
         f"as_list(self._imported_namespaces[old({CUR})])[-1] == self.namespaces[final_import_name]"),
        # each grammar file is loaded once however often it is imported (diamonds, cycles)
        ("file-loaded-iff-not-yet-known",
         "(n_calls('metamodel_from_file') == 1) == (not old(final_import_name in self.namespaces))"),
        ("namespace-registered-before-its-file-is-loaded",
         "implies(n_calls('metamodel_from_file') == 1, "
         "before(evn('metamodel_from_file', 0), final_import_name in self.namespaces))"),
    ],
    canary="n_calls('metamodel_from_file') == 1",
)

Unit(
    "metamodel._cls_fqn",
    target="textx/metamodel.py::TextXMetaModel._cls_fqn",
    props=["C25"],
    params={"self": "obj:TextXMetaModel", "cls": "obj"},
    requires=["len(self._namespace_stack) >= 1", "is_str(cls.__name__)"],
    returns="str",
    ensures=[("file-based-qualified-name",
              f"result == (cls.__name__ if ({CUR} == '__base__' or {CUR} is None) else as_str({CUR}) + '.' + cls.__name__)")],
    canary="result == ''",
)


from txvc.props import replay_for  # noqa: E402


@replay_for("metamodel._new_import")
def _replay_new_import(model, rec):
    """End to end: grammar files with a cycle back to a still-loading file followed by further
    imports, and a diamond; an unqualified rule must come from the first import (in import order)
    that defines it, and each file must yield one set of classes."""
    import os
    import shutil
    import tempfile

    from textx import metamodel_from_file

    d = tempfile.mkdtemp(prefix="txvc-c25-")
    bad = []
    try:
        files = {
            "main.tx": "import b\nModel: things+=BThing;",
            "b.tx": "import main\nimport c\nimport d\nBThing: 'b' x=X;",
            "c.tx": "X: 'cx' name=ID;",
            "d.tx": "import c\nX: 'dx' name=ID;\nY: 'y' x=X;",
        }
        for fn, txt in files.items():
            open(os.path.join(d, fn), "w").write(txt)
        try:
            mm = metamodel_from_file(os.path.join(d, "main.tx"))
        except Exception as e:  # noqa: BLE001
            return True, f"loading main.tx (imports b; b imports main, c, d) failed: {e}"
        x_of_b = mm["b.BThing"]._tx_attrs["x"].cls
        if x_of_b is not mm["c.X"]:
            bad.append(f"unqualified X in b.tx resolved to {x_of_b._tx_fqn}, first import defining it is c")
        if mm["d.Y"]._tx_attrs["x"].cls is not mm["d.X"]:
            bad.append("unqualified X in d.tx did not resolve to d's own rule")
        try:
            mm.model_from_str("b cx foo")
        except Exception as e:  # noqa: BLE001
            bad.append(f"'b cx foo' rejected: {e}")
        if mm["c.X"] is not mm.namespaces["c"]["X"]:
            bad.append("c.tx yielded more than one set of classes")
        # a relative import two directories below the root, with a same-named decoy higher up:
        # 'import common' in pkg/sub/leaf.tx means pkg/sub/common.tx
        os.makedirs(os.path.join(d, "pkg", "sub"))
        nested = {
            "top.tx": "import pkg.sub.leaf\nTop: leaves+=Leaf;",
            os.path.join("pkg", "common.tx"): "Item: 'decoy' name=ID;",
            os.path.join("pkg", "sub", "common.tx"): "Item: 'item' name=ID;",
            os.path.join("pkg", "sub", "leaf.tx"): "import common\nLeaf: 'leaf' items+=Item;",
        }
        for fn, txt in nested.items():
            open(os.path.join(d, fn), "w").write(txt)
        try:
            mm2 = metamodel_from_file(os.path.join(d, "top.tx"))
            got = mm2["pkg.sub.leaf.Leaf"]._tx_attrs["items"].cls._tx_fqn
            if got != "pkg.sub.common.Item":
                bad.append(f"'import common' in pkg/sub/leaf.tx resolved Item to {got}, expected pkg.sub.common.Item")
        except Exception as e:  # noqa: BLE001
            bad.append(f"loading top.tx (imports pkg.sub.leaf, which imports its sibling common) failed: {e}")
    finally:
        shutil.rmtree(d, ignore_errors=True)
    return bool(bad), "; ".join(bad) or "imports resolve in import order"
