"""C07 - default reference resolution (PlainName) and the model search it uses."""

import re

from txvc.contracts import Ext, Loop, Schema, SpecFn, Unit

from . import c03, c05, c33, common, resolve  # noqa: F401

# x is `root` or reachable from it through containment attributes only (the objects
# get_children visits); depends on arbitrary attributes of the model objects
SpecFn("contained", [("root", "any"), ("x", "any")], "bool", reads=["@attr", "[]", "{}"])
# position of a collected object in the result list of get_children (ghost witness)
SpecFn("gc_index", [("root", "any"), ("x", "any")], "int", reads=["@attr", "[]", "{}"])

Unit(
    "model.get_children",
    target="textx/model.py::get_children",
    props=[],
    trusted=True,
    params={"selector": "any", "root": "any", "children_first": "any", "should_follow": "any"},
    returns="list",
    ensures=[
        # only contained objects of textX classes that satisfy the selector ...
        "forall(lambda j: implies(0 <= j and j < len(result), contained(root, result[j])"
        " and hasattr(result[j].__class__, '_tx_attrs') and truthy(selector(result[j]))))",
        # ... every one of them, exactly once (should_follow left at its default)
        "forall_val(lambda x: implies(is_ref(x) and contained(root, x) and hasattr(x.__class__, '_tx_attrs')"
        " and truthy(selector(x)), 0 <= gc_index(root, x) and gc_index(root, x) < len(result)"
        " and result[gc_index(root, x)] == x))",
        "forall(lambda i, j: implies(0 <= i and i < j and j < len(result), result[i] != result[j]))",
    ],
    notes="caller-side contract of get_children with the default should_follow; the traversal itself is "
          "checked by the bounded stand-in of C05 (not proved)",
)

MATCH = ("(is_ref(x) and contained(root_of(obj), x) and hasattr(x.__class__, '_tx_attrs') and hasattr(x, 'name')"
         " and x.name == obj_ref.obj_name and conf(x, obj_ref.cls))")

Unit(
    "providers.PlainName.__call__",
    target="textx/scoping/providers.py::PlainName.__call__",
    props=["C07", "C28"],
    params={"self": "obj:PlainName", "obj": "obj", "attr": "any", "obj_ref": "obj:ObjCrossRef"},
    requires=["self.multi_metamodel_support", "depth(obj) >= 0"],
    calls={
        "get_parser(obj).dprint": Ext("dprint", pure=True, raises=None, returns="none"),
        "get_parser(obj).pos_to_linecol": Ext("pos_to_linecol", returns="tuple", raises=None, pure=True,
                                              ensures=["result == linecol(callee, a0)"]),
        "get_parser": Ext("get_parser", pure=True, raises=None, returns="obj:TextXModelParser",
                          ensures=["result == root_of(a0)._tx_parser"],
                          note="textx.scoping.tools.get_parser: get_model(obj)._tx_parser"),
    },
    preserves=[],
    export=[],  # the resolution loop only needs: returns a value or raises TextXSemanticError
    ensures=[
        # the model search is asked for exactly "name equals the reference text and type conforms"
        ("C07-search-predicate-is-name-and-type",
         "after(evn('call:model.get_children', 0), forall_val(lambda x: implies(is_ref(x),"
         " truthy(evn('call:model.get_children', 0).args['selector'](x)) == "
         "(hasattr(x, 'name') and x.name == obj_ref.obj_name and conf(x, obj_ref.cls)))))"),
        ("C07-search-starts-at-the-model-root",
         "evn('call:model.get_children', 0).args['root'] == root_of(obj)"),
        ("C07-resolves-to-a-matching-contained-object",
         "implies(result is not None, " + re.sub(r"\bx\b", "result", MATCH) + ")"),
        ("C07-none-only-if-nothing-matches",
         "implies(result is None, forall_val(lambda x: not " + MATCH + "))"),
        ("C07-the-match-is-unique",
         "implies(result is not None, forall_val(lambda x: implies(" + MATCH + ", x == result)))"),
    ],
    raises={"TextXSemanticError": [
        ("C07-not-unique-only-if-several-match",
         "implies(created_here(exc), after(evn('call:model.get_children', 0), "
         "len(final_result_lst) > 1 and final_result_lst[0] != final_result_lst[1] and "
         + re.sub(r"\bx\b", "final_result_lst[0]", MATCH) + " and "
         + re.sub(r"\bx\b", "final_result_lst[1]", MATCH) + "))"),
        ("C28-not-unique-error-location",
         "implies(created_here(exc), exc.filename == root_of(obj)._tx_filename"
         " and (exc.line, exc.col) == linecol(root_of(obj)._tx_parser.pos_to_linecol, obj_ref.position))"),
    ]},
    canary="result is None",
)


from txvc.props import replay_for  # noqa: E402


@replay_for("providers.PlainName.__call__")
def _replay_plainname(model, rec):
    """End to end with the default provider: names of every kind the grammar can produce (identifiers,
    integers including 0, strings including the empty string), a dangling reference, a duplicate name."""
    from textx import metamodel_from_str
    from textx.exceptions import TextXSemanticError

    bad = []
    mm = metamodel_from_str("Model: states+=State refs+=Ref; State: 'state' name=INT; Ref: 'goto' to=[State|INT];")
    for names, ref in (([0, 1], 0), ([5, 7], 7), ([0], 0)):
        text = " ".join(f"state {n}" for n in names) + f" goto {ref}"
        try:
            m = mm.model_from_str(text)
            if m.refs[0].to is not m.states[names.index(ref)]:
                bad.append(f"{text!r}: reference resolved to {m.refs[0].to!r}")
        except TextXSemanticError as e:
            bad.append(f"{text!r}: {e}")
    mm2 = metamodel_from_str("Model: things+=Thing refs+=Ref; Thing: 'thing' name=STRING; "
                             "Ref: 'use' to=[Thing|STRING];")
    for text, idx in (("thing '' thing 'a' use ''", 0), ("thing 'a' thing 'b' use 'b'", 1)):
        try:
            m = mm2.model_from_str(text)
            if m.refs[0].to is not m.things[idx]:
                bad.append(f"{text!r}: reference resolved to {m.refs[0].to!r}")
        except TextXSemanticError as e:
            bad.append(f"{text!r}: {e}")
    for text, kind in (("thing 'a' use 'zz'", "Unknown object"), ("thing 'a' thing 'a' use 'a'", "not unique")):
        try:
            mm2.model_from_str(text)
            bad.append(f"{text!r}: no error ({kind} expected)")
        except TextXSemanticError as e:
            if kind not in str(e):
                bad.append(f"{text!r}: {e} ({kind} expected)")
    # builtins: used only when the model has no such object and only when the type conforms
    class _B:
        def __init__(self, name):
            self.name = name

    mm3 = metamodel_from_str("Model: things+=Thing others+=Other refs+=Ref orefs+=ORef; Thing: 'thing' name=ID;"
                             " Other: 'other' name=ID; Ref: 'use' to=[Thing]; ORef: 'ouse' to=[Other];")
    bt, bo = mm3["Thing"](), mm3["Other"]()
    bt.name, bo.name = "std", "ostd"
    mm3.builtins = {"std": bt, "ostd": bo, "local": bt}
    m = mm3.model_from_str("thing local thing a other o use std use local use a ouse ostd ouse o")
    if m.refs[0].to is not bt or m.orefs[0].to is not bo:
        bad.append("a name without a model object did not resolve to the conforming builtins entry")
    if m.refs[1].to is not m.things[0]:
        bad.append("a model object was shadowed by the builtins entry of the same name")
    if m.refs[2].to is not m.things[1] or m.orefs[1].to is not m.others[0]:
        bad.append("plain references resolve wrongly when builtins are present")
    try:
        mm3.model_from_str("thing a other o use ostd ouse o")
        bad.append("a builtins entry of a non-conforming type was accepted")
    except TextXSemanticError as e:
        if "Unknown object" not in str(e):
            bad.append(f"non-conforming builtin: {e}")
    return bool(bad), "; ".join(bad) or "default resolution behaves as documented on the scenario battery"
