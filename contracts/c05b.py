"""C05 (continued) - get_children / get_children_of_type: the traversal closure `follow`.

Contract of follow(elem) (recursive; a recursive call is used through this same contract).
Representation invariant of the two accumulators (requires and ensures):
     I1  collected has no object twice (identity);
     I2  the id of every collected object is recorded in collected_ids;
  F1  collected only grows at the end: the old prefix is untouched;
  F2  an object already collected is not visited again: nothing changes, no callback runs, no recursion;
  F3  an object whose id is not recorded, whose class is a textX class and which the selector accepts
      is in collected afterwards (with I1: exactly once); the selector is asked once, about this object.
Per child (region units of the two inner statements): a child is visited only if it sits in a
CONTAINMENT attribute of the object (never through a reference) and only if should_follow accepts it,
and every such child IS visited.
NOT proved here: the converse of I2 (only ids of collected objects are recorded) - a quantifier
alternation both solvers leave undecided; the bounded battery below covers completeness end to end.
"""

from txvc.contracts import Ext, Loop, Unit
from txvc.props import extra, replay_for

from . import c05, common  # noqa: F401

TGT = "textx/model.py::get_children.follow"
CAPT = {"collected": "list", "collected_ids": "set", "selector": "any", "should_follow": "any",
        "children_first": "bool"}
# (with children_first the object is appended AFTER its children were visited; that it was not collected
# meanwhile needs containment to be a forest - a precondition about the whole model that is not stated
# here: "exactly once" is proved for the default parents-first order, bounded battery for the other)
NODUP = ("implies(not children_first, forall(lambda i, j: implies(0 <= i and i < j and j < len(collected),"
         " collected[i] != collected[j])))")
IDS_A = "forall(lambda j: implies(0 <= j and j < len(collected), id(collected[j]) in collected_ids))"
PREFIX = ("len(collected) >= {0}(len(collected)) and forall(lambda j: implies(0 <= j and j < {0}(len(collected)),"
          " collected[j] == {0}(collected[j])))")
IN_COLLECTED = "exists_in(0, len(collected), lambda j: collected[j] == {x})"
# ATTR:_tx_attrs = the attribute _tx_attrs of every object (classes and metaclasses): the traversal, the
# callbacks and the recursion leave the metamodel's attribute tables alone
PROT = ["list(collected)", "dict(collected_ids)", "ATTR:_tx_attrs"]
AT_LOOP = PREFIX.replace("{0}(", "at('loop_entry', ")

SELECTOR = Ext("selector", note="user predicate: which objects are of interest", protect=PROT)
SHOULD_FOLLOW = Ext("should_follow", note="user predicate: which objects are traversed", protect=PROT)
INV = [NODUP, IDS_A, AT_LOOP]

Unit(
    "model.get_children.follow",
    target=TGT,
    props=["C05"],
    params={"elem": "obj"},
    captured=CAPT,
    requires=[("I1-no-object-twice", NODUP), ("I2-every-collected-id-recorded", IDS_A),
              "collected != collected_ids"],
    calls={"selector": SELECTOR, "should_follow": SHOULD_FOLLOW,
           "collected.append": "list.append", "collected_ids.add": "set.add"},
    modifies=["*"],
    protects=["ATTR:_tx_attrs"],
    # (unit-wide protection also applies to the recursive call, which DOES append to the accumulators: only the
    # class rows are protected here; the accumulators are protected from the two callbacks individually)
    ext_protect=PROT[2:],
    loops={
        # (an iteration appends to the accumulators - through the recursive call - so only the class rows are
        # left unchanged by the loop bodies; the accumulators are carried by the invariants)
        "for:cls._tx_attrs.items()": Loop(modifies=["*"], inv=INV, protect=PROT[2:]),
        "for:new_elem_list": Loop(modifies=["*"], inv=INV, protect=PROT[2:]),
    },
    ensures=[
        ("I1-no-object-twice", NODUP),
        ("I2-every-collected-id-recorded", IDS_A),
        ("F1-old-prefix-untouched", PREFIX.format("old")),
        ("F2-already-collected-object-is-not-visited-again",
         "implies(old(" + IN_COLLECTED.format(x="elem") + "), len(collected) == old(len(collected))"
         " and n_calls('selector') == 0 and n_calls('should_follow') == 0"
         " and n_calls('call:model.get_children.follow') == 0)"),
        ("F3-accepted-object-is-collected",
         "implies(not old(id(elem) in collected_ids) and old(hasattr(cls(elem), '_tx_attrs'))"
         " and n_calls('selector') == 1 and after(evn('selector', 0), truthy(evn('selector', 0).result)), "
         + IN_COLLECTED.format(x="elem") + ")"),
        ("F3-selector-asked-once-about-this-object",
         "implies(not old(id(elem) in collected_ids) and old(hasattr(cls(elem), '_tx_attrs')),"
         " n_calls('selector') == 1 and evn('selector', 0).args[0] == elem)"),
    ],
    canary="len(collected) == old(len(collected))",
)

FOLLOW = "call:model.get_children.follow"
ONE = "old(attr.mult == '1' or attr.mult == '0..1')"
VALUE = "old(getattr(elem, attr_name))"

# one attribute of the visited object
Unit(
    "model.get_children.follow.per-attribute",
    target=TGT,
    region="body:for:cls._tx_attrs.items()",
    props=["C05"],
    params={"elem": "obj", "attr_name": "str", "attr": "obj:MetaAttr"},
    captured=CAPT,
    requires=["collected != collected_ids", "distinct(elem, attr, collected, collected_ids)",
              ("I1-no-object-twice", NODUP), ("I2-every-collected-id-recorded", IDS_A)],
    calls={"should_follow": SHOULD_FOLLOW},
    ext_protect=PROT[2:] + ["attr.*"],
    loops={"for:new_elem_list": Loop(modifies=["*"], inv=[], step=False, protect=PROT[2:],
                                     body_unit="model.get_children.follow.per-list-element")},
    ensures=[
        ("C05-references-never-introduce-children",
         f"implies(not old(attr.cont), n_calls('should_follow') == 0 and n_calls('{FOLLOW}') == 0"
         " and len(collected) == old(len(collected)))"),
        ("C05-single-valued-containment-child-visited-iff-should-follow-accepts-it",
         f"implies(old(attr.cont) and {ONE}, (n_calls('should_follow') == 0 and n_calls('{FOLLOW}') == 0)"
         f" if {VALUE} is None else (n_calls('should_follow') == 1 and evn('should_follow', 0).args[0] == {VALUE}"
         f" and (n_calls('{FOLLOW}') == (1 if after(evn('should_follow', 0), truthy(evn('should_follow', 0).result)) else 0))"
         f" and implies(n_calls('{FOLLOW}') == 1, evn('{FOLLOW}', 0).args['elem'] == {VALUE})))"),
    ],
    canary="attr.cont",
)

# one element of a many-valued containment attribute
Unit(
    "model.get_children.follow.per-list-element",
    target=TGT,
    region="body:for:new_elem_list",
    props=["C05"],
    params={"new_elem": "any"},
    captured=CAPT,
    requires=["collected != collected_ids", ("I1-no-object-twice", NODUP), ("I2-every-collected-id-recorded", IDS_A)],
    calls={"should_follow": Ext("should_follow", note="user predicate: which objects are traversed", protect=PROT[:2])},
    ensures=[
        ("C05-list-child-visited-iff-should-follow-accepts-it",
         "n_calls('should_follow') == 1 and evn('should_follow', 0).args[0] == new_elem"
         f" and (n_calls('{FOLLOW}') == (1 if after(evn('should_follow', 0), truthy(evn('should_follow', 0).result)) else 0))"
         f" and implies(n_calls('{FOLLOW}') == 1, evn('{FOLLOW}', 0).args['elem'] == new_elem)"),
    ],
    canary="n_calls('should_follow') == 0",
)


Unit(
    "model.get_children",
    target="textx/model.py::get_children",
    props=["C05"],
    params={"selector": "any", "root": "obj", "children_first": "bool", "should_follow": "any"},
    modifies=["*"],
    ensures=[
        ("C05-result-is-a-fresh-list-filled-by-one-traversal-from-the-root",
         "created_here(result) and is_list(result) and n_calls('call:model.get_children.follow') == 1"
         " and evn('call:model.get_children.follow', 0).args['elem'] == root"),
        ("C05-no-object-twice",
         "implies(not children_first, forall(lambda i, j: implies(0 <= i and i < j and j < len(as_list(result)),"
         " as_list(result)[i] != as_list(result)[j])))"),
    ],
    canary="len(as_list(result)) == 0",
)

Unit(
    "model.get_children_of_type",
    target="textx/model.py::get_children_of_type",
    props=["C05"],
    params={"typ": "any", "root": "obj", "children_first": "bool", "should_follow": "any"},
    requires=["implies(not is_str(typ), is_str(typ.__name__))"],
    modifies=["*"],
    ensures=[
        ("C05-same-traversal-with-the-callers-options",
         "n_calls('call:model.get_children') == 1 and result == evn('call:model.get_children', 0).result"
         " and evn('call:model.get_children', 0).args['root'] == root"
         " and evn('call:model.get_children', 0).args['children_first'] == children_first"
         " and evn('call:model.get_children', 0).args['should_follow'] == should_follow"),
    ],
    canary="result is None",
)


# --------------------------------------------------------------------------
# bounded battery (never counted as proved): the navigation API on real models - recursive and
# abstract containment, references pointing back up the tree, user classes (also one reused by a
# second metamodel), both orders, should_follow pruning
# --------------------------------------------------------------------------
def _c05_battery():
    from textx import (get_children, get_children_of_type, get_model, get_parent_of_type,
                       metamodel_from_str)

    bad = []
    grammar = r"""
    Model: 'model' name=ID packages+=Package refs*=Ref;
    Package: 'package' name=ID '{' (elements+=Element)* main=Main? '}';
    Element: Package | Leaf | Link;
    Leaf: 'leaf' name=ID ('=' value=INT)?;
    Link: 'link' name=ID '->' target=[Package];
    Main: 'main' leaf=Leaf;
    Ref: 'ref' to=[Leaf] 'up' up=[Model]?;
    """
    text = """model M
      package p1 { leaf a = 1 package p2 { leaf b link l1 -> p1 main leaf c } link l2 -> p2 }
      package p3 { main leaf d }
      ref a up M ref c up
    """

    class Leaf:
        def __init__(self, parent=None, name=None, value=None):
            self.parent, self.name, self.value = parent, name, value

        def __eq__(self, other):  # value equality: distinct leaves may compare equal
            return isinstance(other, Leaf)

        def __hash__(self):
            return 1

    def expected(obj, children_first, follow_ok):
        """reference traversal written from the statement: containment attributes only"""
        out = []
        cls = type(obj)
        if not hasattr(cls, "_tx_attrs"):
            return out
        if not children_first:
            out.append(obj)
        for name, attr in cls._tx_attrs.items():
            if not attr.cont:
                continue
            v = getattr(obj, name)
            for c in (v if isinstance(v, list) else [v]):
                if c is not None and follow_ok(c):
                    out.extend(expected(c, children_first, follow_ok))
        if children_first:
            out.append(obj)
        return out

    for classes in ([], [Leaf]):
        mm = metamodel_from_str(grammar, classes=classes)
        m = mm.model_from_str(text)
        tag = "user class Leaf" if classes else "generated classes"
        allobj = expected(m, False, lambda o: True)
        if len({id(o) for o in allobj}) != 14:
            bad.append(f"{tag}: reference traversal found {len(allobj)} objects")
        for o in allobj:
            if o is m:
                if hasattr(o, "parent"):
                    bad.append(f"{tag}: the root has a parent")
            elif get_model(o) is not m:
                bad.append(f"{tag}: get_model({type(o).__name__}) is not the root")
        for name, attr in [(n, a) for o in allobj for n, a in type(o)._tx_attrs.items() if a.cont]:
            pass
        for o in allobj:
            for n, a in type(o)._tx_attrs.items():
                if a.cont:
                    v = getattr(o, n)
                    for c in (v if isinstance(v, list) else [v]):
                        if c is not None and hasattr(type(c), "_tx_attrs") and c.parent is not o:
                            bad.append(f"{tag}: {type(c).__name__}.parent is not its container")
        for cf in (False, True):
            for label, sel, fol in (
                    ("all", lambda o: True, lambda o: True),
                    ("leaves", lambda o: type(o).__name__ == "Leaf", lambda o: True),
                    ("no-p2", lambda o: True, lambda o: getattr(o, "name", None) != "p2"),
                    ("no-mains", lambda o: True, lambda o: type(o).__name__ != "Main")):
                got = get_children(sel, m, children_first=cf, should_follow=fol)
                want = [o for o in expected(m, cf, fol) if sel(o)]
                if [id(o) for o in got] != [id(o) for o in want]:
                    bad.append(f"{tag}: get_children({label}, children_first={cf}) returned "
                               f"{[getattr(o, 'name', type(o).__name__) for o in got]}, expected "
                               f"{[getattr(o, 'name', type(o).__name__) for o in want]}")
            got = get_children_of_type("Leaf", m, children_first=cf)
            want = [o for o in expected(m, cf, lambda o: True) if type(o).__name__ == "Leaf"]
            if [id(o) for o in got] != [id(o) for o in want]:
                bad.append(f"{tag}: get_children_of_type('Leaf', children_first={cf}) returned {len(got)} of {len(want)}")
        c = m.packages[0].elements[1].main.leaf
        if get_parent_of_type("Package", c) is not m.packages[0].elements[1]:
            bad.append(f"{tag}: get_parent_of_type('Package') is not the nearest package")
        if get_parent_of_type("Model", c) is not m or get_parent_of_type("Leaf", c) is not None:
            bad.append(f"{tag}: get_parent_of_type wrong for Model / Leaf")
    # a user class registered with a second metamodel whose rule has another containment attribute
    class Box:
        def __init__(self, parent=None, **kw):
            self.parent = parent
            for k, v in kw.items():
                setattr(self, k, v)

    mm1 = metamodel_from_str("Model: boxes+=Box; Box: 'box' name=ID ('{' inner+=Item '}')?; Item: 'item' name=ID;",
                             classes=[Box])
    mm1.model_from_str("box a { item x }")
    mm2 = metamodel_from_str("Model: boxes+=Box; Box: 'box' name=ID ('{' inner+=Item '}')? ('[' more+=Item ']')?;"
                             " Item: 'item' name=ID;", classes=[Box])
    m2 = mm2.model_from_str("box a { item x } [ item y ]")
    names = sorted(o.name for o in get_children_of_type("Item", m2))
    if names != ["x", "y"]:
        bad.append(f"user class reused by a second metamodel: get_children_of_type('Item') found {names}")
    return bad


@extra("C05")
def navigation_battery(tier, seed):
    bad = _c05_battery()
    res = {"name": "model.navigation.battery", "backend": "native run of the real API (bounded stand-in)",
           "obligations": 0, "discharged": 0, "bounded": True,
           "bound": "2 models x 2 orders x 4 (selector, should_follow) pairs + get_children_of_type / get_parent_of_type",
           "cases": 2 * 2 * 5 + 3, "violations": [],
           "detail": "get_children equals a reference traversal over containment attributes; parent / get_model / "
                     "get_parent_of_type agree with containment"}
    if bad:
        res["violations"].append({"unit": "model.navigation.battery", "kind": "BOUNDED",
                                  "label": "navigation-api-agrees-with-containment", "prop": "C05", "result": "refuted",
                                  "text": "; ".join(bad[:3]), "where": "battery", "path": [],
                                  "model": {"failures": bad[:6]}, "native": True, "time": 0, "reason": ""})
    return res


def _replay_c05(model, rec):
    bad = _c05_battery()
    return bool(bad), "; ".join(bad[:4]) or "navigation battery passes"


for _u in ("model.navigation.battery", "model.get_children.follow", "model.get_children.follow.per-attribute",
           "model.get_children.follow.per-list-element", "model.get_children", "model.get_children_of_type"):
    replay_for(_u)(_replay_c05)
