"""Schemas (data-structure invariants used as is_valid() preconditions) shared
by the contract files.  Field types: int str bool none any list dict set tuple
obj obj:Class, unions with '|'.  A trailing '?' marks an attribute that may be
absent."""

from txvc.contracts import Schema

Schema(
    "TextXError",
    bases=("Exception",),
    fields={
        "line": "int|none",
        "col": "int|none",
        "nchar": "int|none",
        "err_type": "str|none",
        "filename": "str|none",
        "message": "any",
        "context": "any",
    },
)
Schema("TextXSemanticError", bases=("TextXError",), fields={"expected_obj_cls": "any"})
Schema("TextXSyntaxError", bases=("TextXError",), fields={"expected_rules": "any"})
Schema("TextXRegistrationError", bases=("TextXError",))

Schema(
    "TextXMetaModel",
    fields={
        "_obj_processors": "dict",
        "scope_providers": "dict",
        "builtins": "dict|none",
        "textx_tools_support": "bool",
        "user_classes": "dict",
        "auto_init_attributes": "bool",
        "namespaces": "dict[dict]",
        "_namespace_stack": "list[str|none]",
        "_imported_namespaces": "dict[list[dict]]",
        "root_path": "str|none",
        "referenced_languages": "dict",
        "_model_processors": "list",
        "debug": "bool",
        "_parser_blueprint": "obj:TextXModelParser",
        "builtin_models": "obj:ModelRepository|none",
    },
)

Schema(
    "ObjCrossRef",
    fields={"obj_name": "any", "cls": "any", "position": "int", "scope_provider": "any",
            "match_rule_name": "any", "position_end": "int|none"},
)
Schema(
    "MetaAttr",
    fields={"name": "str", "cls": "any", "mult": "str", "cont": "bool", "ref": "bool",
            "bool_assignment": "bool", "position": "int"},
)
Schema(
    "TextXModelParser",
    fields={"metamodel": "obj:TextXMetaModel", "_crossrefs": "list", "debug": "bool",
            "_inst_stack": "list", "_instances": "dict"},
)
Schema(
    "ReferenceResolver",
    fields={"parser": "obj:TextXModelParser", "model": "any", "pos_crossref_list": "list",
            "delayed_crossrefs": "list", "_resolved_list_positions": "dict[list]"},
)
Schema(
    "RefRulePosition",
    fields={"name": "any", "ref_pos_start": "any", "ref_pos_end": "any", "def_file_name": "any",
            "def_pos_start": "any", "def_pos_end": "any"},
)
Schema("PlainName", fields={"multi_metamodel_support": "bool"})
Schema(
    "GeneratorDesc",
    fields={"language": "str", "target": "str", "description": "any", "generator": "any",
            "custom_args": "list[obj:GeneratorParam]|none", "project_name": "any", "project_version": "any"},
)
Schema("GeneratorParam", fields={"name": "str", "mandatory": "bool"})
Schema("ModelParamDefinitions", fields={"store": "dict"})
Schema("ModelParams", fields={"store": "dict", "used_keys": "set"})
Schema("ModelRepository", fields={"name_idx": "int", "filename_to_model": "dict"})
Schema("GlobalModelRepository", fields={"local_models": "obj:ModelRepository", "all_models": "obj:ModelRepository"})

# Arpeggio parse tree (T-ARP): a NonTerminal is a list of child nodes; position_end is a
# read-only property (modelled as a field); rule is the ParsingExpression that matched
Schema("ParsingExpression", fields={"rule_name": "str", "root": "bool", "nodes": "list"})
Schema("ParseTreeNode", fields={"rule": "obj:ParsingExpression", "rule_name": "str", "position": "int",
                                "position_end": "int"})
Schema("NonTerminal", bases=("ParseTreeNode", "list"), fields={})
Schema("Terminal", bases=("ParseTreeNode",), fields={"value": "str", "extra_info": "any"})

# attribute names that have one type wherever textX uses them (naming invariants
# of the code base; assumed when an object's class has no schema of its own)
Schema(
    "*",
    fields={
        "_tx_inh_by": "list",
        "_tx_attrs": "dict",
        "_tx_obj_attrs": "dict",
        "_tx_fqn": "str",
        "_tx_type": "str",
        "_tx_position": "int",
        "_tx_position_end": "int",
        "_crossrefs": "list",
        "_inst_stack": "list",
        "_user_class_inst": "list",
        "user_classes": "dict",
        "filename_to_model": "dict",
        "delayed_crossrefs": "list",
        "_tx_model_params": "obj:ModelParams",
        "_tx_metamodel": "obj:TextXMetaModel",
        "_tx_parser": "obj:TextXModelParser",
        "_tx_model_repository": "obj:GlobalModelRepository",
    },
)
