"""Schemas (data-structure invariants used as is_valid() preconditions) shared
by the contract files.  Field types: int str bool none any list dict set tuple
obj obj:Class, unions with '|'.  A trailing '?' marks an attribute that may be
absent."""

from txvc.contracts import Schema

Schema(
    "TextXError",
    bases=("Exception",),
    fields={
        "line": "int|none",
        "col": "int|none",
        "nchar": "int|none",
        "err_type": "str|none",
        "filename": "str|none",
        "message": "any",
        "context": "any",
    },
)
Schema("TextXSemanticError", bases=("TextXError",), fields={"expected_obj_cls": "any"})
Schema("TextXSyntaxError", bases=("TextXError",), fields={"expected_rules": "any"})
Schema("TextXRegistrationError", bases=("TextXError",))

Schema(
    "TextXMetaModel",
    fields={
        "_obj_processors": "dict",
        "scope_providers": "dict",
        "builtins": "dict|none",
        "textx_tools_support": "bool",
        "user_classes": "dict",
        "auto_init_attributes": "bool",
        "namespaces": "dict",
        "_namespace_stack": "list",
        "_imported_namespaces": "dict",
        "referenced_languages": "dict",
        "_model_processors": "list",
        "debug": "bool",
    },
)
