"""C34 - editor-support positions (the reference list is in resolve.py)."""

from txvc.contracts import Ext, Loop, Unit

from . import common, resolve  # noqa: F401

INT_PAIR = ("is_int(key_at({d}, {i}, 'tuple')[0]) and is_int(key_at({d}, {i}, 'tuple')[1])"
            " and key_at({d}, {i}) == (key_at({d}, {i}, 'tuple')[0], key_at({d}, {i}, 'tuple')[1])")
KI = "key_at(model._pos_rule_dict, i, 'tuple')"
KJ = "key_at(model._pos_rule_dict, j, 'tuple')"

Unit(
    "model.pos_rule_dict.order",
    target="textx/model.py::parse_tree_to_objgraph",
    region="assign:model._pos_rule_dict",
    props=["C34"],
    params={"model": "obj", "pos_rule_dict": "dict"},
    requires=[
        # keys of the position map are (start, end) spans, pairwise different (it is a dict)
        "forall(lambda i: implies(0 <= i and i < nkeys(pos_rule_dict), "
        + INT_PAIR.format(d="pos_rule_dict", i="i") + "))",
        "forall(lambda i, j: implies(0 <= i and i < j and j < nkeys(pos_rule_dict),"
        " key_at(pos_rule_dict, i) != key_at(pos_rule_dict, j)))",
    ],
    ensures=[
        ("C34-every-span-listed-once",
         "nkeys(model._pos_rule_dict) == nkeys(pos_rule_dict)"),
        ("C34-span-before-every-different-span-containing-it",
         "forall(lambda i, j: implies(0 <= i and i < j and j < nkeys(model._pos_rule_dict),"
         f" not ({KI}[0] <= {KJ}[0] and {KJ}[1] <= {KI}[1] and {KI} != {KJ})))"),
    ],
    canary="nkeys(model._pos_rule_dict) == 0",
)


from txvc.props import exec_region_natively, replay_for  # noqa: E402


@replay_for("model.pos_rule_dict.order")
def _replay_order(model, rec):
    import types

    items = (model.get("pos_rule_dict") or {}).get("dict") if isinstance(model.get("pos_rule_dict"), dict) else None
    spans = []
    for it in items or []:
        k = it[0]
        if isinstance(k, list) and len(k) == 2 and all(isinstance(x, int) for x in k):
            spans.append((k[0], k[1]))
    spans = list(dict.fromkeys(spans))
    if len(spans) < 2:
        return False, f"counter-model has no two usable spans ({items!r})"
    m = types.SimpleNamespace()
    exec_region_natively("textx/model.py::parse_tree_to_objgraph", "assign:model._pos_rule_dict",
                         {"model": m, "pos_rule_dict": {s: f"obj{n}" for n, s in enumerate(spans)}})
    order = list(m._pos_rule_dict)
    bad = [(a, b) for i, a in enumerate(order) for b in order[i + 1:]
           if a != b and a[0] <= b[0] and b[1] <= a[1]]
    return bool(bad), (f"spans {spans} are listed as {order}; " +
                       (f"{bad[0][1]} lies inside {bad[0][0]} but is listed after it" if bad else "order is fine"))


# process_node: the position map gets one entry per object span, the innermost
# object when nested objects share a span (children are processed first)
Unit(
    "model.process_node.pos_rule_dict-insert",
    target="textx/model.py::parse_tree_to_objgraph.process_node",
    region="if:inst is not None and metamodel.textx_tools_support",
    props=["C34"],
    params={"inst": "any", "metamodel": "obj:TextXMetaModel", "pos_rule_dict": "dict"},
    ensures=[
        ("C34-span-maps-to-object-with-that-span",
         "implies(inst is not None and metamodel.textx_tools_support,"
         " (inst._tx_position, inst._tx_position_end) in pos_rule_dict"
         " and (pos_rule_dict[(inst._tx_position, inst._tx_position_end)] == inst"
         "      or old((inst._tx_position, inst._tx_position_end) in pos_rule_dict)))"),
        ("C34-innermost-kept",
         "implies(old((inst._tx_position, inst._tx_position_end) in pos_rule_dict),"
         " pos_rule_dict[(inst._tx_position, inst._tx_position_end)]"
         " == old(pos_rule_dict[(inst._tx_position, inst._tx_position_end)]))"),
        ("C34-other-spans-untouched",
         "forall_val(lambda k: implies(k != (inst._tx_position, inst._tx_position_end),"
         " (k in pos_rule_dict) == old(k in pos_rule_dict)"
         " and implies(k in pos_rule_dict, pos_rule_dict[k] == old(pos_rule_dict[k]))))"),
    ],
    canary="inst is None",
)


@replay_for("model.resolve_one_step")
def _replay_crossref_list_order(model, rec):
    """End to end: a main file importing a library file; the library contains a reference whose
    resolution is postponed by one step and that stands before a reference resolved earlier.  The
    go-to-definition list of EVERY loaded model must be ordered by start, list each reference once,
    and delimit exactly the reference text."""
    import os
    import shutil
    import tempfile

    import textx.scoping.providers as sp
    from textx import get_children_of_type, get_model, metamodel_from_str

    grammar = r"""
    Model: imports*=Import structs*=Struct instances*=Instance accesses*=Access;
    Import: 'import' importURI=STRING;
    Struct: 'struct' name=ID '{' vals+=Val '}';
    Val: 'val' name=ID;
    Instance: 'instance' name=ID ':' type=[Struct];
    Access: 'access' val=[Val] 'of' inst=[Instance];
    """
    lib = "\nstruct S { val x val y }\ninstance i : S\naccess y of i\naccess x of i\n"
    main = '\nimport "lib.mdl"\nstruct T { val a }\ninstance j : T\ninstance k : S\naccess a of j\naccess y of k\n'
    mm = metamodel_from_str(grammar, textx_tools_support=True)
    mm.register_scope_providers({"*.*": sp.PlainNameImportURI(), "Access.val": sp.RelativeName("inst.type.vals")})
    d = tempfile.mkdtemp(prefix="txvc-c34-")
    bad = []
    try:
        open(os.path.join(d, "lib.mdl"), "w").write(lib)
        open(os.path.join(d, "main.mdl"), "w").write(main)
        mmodel = mm.model_from_file(os.path.join(d, "main.mdl"))
        lmodel = get_model(mmodel.instances[1].type)
        for label, mdl, text in (("main.mdl", mmodel, main), ("lib.mdl (imported)", lmodel, lib)):
            lst = mdl._pos_crossref_list
            starts = [r.ref_pos_start for r in lst]
            nrefs = len(get_children_of_type("Instance", mdl)) + 2 * len(get_children_of_type("Access", mdl))
            if starts != sorted(starts):
                bad.append(f"{label}: _pos_crossref_list starts {starts} are not in ascending order")
            if len(set(starts)) != len(starts) or len(lst) != nrefs:
                bad.append(f"{label}: {len(lst)} entries ({len(set(starts))} distinct) for {nrefs} references")
            for r in lst:
                if text[r.ref_pos_start:r.ref_pos_end] != r.name:
                    bad.append(f"{label}: entry for {r.name!r} delimits {text[r.ref_pos_start:r.ref_pos_end]!r}")
    finally:
        shutil.rmtree(d, ignore_errors=True)
    return bool(bad), ("go-to-definition list on the real code:\n  " + "\n  ".join(bad)) if bad else \
        "go-to-definition lists of the main and the imported model are ordered, complete and exact"
