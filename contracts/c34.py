"""C34 - editor-support positions (the reference list is in resolve.py)."""

from txvc.contracts import Ext, Loop, Unit

from . import common, resolve  # noqa: F401

INT_PAIR = ("is_int(key_at({d}, {i}, 'tuple')[0]) and is_int(key_at({d}, {i}, 'tuple')[1])"
            " and key_at({d}, {i}) == (key_at({d}, {i}, 'tuple')[0], key_at({d}, {i}, 'tuple')[1])")
KI = "key_at(model._pos_rule_dict, i, 'tuple')"
KJ = "key_at(model._pos_rule_dict, j, 'tuple')"

Unit(
    "model.pos_rule_dict.order",
    target="textx/model.py::parse_tree_to_objgraph",
    region="assign:model._pos_rule_dict",
    props=["C34"],
    params={"model": "obj", "pos_rule_dict": "dict"},
    requires=[
        # keys of the position map are (start, end) spans, pairwise different (it is a dict)
        "forall(lambda i: implies(0 <= i and i < nkeys(pos_rule_dict), "
        + INT_PAIR.format(d="pos_rule_dict", i="i") + "))",
        "forall(lambda i, j: implies(0 <= i and i < j and j < nkeys(pos_rule_dict),"
        " key_at(pos_rule_dict, i) != key_at(pos_rule_dict, j)))",
    ],
    ensures=[
        ("C34-every-span-listed-once",
         "nkeys(model._pos_rule_dict) == nkeys(pos_rule_dict)"),
        ("C34-span-before-every-different-span-containing-it",
         "forall(lambda i, j: implies(0 <= i and i < j and j < nkeys(model._pos_rule_dict),"
         f" not ({KI}[0] <= {KJ}[0] and {KJ}[1] <= {KI}[1] and {KI} != {KJ})))"),
    ],
    canary="nkeys(model._pos_rule_dict) == 0",
)


from txvc.props import exec_region_natively, replay_for  # noqa: E402


@replay_for("model.pos_rule_dict.order")
def _replay_order(model, rec):
    import types

    items = (model.get("pos_rule_dict") or {}).get("dict") if isinstance(model.get("pos_rule_dict"), dict) else None
    spans = []
    for it in items or []:
        k = it[0]
        if isinstance(k, list) and len(k) == 2 and all(isinstance(x, int) for x in k):
            spans.append((k[0], k[1]))
    spans = list(dict.fromkeys(spans))
    if len(spans) < 2:
        return False, f"counter-model has no two usable spans ({items!r})"
    m = types.SimpleNamespace()
    exec_region_natively("textx/model.py::parse_tree_to_objgraph", "assign:model._pos_rule_dict",
                         {"model": m, "pos_rule_dict": {s: f"obj{n}" for n, s in enumerate(spans)}})
    order = list(m._pos_rule_dict)
    bad = [(a, b) for i, a in enumerate(order) for b in order[i + 1:]
           if a != b and a[0] <= b[0] and b[1] <= a[1]]
    return bool(bad), (f"spans {spans} are listed as {order}; " +
                       (f"{bad[0][1]} lies inside {bad[0][0]} but is listed after it" if bad else "order is fine"))


# process_node: the position map gets one entry per object span, the innermost
# object when nested objects share a span (children are processed first)
Unit(
    "model.process_node.pos_rule_dict-insert",
    target="textx/model.py::parse_tree_to_objgraph.process_node",
    region="if:inst is not None and metamodel.textx_tools_support",
    props=["C34"],
    params={"inst": "any", "metamodel": "obj:TextXMetaModel", "pos_rule_dict": "dict"},
    ensures=[
        ("C34-span-maps-to-object-with-that-span",
         "implies(inst is not None and metamodel.textx_tools_support,"
         " (inst._tx_position, inst._tx_position_end) in pos_rule_dict"
         " and (pos_rule_dict[(inst._tx_position, inst._tx_position_end)] == inst"
         "      or old((inst._tx_position, inst._tx_position_end) in pos_rule_dict)))"),
        ("C34-innermost-kept",
         "implies(old((inst._tx_position, inst._tx_position_end) in pos_rule_dict),"
         " pos_rule_dict[(inst._tx_position, inst._tx_position_end)]"
         " == old(pos_rule_dict[(inst._tx_position, inst._tx_position_end)]))"),
        ("C34-other-spans-untouched",
         "forall_val(lambda k: implies(k != (inst._tx_position, inst._tx_position_end),"
         " (k in pos_rule_dict) == old(k in pos_rule_dict)"
         " and implies(k in pos_rule_dict, pos_rule_dict[k] == old(pos_rule_dict[k]))))"),
    ],
    canary="inst is None",
)
