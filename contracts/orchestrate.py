"""The main-model phase of parse_tree_to_objgraph (the statement region
`if is_main_model:`): resolution rounds until no progress, the 'Unresolvable
cross references' report, end of construction of every model, object
processors, and the clean-up handler.  Serves C09 (termination, success
condition of the rounds), C13 (processors only after everything is resolved
and constructed), C18 (a failure in this phase removes every model of this
load from the repositories)."""

from txvc.contracts import Ext, Loop, SpecFn, Unit

from . import c28, common  # noqa: F401

# ghost measure: cross-references of the models of this load that are still to be resolved
# (the sum of len(m._tx_parser._crossrefs) over `models`).  Uninterpreted here; its only facts are
# that it is a natural number and what resolve_one_step does to it (contract below, established
# by the units of contracts/resolve.py).
SpecFn("pending", [], "int", heap=True, reads=["_crossrefs", "[]"], facts=["pending() >= 0"])

RESOLVE_ONE_STEP = Ext(
    "resolve_one_step", returns="tuple",
    ensures=[
        "result == (result[0], result[1])",
        "is_int(result[0]) and result[0] >= 0 and is_list(result[1])",
        # every reference counted as resolved leaves the pending lists, nothing else does
        "pending() == old(pending()) - result[0]",
    ],
    note="ReferenceResolver.resolve_one_step (units model.resolve_one_step / .body): returns (number of "
         "references resolved in this step, the list of postponed ones) and removes exactly the resolved "
         "ones from the pending cross-references",
)

MODELS_PROTECT = ["list(models)"]
ENDED = "not hasattr(models[j], '_tx_reference_resolver')"
ALL_ENDED = f"forall(lambda j: implies(0 <= j and j < len(models), {ENDED}))"

Unit(
    "model.main-model-phase",
    target="textx/model.py::parse_tree_to_objgraph",
    region="if:is_main_model",
    props=["C09", "C13", "C14", "C15", "C18"],
    params={"is_main_model": "any", "model": "any", "parser": "obj:TextXModelParser"},
    calls={
        "get_included_models": Ext("get_included_models", returns="list", raises=None, pure=True,
                                   note="all models of the owning model's repository plus the model itself"),
        "m._tx_reference_resolver.resolve_one_step": RESOLVE_ONE_STEP,
        "m._tx_parser.pos_to_linecol": Ext("pos_to_linecol", returns="tuple", raises=None, pure=True),
        "_end_model_construction": Ext(
            "end_model_construction", returns="none",
            ensures=["not hasattr(a0, '_tx_reference_resolver')"],
            protect=["ATTR:_tx_reference_resolver except a0"],
            note="ends construction of one model: removes its under-construction marker, restores user classes, "
                 "runs user __init__ (assumed: user __init__ does not put the marker on any model)"),
        "get_children_of_type": Ext("get_children_of_type", returns="list", pure=True, raises=None),
        "parser.dprint": Ext("dprint", pure=True, raises=None, returns="none"),
        "call_obj_processors": Ext(
            "call_obj_processors",
            # C13/C14: when object processors start, EVERY model of the load has ended construction
            # (all references resolved, every user __init__ done)
            requires=[("C13-C14-every-model-of-the-load-has-ended-construction", ALL_ENDED, "C13|C14")],
            protect=["ATTR:_tx_reference_resolver"],
            note="depth-first object processors of one model (contracts/c13.py); assumed: processors do not put the "
                 "under-construction marker on a model"),
        "remove_models_from_repositories": Ext(
            "remove_models_from_repositories", raises=None, returns="none",
            note="removes the given models from every repository that may hold them (scoping/__init__.py)"),
        "_abandon_model_construction": Ext(
            "abandon_model_construction", raises=None, returns="none", protect=MODELS_PROTECT,
            note="failure path: drops the per-object storage of one model's user-class instances and restores the "
                 "user classes for a model still in construction (unit model._abandon_model_construction in "
                 "contracts/c14.py; that it raises nothing is assumed: dict.pop with a default, a restore that "
                 "only deletes what it finds)"),
    },
    ext_protect=MODELS_PROTECT,
    locals={"resolved_count": "int", "unresolved_count": "int"},
    modifies=["*"],
    loops={
        "while:unresolved_count > 0 and resolved_count > 0": Loop(
            modifies=["*"], protect=MODELS_PROTECT, variant="pending()",
            inv=["is_int(resolved_count) and is_int(unresolved_count)"]),
        "for:models#1": Loop(
            modifies=["*"], protect=MODELS_PROTECT,
            inv=["is_int(resolved_count) and resolved_count >= 0 and is_int(unresolved_count) and unresolved_count >= 0",
                 "pending() == at('loop_entry', pending()) - resolved_count"]),
        "for:models#2": Loop(modifies=["*"], inv=[], body_unit="model.unresolvable-error.per-model", step=False),
        "for:models#3": Loop(pure=True, inv=[]),
        "for:models#4": Loop(modifies=["*"], protect=MODELS_PROTECT,
                             inv=[f"forall(lambda j: implies(0 <= j and j < _i, {ENDED}))"]),
        "for:models#5": Loop(modifies=["*"], protect=MODELS_PROTECT + ["ATTR:_tx_reference_resolver"],
                             inv=[ALL_ENDED]),
        # the failure handler: every model of the load is abandoned (user classes given back) before the removal
        "for:models#6": Loop(modifies=["*"], protect=MODELS_PROTECT, inv=[]),
    },
    ensures=[
        ("C09-C13-success-only-when-nothing-is-left-postponed",
         "implies(old(truthy(is_main_model)), is_int(final_unresolved_count) and final_unresolved_count <= 0)", "C09"),
        ("imported-model-phase-is-empty", "implies(not old(truthy(is_main_model)), n_calls() == 0)", "C09"),
        ("C18-nothing-removed-on-success", "n_calls('remove_models_from_repositories') == 0", "C18"),
    ],
    raises={"*": [
        ("C18-every-model-of-this-load-is-removed-on-failure",
         "n_calls('remove_models_from_repositories') == 1"
         " and evn('remove_models_from_repositories', 0).args[0] == final_models"
         " and evn('remove_models_from_repositories', 0).args[1] == final_models", "C15|C18"),
        ("C18-removal-is-the-last-thing-done",
         "evpos('remove_models_from_repositories', 0) == n_calls() - 1", "C15|C18"),
    ]},
    canary="n_calls('remove_models_from_repositories') == 1",
)
