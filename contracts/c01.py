"""C01 - compiled parser and model follow the grammar's PEG semantics (partial: the translation).

Acceptance and tree shape are Arpeggio's (T-ARP).  What /repo contributes is a TRANSLATION of grammar
constructs into Arpeggio expressions and a tree-to-object step.  Units here (plus the ones tagged C01
elsewhere: terminal branch of process_node in c20.py, rule parameters in c22.py):
  * visit_assignment, operator statement: `+=` -> OneOrMore([rhs], '__asgn_oneormore', root), multiplicity 1..*;
    `*=` -> ZeroOrMore(..., '__asgn_zeroormore'), 0..* unless already 1..*; `?=` -> Optional(..., '__asgn_optional'),
    0..1 and a boolean attribute; `=` -> Sequence(..., '__asgn_plain');
  * visit_assignment and visit_repeatable_expr, modifier statements: modifiers are rejected for `=`, `?=`, `?`;
    otherwise sep is the written separator (None if none) and eolterm is set EXACTLY when written -
    independently of each other;
  * visit_repeatable_expr, operator statement: `?` `*` `+` `#` -> Optional / ZeroOrMore / OneOrMore over exactly the
    operand, UnorderedGroup over the operand's elements;
  * TextXMetaModel._init_obj_attrs, per attribute: a list exactly for multiplicity 0..* / 1..*; base types get the
    type's default iff auto_init_attributes, False for a `?=` attribute, None otherwise; references None.
NOT covered: sequences / choices / predicates / rule references (visit_sequence, visit_choice, ...), the recursion
of process_node as a whole, and everything Arpeggio does with the expressions.  A bounded battery of small
grammars x inputs compares acceptance and models with hand-written expectations.
"""

from txvc.contracts import Ext, Loop, Schema, Unit
from txvc.props import ASSUME, T_ARP, TRUSTED, extra, replay_for

from . import c20, c22, common  # noqa: F401

TRUSTED["C01"] = [T_ARP]
ASSUME["C01"] = ["den: arpeggio.OneOrMore / ZeroOrMore / Optional / Sequence / UnorderedGroup(nodes, sep=, eolterm=) implement "
                 "the PEG operator of their name (T-ARP); keyword arguments of their constructors become attributes"]

VA = "textx/lang.py::TextXVisitor.visit_assignment"
Schema("ClsAttr", fields={"mult": "str", "bool_assignment": "bool", "cont": "bool", "ref": "bool", "cls": "any"})


def _ctor(name):
    return Ext(name, returns="obj", raises=None, note=f"arpeggio.{name}(nodes=, rule_name=, root=) (T-ARP)")


def _built(name, rule_name):
    return (f"n_calls('{name}') == 1 and final_assignment_rule == evn('{name}', 0).result"
            f" and len(as_list(evn('{name}', 0).kwargs['nodes'])) == 1"
            f" and as_list(evn('{name}', 0).kwargs['nodes'])[0] == rhs_rule"
            f" and evn('{name}', 0).kwargs['rule_name'] == '{rule_name}' and evn('{name}', 0).kwargs['root'] == True")


Unit(
    "lang.visit_assignment.operator",
    target=VA,
    region="if:op == '+='",
    props=["C01", "C02"],
    params={"op": "str", "rhs_rule": "obj", "cls_attr": "obj:ClsAttr", "base_rule_name": "any"},
    requires=["distinct(rhs_rule, cls_attr)"],
    calls={"OneOrMore": _ctor("OneOrMore"), "ZeroOrMore": _ctor("ZeroOrMore"), "Optional": _ctor("Optional"),
           "Sequence": _ctor("Sequence")},
    ext_protect=["cls_attr.*"],
    ensures=[
        ("C01-plus-assign-is-one-or-more", f"implies(op == '+=', {_built('OneOrMore', '__asgn_oneormore')}"
                                           " and cls_attr.mult == '1..*')"),
        ("C01-star-assign-is-zero-or-more", f"implies(op == '*=', {_built('ZeroOrMore', '__asgn_zeroormore')}"
                                            " and cls_attr.mult == ('1..*' if old(cls_attr.mult) == '1..*' else '0..*'))"),
        ("C01-bool-assign-is-optional", f"implies(op == '?=', {_built('Optional', '__asgn_optional')}"
                                        " and cls_attr.mult == '0..1' and cls_attr.bool_assignment == True"
                                        " and final_base_rule_name == 'BOOL')"),
        ("C01-plain-assign-is-a-sequence",
         f"implies(op != '+=' and op != '*=' and op != '?=', {_built('Sequence', '__asgn_plain')}"
         " and cls_attr.mult == old(cls_attr.mult))"),
        ("C01-exactly-one-expression-is-built",
         "n_calls('OneOrMore') + n_calls('ZeroOrMore') + n_calls('Optional') + n_calls('Sequence') == 1"),
    ],
    canary="n_calls('Sequence') == 1",
)

MODS = "as_dict(old(modifiers[0]))"
for _name, _tgt, _var, _bad in (
        ("lang.visit_assignment.modifiers", VA, "assignment_rule", "(op == '?=' or op == '=')"),
        ("lang.visit_repeatable_expr.modifiers", "textx/lang.py::TextXVisitor.visit_repeatable_expr", "rule",
         "(repeat_op == '?')")):
    Unit(
        _name,
        target=_tgt,
        region="if:modifiers",
        props=["C01"],
        params={"self": "obj:TextXVisitor", "modifiers": "any", _var: "obj", "op": "any", "repeat_op": "any"},
        requires=["implies(truthy(modifiers), modifiers == (modifiers[0], modifiers[1]) and is_ref(modifiers[0])"
                  f" and modifiers[0] != {_var})",
                  f"distinct(self, {_var})"],
        calls={"self.grammar_parser.pos_to_linecol": Ext("pos_to_linecol", returns="tuple", raises=None, pure=True,
                                                         ensures=["result == (result[0], result[1])"]),
               "modifiers.get": "dict.get"},
        locals={"modifiers": "dict"},
        ensures=[
            ("C01-no-modifiers-nothing-changes",
             f"implies(not old(truthy(modifiers)), hasattr({_var}, 'sep') == old(hasattr({_var}, 'sep'))"
             f" and hasattr({_var}, 'eolterm') == old(hasattr({_var}, 'eolterm')))"),
            ("C01-separator-is-the-written-one-or-none",
             f"implies(old(truthy(modifiers)), {_var}.sep == ({MODS}['sep'] if 'sep' in {MODS} else None))"),
            ("C01-eolterm-set-exactly-when-written",
             f"implies(old(truthy(modifiers)) and 'eolterm' in {MODS}, {_var}.eolterm == True)"
             f" and implies(old(truthy(modifiers)) and not ('eolterm' in {MODS}),"
             f" hasattr({_var}, 'eolterm') == old(hasattr({_var}, 'eolterm'))"
             f" and implies(hasattr({_var}, 'eolterm'), {_var}.eolterm == old({_var}.eolterm)))"),
            ("C01-modifiers-only-on-repetitions", f"implies(old(truthy(modifiers)), not {_bad})"),
        ],
        raises={"TextXSyntaxError": [("C01-modifiers-on-a-non-repetition-are-rejected",
                                      f"implies(created_here(exc), old(truthy(modifiers)) and {_bad})")]},
        canary="truthy(modifiers)",
    )

Unit(
    "metamodel._init_obj_attrs.per-attribute",
    target="textx/metamodel.py::TextXMetaModel._init_obj_attrs",
    region="body:for:obj.__class__._tx_attrs.values()",
    props=["C01", "C02"],
    params={"self": "obj:TextXMetaModel", "obj": "obj", "attr": "obj:MetaAttr"},
    requires=["distinct(self, obj, attr)", "is_str(attr.cls.__name__)"],
    calls={"python_type": Ext("python_type", pure=True, raises=None, note="lang.python_type: the Python type of a base type name"),
           "python_type(attr.cls.__name__)": Ext("default_ctor", pure=True, raises=None,
                                                 note="calling the Python type gives its default value (0, 0.0, '', False)")},
    ensures=[
        ("C01-C02-list-exactly-for-many-valued-attributes",
         "implies(attr.mult == '0..*' or attr.mult == '1..*', is_list(getattr(obj, attr.name))"
         " and len(as_list(getattr(obj, attr.name))) == 0 and created_here(getattr(obj, attr.name)))"
         " and implies(not (attr.mult == '0..*' or attr.mult == '1..*'), not created_here(getattr(obj, attr.name))"
         " or n_calls('default_ctor') == 1)"),
        ("C01-base-type-defaults",
         "implies(not (attr.mult == '0..*' or attr.mult == '1..*') and n_calls('default_ctor') == 0,"
         " getattr(obj, attr.name) is None or (getattr(obj, attr.name) == False and attr.bool_assignment"
         " and not self.auto_init_attributes))"),
        ("C01-type-default-only-with-auto-init",
         "implies(n_calls('default_ctor') == 1, truthy(self.auto_init_attributes)"
         " and getattr(obj, attr.name) == evn('default_ctor', 0).result)"),
    ],
    canary="n_calls('default_ctor') == 1",
)


# --------------------------------------------------------------------------
# bounded battery (never counted as proved): small grammars x inputs against hand-written expectations
# --------------------------------------------------------------------------
def _dump(o):
    if isinstance(o, list):
        return [_dump(x) for x in o]
    if hasattr(type(o), "_tx_attrs"):
        return (type(o).__name__, {k: _dump(getattr(o, k)) for k in type(o)._tx_attrs})
    return o


C01_CASES = [
    # (grammar, metamodel kwargs, [(input, expected dump or None for rejection)])
    ("Model: 'a' b=INT? c=ID;", {}, [("a 3 x", ("Model", {"b": 3, "c": "x"})), ("a x", ("Model", {"b": 0, "c": "x"})),
                                    ("a 3", None)]),
    ("Model: 'a' b=INT? c=ID;", {"auto_init_attributes": False}, [("a x", ("Model", {"b": None, "c": "x"}))]),
    ("Model: vals+=INT[','] flag?='!' ;", {}, [("1, 2 ,3 !", ("Model", {"vals": [1, 2, 3], "flag": True})),
                                              ("1", ("Model", {"vals": [1], "flag": False})), ("", None), ("1,", None)]),
    ("Model: vals*=INT[','] 'end';", {}, [("end", ("Model", {"vals": []})), ("1,2 end", ("Model", {"vals": [1, 2]})),
                                         ("1 2 end", None)]),
    ("Model: 'vals' a+=INT[',' eolterm] ','? b*=INT[','];", {},
     [("vals 1, 2,\n 3, 4", ("Model", {"a": [1, 2], "b": [3, 4]})), ("vals 1, 2, 3", ("Model", {"a": [1, 2, 3], "b": []}))]),
    ("Model: 'vals' a*=INT[eolterm] 'end';", {}, [("vals 1 2\n end", ("Model", {"a": [1, 2]})), ("vals 1\n 2 end", None)]),
    ("Model: (('a' x=INT) ('b' y=INT) ('c' z=INT))#;", {}, [("b 2 a 1 c 3", ("Model", {"x": 1, "y": 2, "z": 3})), ("a 1 b 2", None)]),
    ("Model: ('a' | 'b')# x=INT;", {}, [("b a 3", ("Model", {"x": 3}))]),
    ("Model: !'no' name=ID &'!' '!' ;", {}, [("yes !", ("Model", {"name": "yes"})), ("no !", None), ("yes ?", None)]),
    ("Model: 'x'- name=ID '.'-;", {}, [("x abc .", ("Model", {"name": "abc"}))]),
    ("Model: a=First | a=Second; First: 'f' v=INT; Second: 's' v=ID;", {},
     [("f 1", ("Model", {"a": ("First", {"v": 1})})), ("s q", ("Model", {"a": ("Second", {"v": "q"})})), ("f q", None)]),
    ("Model: items+=Item; Item: Point | Name; Point: x=INT ',' y=INT; Name: n=ID;", {},
     [("1,2 k 3,4", ("Model", {"items": [("Point", {"x": 1, "y": 2}), ("Name", {"n": "k"}), ("Point", {"x": 3, "y": 4})]}))]),
    ("Model: a=/\\d+/ b=/(x)(y)/;", {"use_regexp_group": True}, [("12 xy", ("Model", {"a": "12", "b": "xy"}))]),
    ("Model: a=/'(\\w+)'/;", {"use_regexp_group": True}, [("'q'", ("Model", {"a": "q"}))]),
    ("Model: a=/'(\\w+)'/;", {}, [("'q'", ("Model", {"a": "'q'"}))]),
]


def _c01_battery():
    from textx import metamodel_from_str
    from textx.exceptions import TextXSyntaxError

    bad = []
    n = 0
    for grammar, kw, cases in C01_CASES:
        mm = metamodel_from_str(grammar, **kw)
        for text, want in cases:
            n += 1
            try:
                got = _dump(mm.model_from_str(text))
            except TextXSyntaxError:
                got = None
            if got != want:
                bad.append(f"{grammar!r} {kw or ''} on {text!r}: {got!r}, expected {want!r}")
    return n, bad


@extra("C01")
def peg_battery(tier, seed):
    n, bad = _c01_battery()
    res = {"name": "lang.peg-semantics.battery", "backend": "native run of the real parser (bounded stand-in)",
           "obligations": 0, "discharged": 0, "bounded": True, "bound": f"{len(C01_CASES)} grammars, {n} inputs",
           "cases": n, "violations": [], "detail": "acceptance and model of small grammars against hand-written expectations"}
    if bad:
        res["violations"].append({"unit": "lang.peg-semantics.battery", "kind": "BOUNDED",
                                  "label": "acceptance-and-model-as-documented", "prop": "C01", "result": "refuted",
                                  "text": "; ".join(bad[:3]), "where": "battery", "path": [],
                                  "model": {"failures": bad[:8]}, "native": True, "time": 0, "reason": ""})
    return res


def _replay_c01(model, rec):
    n, bad = _c01_battery()
    return bool(bad), "; ".join(bad[:3]) or f"all {n} battery cases as documented"


for _u in ("lang.peg-semantics.battery", "lang.visit_assignment.operator", "lang.visit_assignment.modifiers",
           "lang.visit_repeatable_expr.modifiers", "metamodel._init_obj_attrs.per-attribute"):
    replay_for(_u)(_replay_c01)
