"""C26 - the language and generator registries behave as case-insensitive maps.

Abstract view: the module globals `languages` (None = not loaded yet, else a
dict lower-case name -> LanguageDesc), `generators` (None or dict lower-case
language -> dict lower-case target -> GeneratorDesc) and `metamodels`
(dict lower-case name -> metamodel instance).  Every public function gets a
whole-view postcondition (what is added / looked up, and that nothing else
changes), so an arbitrary history is covered by induction over operations."""

from txvc.contracts import Ext, Loop, Schema, SpecFn, Unit

from . import common  # noqa: F401

Schema("LanguageDesc", fields={"name": "str", "pattern": "str|none", "description": "any", "metamodel": "any",
                               "project_name": "any", "project_version": "any"})

G = {"global:languages": "dict[obj:LanguageDesc]|none", "global:generators": "dict|none", "global:metamodels": "dict"}
LOAD = "call:registration.language_descriptions"


def base(expr):
    """`expr` in the registry state the operation starts from: after the lazy
    load of the entry points if that happened, else the entry state"""
    return f"(after(evn('{LOAD}', 0), {expr}) if n_calls('{LOAD}') == 1 else old({expr}))"


L = "languages"
SAME_LANGS = (f"forall_val(lambda k: (k in {L}) == old(k in {L}) and "
              f"implies(k in {L}, {L}[k] == old({L}[k])))")

# the lazy loader: first use (or first use after clearing) re-reads the entry points
EP = Ext("entry_points", pure=True, raises=None, returns="list",
         note="importlib.metadata.entry_points(group=...): the installed registrations, a fixed list")
Unit(
    "registration.language_descriptions",
    target="textx/registration.py::language_descriptions",
    props=["C26"],
    locals=G,
    modifies=["*"],
    protects=["dict(metamodels)", "MODULE:textx.registration.metamodels"],
    calls={
        "entry_points": EP,
        "language.load": Ext("entry_point.load", raises="any",
                             protect=["MODULE:textx.registration.languages", "MODULE:textx.registration.metamodels",
                                      "dict(metamodels)"],
                             note="loading a registered LanguageDesc does not rebind the registry globals"),
        "register_language_with_project": "registration.register_language_with_project",
    },
    loops={
        "for:entry_points(group='textx_languages')": Loop(
            modifies=["*"], protect=["MODULE:textx.registration.metamodels", "dict(metamodels)"],
            inv=["languages is not None"],
        )
    },
    returns="dict[obj:LanguageDesc]",
    ensures=["languages is not None", "result == languages",
             "implies(old(languages) is not None, languages == old(languages) and " + SAME_LANGS + ")",
             ("loaded-once-and-kept", "implies(old(languages) is not None, n_calls('entry_points') == 0)"),
             ("entry-points-re-read-after-clearing", "implies(old(languages) is None, n_calls('entry_points') == 1)")],
    canary="n_calls('entry_points') == 1",
)

Unit(
    "registration.register_language_with_project",
    target="textx/registration.py::register_language_with_project",
    props=["C26"],
    trusted=True,
    locals=G,
    params={"language_desc": "any", "project_name": "any", "project_version": "any"},
    modifies=["*"],
    protects=["dict(metamodels)", "MODULE:textx.registration.metamodels"],
    requires=[],
    ensures=["languages is not None"],
    raises={"TextXRegistrationError": []},
    notes="sets the project fields and delegates to register_language (verified above)",
)

NAME = ("as_str(language_desc_or_name.name if is_instance(language_desc_or_name, 'LanguageDesc')"
        " else language_desc_or_name)")
KEY = f"{NAME}.lower()"

Unit(
    "registration.register_language",
    target="textx/registration.py::register_language",
    props=["C26"],
    params={"language_desc_or_name": "any", "pattern": "any", "description": "any", "metamodel": "any"},
    locals=G,
    requires=["implies(is_instance(language_desc_or_name, 'LanguageDesc'), is_str(language_desc_or_name.name))",
              "implies(not is_instance(language_desc_or_name, 'LanguageDesc'), is_str(language_desc_or_name))"],
    modifies=["*"],
    ensures=[
        ("adds-exactly-one-binding-under-the-lower-case-name",
         f"languages is not None and forall_val(lambda k: (k in {L}) == ({base('k in ' + L)} or k == {KEY})"
         f" and implies(k in {L} and k != {KEY}, {L}[k] == {base(L + '[k]')}))"),
        ("new-binding-is-the-description",
         f"as_str({L}[{KEY}].name) == {NAME} and implies(is_instance(language_desc_or_name, 'LanguageDesc'),"
         f" {L}[{KEY}] == language_desc_or_name)"),
        ("refused-if-already-registered", f"not {base(KEY + ' in ' + L)}"),
    ],
    raises={
        "TextXRegistrationError": [
            ("refuses-duplicates-only", f"implies(created_here(exc), {base(KEY + ' in ' + L)})"),
            ("registry-unchanged-on-refusal",
             f"implies(created_here(exc), forall_val(lambda k: (k in {L}) == {base('k in ' + L)}"
             f" and implies(k in {L}, {L}[k] == {base(L + '[k]')})))"),
        ],
    },
    canary=f"len({L}) == 0",
)

Unit(
    "registration.language_description",
    target="textx/registration.py::language_description",
    props=["C26"],
    params={"language_name": "str"},
    locals=G,
    modifies=["*"],
    protects=["dict(metamodels)", "MODULE:textx.registration.metamodels"],
    returns="obj:LanguageDesc",
    ensures=[("case-insensitive-lookup",
              f"result == {L}[language_name.lower()] and language_name.lower() in {L}")],
    raises={"TextXRegistrationError": [
        ("unknown-name", f"implies(created_here(exc), languages is None or not (language_name.lower() in {L}))")]},
    canary="result is None",
)

Unit(
    "registration.clear_language_registrations",
    target="textx/registration.py::clear_language_registrations",
    props=["C26"],
    locals=G,
    modifies=["*"],
    ensures=[("registry-unloaded-cache-emptied", "languages is None and len(metamodels) == 0")],
    canary="languages is not None",
)


# fnmatch.fnmatch as a pure predicate of (file name, pattern); both must be strings
SpecFn("fn_matches", [("name", "any"), ("pattern", "any")], "bool")
FNMATCH = Ext("fnmatch", pure=True, raises=None, returns="bool",
              requires=[("pattern-is-a-string", "is_str(a0) and is_str(a1)")],
              ensures=["result == fn_matches(a0, a1)"])
MATCHES = ("({x}.pattern is not None and (file_name_or_pattern == {x}.pattern"
           " or fn_matches(file_name_or_pattern, {x}.pattern)))")

# "the language's pattern matches the file": equal to it or an fnmatch match; no pattern, no match
SpecFn(
    "lang_matches", [("fname", "str"), ("desc", "any")], "bool", reads=["pattern"], unfold=2,
    defn=MATCHES.format(x="as_obj(desc, 'LanguageDesc')").replace("file_name_or_pattern", "fname"),
)
# number of matching descriptions among the first j registered ones (registry order)
SpecFn(
    "nmatch", [("fname", "str"), ("j", "int")], "int", reads=["{}", "pattern", "languages"], unfold=2,
    facts=["nmatch(fname, j) >= 0"],
    defn="0 if j <= 0 else nmatch(fname, j - 1) + "
         "(1 if lang_matches(fname, as_dict(languages)[key_at(languages, j - 1)]) else 0)",
)
VALUE = "as_dict(languages)[key_at(languages, {j})]"
MATCH_J = "lang_matches(file_name_or_pattern, " + VALUE.format(j="j") + ")"

Unit(
    "registration.languages_for_file",
    target="textx/registration.py::languages_for_file",
    props=["C26"],
    params={"file_name_or_pattern": "str"},
    locals=G,
    calls={"fnmatch.fnmatch": FNMATCH},
    modifies=["*"],
    returns="list",
    loops={
        "for:language_descriptions().values()": Loop(
            modifies=["list(file_languages)"],
            preserves=["{}", "pattern", "languages"],
            inv=[
                # the list holds exactly the matching descriptions among the first _i, in registry order
                "len(file_languages) == nmatch(file_name_or_pattern, _i)",
                "forall(lambda j: implies(0 <= j and j < _i and " + MATCH_J + ","
                " nmatch(file_name_or_pattern, j) < nmatch(file_name_or_pattern, _i)))",
                "forall(lambda j: implies(0 <= j and j < _i and " + MATCH_J + ","
                " file_languages[nmatch(file_name_or_pattern, j)] == " + VALUE.format(j="j") + "))",
                "forall(lambda m: implies(0 <= m and m < len(file_languages), "
                "lang_matches(file_name_or_pattern, file_languages[m])))",
            ],
        )
    },
    ensures=[
        ("only-matching-languages",
         "forall(lambda m: implies(0 <= m and m < len(result), lang_matches(file_name_or_pattern, result[m])))"),
        ("every-matching-language-once-in-registry-order",
         "len(result) == nmatch(file_name_or_pattern, nkeys(languages)) and "
         "forall(lambda j: implies(0 <= j and j < nkeys(languages) and " + MATCH_J + ","
         " nmatch(file_name_or_pattern, j) < len(result)"
         " and result[nmatch(file_name_or_pattern, j)] == " + VALUE.format(j="j") + "))"),
    ],
    canary="len(result) == 0",
)

Unit(
    "registration.language_for_file",
    target="textx/registration.py::language_for_file",
    props=["C26"],
    params={"file_name_or_pattern": "str"},
    locals=G,
    modifies=["*"],
    calls={"languages_for_file": "registration.languages_for_file.summary"},
    ensures=[("exactly-one", "len(ev(0).result) == 1 and result == as_list(ev(0).result)[0]")],
    raises={"TextXRegistrationError": [("unless-exactly-one",
                                        "implies(created_here(exc), len(ev(0).result) != 1)")]},
    canary="result is None",
)

Unit(
    "registration.languages_for_file.summary",
    target="textx/registration.py::languages_for_file",
    region="summary",
    props=[],
    trusted=True,
    params={"file_name_or_pattern": "str"},
    modifies=["*"],
    returns="list",
    ensures=[],
    notes="caller-side summary of languages_for_file: returns a list (its contents are specified by the unit itself)",
)


ISMM = "(is_instance({x}, 'TextXMetaModel') or is_instance({x}, 'TextXMetaMetaModel'))"
KEYL = "language_name.lower()"
DESC = "evn('call:registration.language_description', 0).result"
OTHER_CACHE_ENTRIES_UNTOUCHED = (
    f"forall_val(lambda k: implies(k != {KEYL}, (k in metamodels) == old(k in metamodels)"
    " and implies(k in metamodels, metamodels[k] == old(metamodels[k]))))")

Unit(
    "registration.metamodel_for_language",
    target="textx/registration.py::metamodel_for_language",
    props=["C26"],
    params={"language_name": "str", "kwargs": "dict"},
    locals=G,
    calls={"language.metamodel": Ext("metamodel_factory", note="the factory registered for the language")},
    modifies=["*"],
    requires=["metamodels != kwargs"],
    ext_protect=["dict(metamodels)", "MODULE:textx.registration.metamodels"],
    ensures=[
        ("cached-instance-without-arguments",
         f"implies(old({KEYL} in metamodels) and not truthy(old(len(kwargs) > 0)),"
         f" result == old(metamodels[{KEYL}]) and n_calls('metamodel_factory') == 0"
         f" and n_calls('call:registration.language_description') == 0)"),
        ("otherwise-instance-or-fresh-from-factory-then-cached",
         f"implies(not old({KEYL} in metamodels) or old(len(kwargs) > 0),"
         f" result == metamodels[{KEYL}] and (result == {DESC}.metamodel if n_calls('metamodel_factory') == 0"
         f" else (result == evn('metamodel_factory', 0).result and evn('metamodel_factory', 0).star == kwargs)))"),
        ("factory-used-iff-not-an-instance",
         f"implies(n_calls('call:registration.language_description') == 1, (n_calls('metamodel_factory') == 1) == "
         f"(not " + ISMM.format(x=f"after(evn('call:registration.language_description', 0), {DESC}.metamodel)") + "))"),
        ("result-is-a-metamodel", f"implies(n_calls('metamodel_factory') == 1, " + ISMM.format(x="result") + ")"),
        ("other-cache-entries-untouched", OTHER_CACHE_ENTRIES_UNTOUCHED),
    ],
    raises={"TextXRegistrationError": [
        ("cache-untouched-on-error",
         "implies(created_here(exc), forall_val(lambda k: (k in metamodels) == old(k in metamodels)"
         " and implies(k in metamodels, metamodels[k] == old(metamodels[k]))))")]},
    canary="n_calls('metamodel_factory') == 1",
)


# --------------------------------------------------------------------------
# generators: dict lower-case language -> dict lower-case target -> GeneratorDesc
# --------------------------------------------------------------------------
GG = dict(G)
GG["global:generators"] = "dict[dict[obj:GeneratorDesc]]|none"
GLOAD = "call:registration.generator_descriptions"


def gbase(expr):
    return f"(after(evn('{GLOAD}', 0), {expr}) if n_calls('{GLOAD}') == 1 else old({expr}))"


Unit(
    "registration.generator_descriptions",
    target="textx/registration.py::generator_descriptions",
    props=["C26"],
    trusted=True,
    locals=GG,
    modifies=["*"],
    returns="dict[dict[obj:GeneratorDesc]]",
    ensures=["generators is not None", "result == generators",
             # registry shape: the per-language tables are distinct dict objects, none is the registry itself
             "forall_val(lambda a, b: implies(a in generators and b in generators and a != b,"
             " generators[a] != generators[b]))",
             "forall_val(lambda a: implies(a in generators, generators[a] != generators))",
             "implies(old(generators) is not None, generators == old(generators) and "
             "forall_val(lambda k: (k in generators) == old(k in generators) and implies(k in generators,"
             " generators[k] == old(generators[k]) and forall_val(lambda t: (t in as_dict(generators[k])) == "
             "old(t in as_dict(generators[k])) and implies(t in as_dict(generators[k]),"
             " as_dict(generators[k])[t] == old(as_dict(generators[k])[t]))))))"],
    notes="loads the entry-point generator registrations on first use",
)

GD = "generator_desc_or_language"
GLANG = f"as_str({GD}.language if is_instance({GD}, 'GeneratorDesc') else {GD}).lower()"
GTARGET = f"as_str({GD}.target if is_instance({GD}, 'GeneratorDesc') else target).lower()"
INNER_NOW = f"as_dict(generators[{GLANG}])"

Unit(
    "registration.register_generator",
    target="textx/registration.py::register_generator",
    props=["C26"],
    params={GD: "any", "target": "any", "description": "any", "generator": "any"},
    locals=GG,
    requires=[f"implies(is_instance({GD}, 'GeneratorDesc'), is_str({GD}.language) and is_str({GD}.target))",
              f"implies(not is_instance({GD}, 'GeneratorDesc'), is_str({GD}) and is_str(target))",
              # the inner tables are pairwise different dict objects
              "implies(generators is not None, forall_val(lambda a, b: implies(a in generators and b in generators"
              " and a != b, generators[a] != generators[b])))",
              "implies(generators is not None, forall_val(lambda a: implies(a in generators,"
              " generators[a] != generators)))"],
    modifies=["*"],
    ensures=[
        ("binding-added-under-lower-case-language-and-target",
         f"{GLANG} in generators and {GTARGET} in {INNER_NOW}"
         f" and implies(is_instance({GD}, 'GeneratorDesc'), {INNER_NOW}[{GTARGET}] == {GD})"),
        ("refused-if-already-registered",
         "not " + gbase(f"{GLANG} in generators and {GTARGET} in as_dict(generators[{GLANG}])")),
        ("other-languages-untouched",
         f"forall_val(lambda k: implies(k != {GLANG}, (k in generators) == " + gbase("k in generators")
         + " and implies(k in generators, generators[k] == " + gbase("generators[k]") + ")))"),
        ("other-targets-of-the-language-untouched",
         f"forall_val(lambda t: implies(t != {GTARGET} and " + gbase(f"{GLANG} in generators")
         + f", (t in {INNER_NOW}) == " + gbase(f"t in as_dict(generators[{GLANG}])")
         + f" and implies(t in {INNER_NOW}, {INNER_NOW}[t] == " + gbase(f"as_dict(generators[{GLANG}])[t]") + ")))"),
    ],
    raises={"TextXRegistrationError": [
        ("refuses-duplicates-only",
         "implies(created_here(exc), "
         + gbase(f"{GLANG} in generators and {GTARGET} in as_dict(generators[{GLANG}])") + ")")]},
    canary="len(generators) == 0",
)

Unit(
    "registration.generator_description",
    target="textx/registration.py::generator_description",
    props=["C26"],
    params={"language_name": "str", "target_name": "str", "any_permitted": "bool"},
    locals=GG,
    modifies=["*"],
    ensures=[
        ("language-specific-generator-first",
         "implies(language_name.lower() in generators and target_name.lower() in "
         "as_dict(generators[language_name.lower()]),"
         " result == as_dict(generators[language_name.lower()])[target_name.lower()])"),
        ("any-fallback-only-when-permitted",
         "implies(not (language_name.lower() in generators and target_name.lower() in "
         "as_dict(generators[language_name.lower()])), any_permitted and 'any' in generators"
         " and target_name.lower() in as_dict(generators['any'])"
         " and result == as_dict(generators['any'])[target_name.lower()])"),
    ],
    raises={"TextXRegistrationError": [
        ("only-when-not-found",
         "implies(created_here(exc), not (language_name.lower() in generators and target_name.lower() in "
         "as_dict(generators[language_name.lower()])) and not (any_permitted and 'any' in generators and "
         "target_name.lower() in as_dict(generators['any'])))")]},
    canary="result is None",
)

Unit(
    "registration.clear_generator_registrations",
    target="textx/registration.py::clear_generator_registrations",
    props=["C26"],
    locals=GG,
    modifies=["*"],
    ensures=[("registry-unloaded", "generators is None")],
    canary="generators is not None",
)


# ---------------------------------------------------------------------------------------------
# native replay: the registry driven through the real public API as a case-insensitive map
from txvc.props import replay_for  # noqa: E402


def _registry_battery():
    from textx import (GeneratorDesc, LanguageDesc, clear_generator_registrations, clear_language_registrations,
                       generator_description, language_description, languages_for_file, metamodel_for_language,
                       register_generator, register_language)
    from textx.exceptions import TextXRegistrationError

    bad = []

    def refused(fn, *a, **k):
        try:
            fn(*a, **k)
            return False
        except TextXRegistrationError:
            return True

    made = []

    def factory(**kwargs):
        from textx import metamodel_from_str

        made.append(kwargs)
        return metamodel_from_str("Model: 'x';")

    clear_language_registrations()
    clear_generator_registrations()
    try:
        first = LanguageDesc("ZzLang", pattern="*.zz1", description="first", metamodel=factory)
        second = LanguageDesc("zzLANG", pattern="*.zz2", description="second", metamodel=factory)
        nopat = LanguageDesc("ZzNoPattern", description="no pattern", metamodel=factory)
        register_language(first)
        for nm in ("zzlang", "ZZLANG", "ZzLang"):
            if language_description(nm) is not first:
                bad.append(f"language_description({nm!r}) is not the registered description")
        if not refused(register_language, second):
            bad.append("a language whose name differs only in case was registered a second time")
        if language_description("zzlang") is not first:
            bad.append("a refused registration changed the registered description")
        if [d for d in languages_for_file("m.zz2") if d.name.lower() == "zzlang"]:
            bad.append("a refused registration is visible through languages_for_file")
        register_language(nopat)
        try:
            hits = [d for d in languages_for_file("m.zz1") if d.name.lower().startswith("zz")]
            if hits != [first]:
                bad.append(f"languages_for_file('m.zz1') gave {[d.name for d in hits]}, expected ['ZzLang']")
        except Exception as e:  # noqa: BLE001
            bad.append(f"languages_for_file raised {type(e).__name__} with a pattern-less language registered")
        m1 = metamodel_for_language("ZZlang")
        m2 = metamodel_for_language("zzlang")
        if m1 is not m2 or len(made) != 1:
            bad.append("metamodel_for_language did not return the cached instance on the second call")
        clear_language_registrations()
        if not refused(language_description, "zzlang"):
            bad.append("a language registered by API survived clear_language_registrations")

        g1 = GeneratorDesc(language="ZzLang", target="Out", description="g1", generator=lambda *a, **k: None)
        g2 = GeneratorDesc(language="zzlang", target="OUT", description="g2", generator=lambda *a, **k: None)
        gany = GeneratorDesc(language="any", target="ZzAny", description="gany", generator=lambda *a, **k: None)
        register_generator(g1)
        if generator_description("zzLANG", "oUt") is not g1:
            bad.append("generator_description is not case-insensitive in language and target")
        if not refused(register_generator, g2):
            bad.append("a generator whose (language, target) differs only in case was registered a second time")
        if generator_description("zzlang", "out") is not g1:
            bad.append("a refused generator registration changed the registered description")
        register_generator(gany)
        if generator_description("zzlang", "zzany", any_permitted=True) is not gany:
            bad.append("the 'any' fallback did not return the generator registered for any language")
        if not refused(generator_description, "zzlang", "zzany"):
            bad.append("the 'any' fallback was used although not permitted")
    finally:
        clear_language_registrations()
        clear_generator_registrations()
    return bad


def _replay_registry(model, rec):
    bad = _registry_battery()
    if bad:
        return True, "registry battery on the real code:\n  " + "\n  ".join(bad)
    return False, "registry battery: the real registry behaves as a case-insensitive map on the battery"


for _u in ("language_descriptions", "register_language", "language_description", "clear_language_registrations",
           "languages_for_file", "language_for_file", "languages_for_file.summary", "metamodel_for_language",
           "generator_descriptions", "register_generator", "generator_description",
           "clear_generator_registrations"):
    replay_for("registration." + _u)(_replay_registry)
