"""The loading pipeline around parse_tree_to_objgraph: TextXModelParser.clone,
get_model_from_str, the instrumentation of user classes, and the entry points
of TextXMetaModel that start a load.  Serves C06 (the text that is parsed is
the caller's text), C14 / C15 (instrumentation is balanced on every path),
C16 (every load runs on a fresh clone of the blueprint parser)."""

from txvc.contracts import Ext, Loop, Schema, SpecFn, Unit

from . import common  # noqa: F401

# --------------------------------------------------------------------------
# C16: TextXModelParser.clone - everything a load writes on the parser object
# is fresh in the clone; the blueprint is not written at all
# --------------------------------------------------------------------------
Unit(
    "model.TextXModelParser.clone",
    target="textx/model.py::get_model_parser.TextXModelParser.clone",
    props=["C16"],
    params={"self": "obj:TextXModelParser"},
    # copy.copy is a primitive of the engine (T-PY): a new object of the same class whose attribute
    # row is a copy of the original's row; the attribute values themselves are shared
    calls={"copy.copy": "builtin:copy.copy"},
    modifies=[],
    ensures=[
        ("C16-clone-is-a-new-parser-object", "created_here(result) and result != self"),
        ("C16-parse-dependent-containers-are-fresh-and-empty",
         "created_here(result._inst_stack) and len(result._inst_stack) == 0"
         " and created_here(result._crossrefs) and len(result._crossrefs) == 0"
         " and created_here(result._instances) and nkeys(result._instances) == 0"
         " and created_here(result.comments) and len(as_list(result.comments)) == 0"
         " and created_here(result.comment_positions) and nkeys(as_dict(result.comment_positions)) == 0"
         " and created_here(result.sem_actions) and nkeys(as_dict(result.sem_actions)) == 0"),
        ("C16-containers-are-not-shared-with-the-blueprint",
         "result._inst_stack != self._inst_stack and result._crossrefs != self._crossrefs"
         " and result._instances != self._instances"),
        ("C16-same-language-and-grammar",
         "result.metamodel == self.metamodel and cls(result) == cls(self)"
         " and implies(hasattr(self, 'parser_model'), result.parser_model == self.parser_model)"),
        ("C16-blueprint-untouched",
         "self._inst_stack == old(self._inst_stack) and self._crossrefs == old(self._crossrefs)"
         " and self._instances == old(self._instances) and len(self._crossrefs) == old(len(self._crossrefs))"
         " and len(self._inst_stack) == old(len(self._inst_stack))"),
    ],
    canary="result == self",
)


# --------------------------------------------------------------------------
# get_model_from_str: the text parsed is the caller's; instrumentation of the
# user classes is switched on once after a successful parse and switched off
# again on every exceptional exit on which it was switched on
# --------------------------------------------------------------------------
Unit(
    "model.TextXModelParser.get_model_from_str",
    target="textx/model.py::get_model_parser.TextXModelParser.get_model_from_str",
    props=["C06", "C14", "C15", "C16"],
    # model_str is a str: model_from_str rejects anything else, the file route passes f.read()
    params={"self": "obj:TextXModelParser", "model_str": "str", "file_name": "any", "debug": "any",
            "pre_ref_resolution_callback": "any", "is_main_model": "any", "encoding": "any"},
    calls={
        "self.dprint": Ext("dprint", pure=True, raises=None, returns="none"),
        "self.parse": Ext("parse", note="Arpeggio Parser.parse (T-ARP): parses the text, sets self.parse_tree; "
                                        "raises TextXSyntaxError through _parse"),
        "self._replace_user_attr_methods": Ext("instrument", raises=None, returns="none",
                                               note="verified below (model.TextXModelParser._replace_user_attr_methods)"),
        "self._restore_user_attr_methods": Ext("restore", raises=None, returns="none",
                                               note="verified below (model.TextXModelParser._restore_user_attr_methods)"),
        "parse_tree_to_objgraph": Ext("parse_tree_to_objgraph",
                                      note="the object-graph builder (its own units: process_node, resolution, ...)"),
    },
    modifies=["*"],
    ensures=[
        ("C06-the-parsed-text-is-the-callers-text",
         "n_calls('parse') == 1 and evn('parse', 0).args[0] == model_str"
         " and evn('parse', 0).kwargs['file_name'] == file_name", "C06"),
        ("C14-instrumented-once-after-parsing-before-building",
         "n_calls('instrument') == 1 and n_calls('restore') == 0 and n_calls('parse_tree_to_objgraph') == 1"
         " and evpos('parse', 0) < evpos('instrument', 0)"
         " and evpos('instrument', 0) < evpos('parse_tree_to_objgraph', 0)", "C14"),
        ("C16-builder-gets-this-parser-and-the-callers-arguments",
         "evn('parse_tree_to_objgraph', 0).args[0] == self"
         " and evn('parse_tree_to_objgraph', 0).kwargs['file_name'] == file_name"
         " and evn('parse_tree_to_objgraph', 0).kwargs['pre_ref_resolution_callback'] == pre_ref_resolution_callback"
         " and evn('parse_tree_to_objgraph', 0).kwargs['is_main_model'] == is_main_model"
         " and evn('parse_tree_to_objgraph', 0).kwargs['encoding'] == encoding"
         " and result == evn('parse_tree_to_objgraph', 0).result", "C16"),
    ],
    raises={"*": [
        # balance: whatever was switched on by this load is switched off again, and nothing else is
        ("C14-C15-instrumentation-balanced-on-failure",
         "n_calls('restore') == n_calls('instrument')", "C15"),
        ("C14-C15-restore-is-the-last-thing-done",
         "implies(n_calls('restore') == 1, evpos('restore', 0) > evpos('instrument', 0))", "C15"),
        ("C15-the-original-error-is-raised",
         "exc == (evn('parse', 0).exc if n_calls('instrument') == 0 else evn('parse_tree_to_objgraph', 0).exc)",
         "C15"),
    ]},
    canary="n_calls('restore') == 1",
)


# --------------------------------------------------------------------------
# entry points of the metamodel: every load parses the caller's text (or the
# file's content) on a FRESH CLONE of the blueprint parser, never on the
# blueprint; with a global repository a file that is already cached is not
# parsed again
# --------------------------------------------------------------------------
from txvc.contracts import REGISTRY as _REG  # noqa: E402

from . import c27  # noqa: E402,F401

_mfs = _REG["metamodel.model_from_str"]
_mfs.props += ["C06", "C16"]
_mfs.ensures += [
    ("C16-string-load-runs-on-a-fresh-clone-of-the-blueprint",
     "implies(file_name is None, n_calls('clone') == 1"
     " and evn('clone', 0).callee == old(self._parser_blueprint)"
     " and evn('get_model_from_str', 0).callee == evn('clone', 0).result)", "C16"),
    ("C06-string-load-parses-the-callers-text",
     "implies(file_name is None, evn('get_model_from_str', 0).args[0] == model_str)", "C06"),
    ("C06-C16-named-string-load-hands-the-text-to-the-file-route",
     "implies(file_name is not None, evn('internal_model_from_file', 0).args[0] == file_name"
     " and evn('internal_model_from_file', 0).kwargs['model_str'] == model_str)", "C06"),
]

CACHE = "self._tx_model_repository.all_models.filename_to_model"
CACHED = f"(old(hasattr(self, '_tx_model_repository')) and old(abspath(file_name) in {CACHE}) and old(truthy({CACHE}[abspath(file_name)])))"

Unit(
    "metamodel.internal_model_from_file",
    target="textx/metamodel.py::TextXMetaModel.internal_model_from_file",
    props=["C06", "C16", "C17", "C18", "C27"],
    params={"self": "obj:TextXMetaModel", "file_name": "str", "encoding": "any", "debug": "any",
            "pre_ref_resolution_callback": "any", "is_main_model": "any", "model_str": "any", "model_params": "any"},
    calls={
        "open": Ext("open", returns="obj", note="builtin open (T-PY)"),
        "f.read": Ext("read", returns="str", note="file.read (T-PY)"),
        "self._parser_blueprint.clone": Ext("clone", pure=True, raises=None, returns="obj:TextXModelParser",
                                            note="TextXModelParser.clone (verified: model.TextXModelParser.clone)"),
        "self._parser_blueprint.clone().get_model_from_str": Ext(
            "get_model_from_str", note="verified: model.TextXModelParser.get_model_from_str"),
        "self._known_model_files": Ext("known_model_files", pure=True, raises=None,
                                       note="verified: metamodel._known_model_files"),
        "self._call_model_processors": Ext("call_model_processors",
                                           note="verified: metamodel._call_model_processors"),
    },
    modifies=["*"],
    ext_protect=["self._parser_blueprint"],
    ensures=[
        ("C18-processors-run-through-the-cleaning-wrapper-with-the-files-known-before-the-load",
         "n_calls('known_model_files') == 1 and evpos('known_model_files', 0) == 0"
         " and n_calls('call_model_processors') == 1 and evpos('call_model_processors', 0) == n_calls() - 1"
         " and evn('call_model_processors', 0).args[0] == result"
         " and evn('call_model_processors', 0).args[1] == evn('known_model_files', 0).result", "C18"),
        ("C17-cached-file-is-not-parsed-again",
         f"implies({CACHED}, n_calls('get_model_from_str') == 0 and n_calls('open') == 0"
         f" and result == old({CACHE}[abspath(file_name)]))", "C17"),
        ("C16-file-load-runs-on-a-fresh-clone-of-the-blueprint",
         f"implies(not {CACHED}, n_calls('clone') == 1 and n_calls('get_model_from_str') == 1"
         " and evn('clone', 0).callee == old(self._parser_blueprint)"
         " and evn('get_model_from_str', 0).callee == evn('clone', 0).result"
         " and result == evn('get_model_from_str', 0).result)", "C16"),
        ("C06-the-parsed-text-is-the-given-text-or-the-files-content",
         f"implies(not {CACHED}, evn('get_model_from_str', 0).args[1] == abspath(file_name) and"
         " (evn('get_model_from_str', 0).args[0] == model_str if old(truthy(model_str)) else"
         " (n_calls('open') == 1 and evn('open', 0).args[0] == abspath(file_name)"
         " and evn('open', 0).kwargs['encoding'] == encoding"
         " and evn('read', 0).callee == after(evn('open', 0), evn('open', 0).result.read)"
         " and evn('get_model_from_str', 0).args[0] == evn('read', 0).result)))", "C06"),
        ("C27-parameter-callback-installed-for-every-model-of-the-load",
         f"implies(not {CACHED}, is_ref(evn('get_model_from_str', 0).kwargs['pre_ref_resolution_callback'])"
         " and evn('get_model_from_str', 0).kwargs['is_main_model'] == is_main_model)", "C27"),
    ],
    raises={"*": []},
    canary="n_calls('get_model_from_str') == 1",
)

# the string route (contracts/c27.py) now reaches the processors through the same wrapper
_mfs.props += ["C18"]
_mfs.calls["self._known_model_files"] = Ext("known_model_files", pure=True, raises=None)
_mfs.calls["self._call_model_processors"] = Ext("call_model_processors")
_mfs.ensures += [
    ("C18-string-load-processors-run-through-the-cleaning-wrapper",
     "implies(file_name is None, n_calls('known_model_files') == 1"
     " and evpos('known_model_files', 0) < evpos('get_model_from_str', 0)"
     " and n_calls('call_model_processors') == 1 and evpos('call_model_processors', 0) == n_calls() - 1"
     " and evn('call_model_processors', 0).args[0] == result"
     " and evn('call_model_processors', 0).args[1] == evn('known_model_files', 0).result)", "C18"),
]

Unit(
    "metamodel._known_model_files",
    target="textx/metamodel.py::TextXMetaModel._known_model_files",
    props=["C18"],
    params={"self": "obj:TextXMetaModel"},
    modifies=[],
    ensures=[
        ("no-global-repository-no-record", "implies(not hasattr(self, '_tx_model_repository'), result is None)"),
        ("record-is-a-snapshot-of-the-cached-files",
         f"implies(hasattr(self, '_tx_model_repository'), created_here(result) and "
         f"forall_val(lambda f: (f in as_dict(result)) == (f in {CACHE})))"),
    ],
    canary="result is None",
)

NEW_MODELS = "as_list(evn('remove_models_from_repositories', 0).args[0])"
AT_REMOVAL = "before(evn('remove_models_from_repositories', 0), {})"

Unit(
    "metamodel._call_model_processors",
    target="textx/metamodel.py::TextXMetaModel._call_model_processors",
    props=["C18"],
    params={"self": "obj:TextXMetaModel", "model": "any", "known_files": "set|none"},
    requires=["implies(known_files is not None, hasattr(self, '_tx_model_repository'))"],
    calls={
        "p": Ext("model_processor", note="registered model processor: arbitrary user code"),
        "remove_models_from_repositories": Ext(
            "remove_models_from_repositories", raises=None, returns="none",
            note="scoping.remove_models_from_repositories: removes the given models from every repository "
                 "that may hold them"),
    },
    ext_protect=["dict(known_files)", "self._tx_model_repository", "self._tx_model_repository.all_models",
                 "self._tx_model_repository.all_models.filename_to_model"],
    modifies=["*"],
    loops={"for:self._model_processors": Loop(modifies=["*"], inv=[], protect=[
        "dict(known_files)", "self._tx_model_repository", "self._tx_model_repository.all_models",
        "self._tx_model_repository.all_models.filename_to_model"])},
    ensures=[("C18-nothing-removed-when-every-processor-succeeds",
              "n_calls('remove_models_from_repositories') == 0")],
    raises={"*": [
        ("C18-without-global-repository-nothing-to-clean",
         "implies(known_files is None, n_calls('remove_models_from_repositories') == 0)"),
        ("C18-exactly-the-models-added-by-this-load-are-removed",
         "implies(known_files is not None, n_calls('remove_models_from_repositories') == 1"
         " and evn('remove_models_from_repositories', 0).args[0] == evn('remove_models_from_repositories', 0).args[1]"
         f" and forall_val(lambda f: implies({AT_REMOVAL.format('f in ' + CACHE)} and not (f in known_files),"
         f" exists_in(0, len({NEW_MODELS}), lambda j: {NEW_MODELS}[j] == {AT_REMOVAL.format(CACHE + '[f]')})))"
         f" and forall(lambda j: implies(0 <= j and j < len({NEW_MODELS}),"
         f" exists_val(lambda f: {AT_REMOVAL.format('f in ' + CACHE)} and not (f in known_files)"
         f" and {NEW_MODELS}[j] == {AT_REMOVAL.format(CACHE + '[f]')}))))"),
        ("C18-the-processors-error-is-raised-after-the-cleanup",
         "implies(known_files is not None, evpos('remove_models_from_repositories', 0) == n_calls() - 1)"),
    ]},
    canary="n_calls('remove_models_from_repositories') == 1",
)


# --------------------------------------------------------------------------
# native replay for the pipeline units, by property
# --------------------------------------------------------------------------
from txvc.props import replay_for  # noqa: E402


def _nested_failing_load():
    """C14/C15: a load nested in another one (a scope provider tries an optional source) fails with a
    syntax error; the enclosing load must go on with its user classes still instrumented and finish."""
    from textx import metamodel_from_str
    from textx.exceptions import TextXSyntaxError
    from textx.scoping.providers import PlainName

    class Thing:
        def __init__(self, parent=None, name=None, ref=None):
            self.parent, self.name, self.ref = parent, name, ref

    mm = metamodel_from_str("Model: things+=Thing; Thing: 'thing' name=ID ('->' ref=[Thing])?;", classes=[Thing])
    tried = []

    def prov(obj, attr, ref):
        if not tried:
            tried.append(1)
            try:
                mm.model_from_str("thing thing thing")
            except TextXSyntaxError:
                pass
        return PlainName()(obj, attr, ref)

    mm.register_scope_providers({"Thing.ref": prov})
    bad = []
    try:
        m = mm.model_from_str("thing a -> b thing b -> a")
        got = [(t.name, getattr(t.ref, "name", t.ref)) for t in m.things]
        if got != [("a", "b"), ("b", "a")]:
            bad.append(f"model after a nested failing load: {got}")
    except Exception as e:  # noqa: BLE001
        bad.append(f"enclosing load failed after a nested load's syntax error was ignored: {type(e).__name__}: {e}")
    if "_tx_instrumented" in Thing.__dict__ or Thing.__dict__.get("_tx_obj_attrs"):
        bad.append(f"user class left instrumented / with per-object storage: {sorted(Thing.__dict__)}")
    return bad


@replay_for("model.TextXModelParser.get_model_from_str")
@replay_for("metamodel.internal_model_from_file")
@replay_for("model.TextXModelParser.clone")
def _replay_pipeline(model, rec):
    pid = rec.get("property")
    if pid == "C06":
        from .c06 import _battery

        n, bad = _battery("quick")
        return bool(bad), ("spans on the real code:\n  " + "\n  ".join(bad[:8])) if bad else \
            f"all object spans of {n} loads are exact"
    if pid in ("C14", "C15"):
        bad = _nested_failing_load()
        return bool(bad), "; ".join(bad) or "nested failing load leaves the enclosing load intact"
    return False, f"no native battery for {pid} on this unit"
