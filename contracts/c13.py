"""C13 - object processors run once each, bottom-up, on a fully linked model.

call_obj_processors(metamodel, model_obj, grammar_cls) (recursive; a recursive call is used through this
same contract).  "own rule" = the class registered under the object's _tx_fqn, "grammar rule" = the class of
the attribute that holds the object (the object's own class for the root).
  P1  match rules: nothing is called here (their processors ran while the value was converted);
  P2  the own-rule processor is called iff the own rule differs from the grammar rule and has a processor,
      the grammar-rule processor iff it has a processor - each at most once, the own one FIRST, both with
      the object itself and its location (get_location);
  P3  the result is the own processor's value when that is not None, else the grammar processor's
      (may be None) - a falsy value such as 0 or '' is a replacement like any other;
  P4  per containment attribute / list element (region units): the child is processed by one recursive call
      with the attribute's class as grammar rule; a non-None result replaces the element / the attribute,
      None leaves it; attributes that are not containment are not entered.
That processors run only after all references are resolved and all user classes are initialised, and that
every model of the load is processed, is the main-model phase (orchestrate.py, also tagged C13).
"once per object": one recursive call per contained child (P4) and one processor call per activation (P2);
that each object is reached once is the containment forest (C05).
"""

from txvc.contracts import Ext, Loop, Unit
from txvc.props import extra, replay_for

from . import c05, c20, c25, c33, common  # noqa: F401

TGT = "textx/model.py::parse_tree_to_objgraph.call_obj_processors"
PROC = "call:metamodel.process"
REC = "call:model.call_obj_processors"
MM_VALID = ["len(metamodel._namespace_stack) >= 1",
            "metamodel._namespace_stack[-1] in metamodel.namespaces",
            "metamodel._namespace_stack[-1] in metamodel._imported_namespaces"]
HAS = Ext("has_obj_processor", pure=True, raises=None, returns="bool",
          note="TextXMetaModel.has_obj_processor: name in self._obj_processors")

Unit(
    "model.call_obj_processors",
    target=TGT,
    props=["C13"],
    params={"metamodel": "obj:TextXMetaModel", "model_obj": "obj", "metaclass_of_grammar_rule": "any"},
    requires=MM_VALID + ["depth(model_obj) >= 0", "is_str(model_obj.__class__.__name__)"],
    calls={"metamodel.has_obj_processor": HAS},
    modifies=["*"],
    ext_protect=["metamodel._namespace_stack", "list(metamodel._namespace_stack)", "dict(metamodel.namespaces)",
                 "metamodel.namespaces", "metamodel._imported_namespaces", "dict(metamodel._imported_namespaces)"],
    loops={
        "for:current_metaclass_of_obj._tx_attrs.values()": Loop(
            modifies=["*"], inv=[], step=False, body_unit="model.call_obj_processors.per-attribute"),
    },
    ensures=[
        ("C13-P2-at-most-two-processor-calls-own-rule-first",
         f"n_calls('{PROC}') <= 2 and implies(n_calls('{PROC}') == 2,"
         f" evn('{PROC}', 0).args['value'] == model_obj and evn('{PROC}', 1).args['value'] == model_obj"
         f" and evn('{PROC}', 0).args['_type'] == before(evn('{PROC}', 0), final_current_metaclass_of_obj.__name__)"
         f" and evn('{PROC}', 1).args['_type'] == before(evn('{PROC}', 1), final_metaclass_of_grammar_rule.__name__))"),
        ("C13-P2-processors-get-the-object-itself",
         f"implies(n_calls('{PROC}') >= 1, evn('{PROC}', 0).args['value'] == model_obj)"),
        ("C13-P3-own-result-wins-when-not-None-else-the-grammar-rules",
         f"implies(n_calls('{PROC}') == 2, result == (evn('{PROC}', 0).result if evn('{PROC}', 0).result is not None"
         f" else evn('{PROC}', 1).result))"
         f" and implies(n_calls('{PROC}') == 1, result == evn('{PROC}', 0).result)"
         f" and implies(n_calls('{PROC}') == 0, result is None)"),
    ],
    raises={"*": []},
    canary=f"n_calls('{PROC}') == 2",
)

MANY = "(metaattr.mult == '1..*' or metaattr.mult == '0..*')"
VALUE = "old(getattr(model_obj, metaattr.name))"

Unit(
    "model.call_obj_processors.per-attribute",
    target=TGT,
    region="body:for:current_metaclass_of_obj._tx_attrs.values()",
    props=["C13"],
    params={"metamodel": "obj:TextXMetaModel", "model_obj": "obj", "metaattr": "obj:MetaAttr", "many": "list[str]"},
    requires=MM_VALID + ["distinct(metamodel, model_obj, metaattr, many)", "len(many) == 2",
                         "many[0] == '1..*' and many[1] == '0..*'",
                         f"implies(metaattr.cont and {MANY} and getattr(model_obj, metaattr.name) is not None,"
                         " is_list(getattr(model_obj, metaattr.name)))"],
    ext_protect=["metaattr.*", "list(many)"],
    loops={"for:enumerate(attr)": Loop(modifies=["*"], inv=[], step=False, protect=["metaattr.*", "list(many)"],
                                       body_unit="model.call_obj_processors.per-element")},
    ensures=[
        ("C13-P4-only-containment-attributes-are-entered",
         f"implies(not old(metaattr.cont), n_calls('{REC}') == 0)"),
        ("C13-P4-single-valued-child-processed-once-with-the-attributes-rule",
         f"implies(old(metaattr.cont) and not old({MANY}) and {VALUE} is None, n_calls('{REC}') == 0)"
         f" and implies(old(metaattr.cont) and not old({MANY}) and {VALUE} is not None,"
         f" n_calls('{REC}') == 1 and evn('{REC}', 0).args['model_obj'] == {VALUE}"
         f" and evn('{REC}', 0).args['metaclass_of_grammar_rule'] == old(metaattr.cls)"
         f" and evn('{REC}', 0).args['metamodel'] == metamodel)"),
        ("C13-P4-non-None-result-replaces-the-attribute",
         f"implies(old(metaattr.cont) and not old({MANY}) and n_calls('{REC}') == 1 and evn('{REC}', 0).result is not None,"
         f" getattr(model_obj, old(metaattr.name)) == evn('{REC}', 0).result)"),
    ],
    raises={"*": []},
    canary=f"n_calls('{REC}') == 1",
)

Unit(
    "model.call_obj_processors.per-element",
    target=TGT,
    region="body:for:enumerate(attr)",
    props=["C13"],
    params={"metamodel": "obj:TextXMetaModel", "attr": "list", "idx": "int", "obj": "any", "metaattr": "obj:MetaAttr"},
    requires=MM_VALID + ["distinct(metamodel, attr, metaattr)", "0 <= idx and idx < len(attr)", "attr[idx] == obj"],
    ext_protect=["metaattr.*"],
    ensures=[
        ("C13-P4-list-child-processed-once-with-the-attributes-rule",
         f"implies(obj is None, n_calls('{REC}') == 0) and implies(obj is not None, n_calls('{REC}') == 1"
         f" and evn('{REC}', 0).args['model_obj'] == obj and evn('{REC}', 0).args['metamodel'] == metamodel"
         f" and evn('{REC}', 0).args['metaclass_of_grammar_rule'] == old(metaattr.cls))"),
        ("C13-P4-non-None-result-replaces-the-element",
         f"implies(n_calls('{REC}') == 1 and evn('{REC}', 0).result is not None"
         f" and after(evn('{REC}', 0), idx < len(attr)), attr[idx] == evn('{REC}', 0).result)"),
    ],
    raises={"*": []},
    canary=f"n_calls('{REC}') == 0",
)


# --------------------------------------------------------------------------
# bounded battery / native replay: call log of processors on real models
# --------------------------------------------------------------------------
def _c13_battery():
    from textx import metamodel_from_str

    bad = []
    grammar = """
    Model: 'calc' exprs+=Sum[';'] negs*=Neg refs*=Ref;
    Sum: left=Operand ('+' rest+=Operand)*;
    Operand: Num | Par | Var;
    Num: value=INT;
    Var: 'v' name=ID;
    Par: '(' inner=Sum ')';
    Neg: '-' inner=Num;
    Ref: 'ref' to=[Var];
    """
    text = "calc 0 + 3 + (1 + v x) ; 5 - 0 - 7 ref x"
    log = []

    def rec(name, ret=lambda o: None):
        def p(o):
            # references are resolved and the object is fully linked when a processor runs
            log.append((name, type(o).__name__, id(o)))
            return ret(o)
        return p

    mm = metamodel_from_str(grammar)
    mm.register_obj_processors({
        "Num": rec("Num", lambda o: o.value),                      # replaces every Num by its int (0 included)
        "Operand": rec("Operand"),                                  # abstract rule: runs after the own rule's processor
        "Sum": rec("Sum"), "Par": rec("Par"), "Var": rec("Var"), "Model": rec("Model"), "Neg": rec("Neg"),
        "Ref": rec("Ref", lambda r: None if r.to is not None and type(r.to).__name__ == "Var" else "UNRESOLVED"),
    })
    m = mm.model_from_str(text)
    # once per object of the rule
    from collections import Counter
    cnt = Counter((n, i) for n, t, i in log if n == t)
    if any(v != 1 for v in cnt.values()):
        bad.append("a common-rule processor ran more than once for one object")
    nums = [e for e in log if e[0] == "Num"]
    if len(nums) != 6:
        bad.append(f"Num processor ran {len(nums)} times for 6 Num objects")
    # abstract processor: once per object stored in an Operand-typed attribute, after the own rule's processor
    for k, (n, t, i) in enumerate(log):
        if n == "Operand":
            own = [j for j, (n2, t2, i2) in enumerate(log) if i2 == i and n2 == t2]
            if not own or own[0] > k:
                bad.append(f"Operand processor ran before the {t} processor of the same object")
    if sum(1 for e in log if e[0] == "Operand") != 6:
        bad.append(f"Operand processor ran {sum(1 for e in log if e[0] == 'Operand')} times for 6 operands")
    # replacement: falsy values are replacements too
    s0 = m.exprs[0]
    if s0.left != 0 or s0.rest[0] != 3:
        bad.append(f"int results did not replace the Num objects: left={s0.left!r} rest0={s0.rest[0]!r}")
    if m.negs[0].inner != 0 or m.negs[1].inner != 7:
        bad.append(f"Neg.inner not replaced: {m.negs[0].inner!r} {m.negs[1].inner!r}")
    if type(s0.rest[1]).__name__ != "Par":
        bad.append("a None result replaced an object")
    # bottom-up: children before containers
    order = {i: k for k, (n, t, i) in enumerate(log) if n == t}
    par = s0.rest[1]
    if order[id(par.inner)] > order[id(par)] or order[id(par)] > order[id(s0)] or order[id(s0)] > order[id(m)]:
        bad.append("a container was processed before one of its children")
    if m.refs[0] == "UNRESOLVED":
        bad.append("a processor saw an unresolved reference")
    bad += _c13_multifile_order()
    return bad


def _c13_multifile_order():
    """multi-file load with a user class: every __init__ of every model of the load runs before the first
    object processor of any of them, and every reference is resolved by then"""
    import os
    import shutil
    import tempfile

    import textx.scoping.providers as sp
    from textx import metamodel_from_str

    events = []

    class Thing:
        def __init__(self, parent=None, name=None, ref=None):
            self.parent, self.name, self.ref = parent, name, ref
            events.append(("init", name))

    grammar = ("Model: imports*=Import things+=Thing; Import: 'import' importURI=STRING;"
               " Thing: 'thing' name=ID ('->' ref=[Thing])?;")
    bad = []
    d = tempfile.mkdtemp(prefix="txvc-c13-")
    try:
        with open(os.path.join(d, "lib.t"), "w") as f:
            f.write("thing l1 thing l2 -> l1\n")
        with open(os.path.join(d, "main.t"), "w") as f:
            f.write('import "lib.t"\nthing m1 -> l2 thing m2 -> m1\n')
        mm = metamodel_from_str(grammar, classes=[Thing])
        mm.register_scope_providers({"*.*": sp.PlainNameImportURI()})

        def proc(t):
            events.append(("proc", t.name))
            if t.ref is not None and not isinstance(t.ref, Thing):
                bad.append(f"processor of {t.name} saw the unresolved reference {t.ref!r}")

        mm.register_obj_processors({"Thing": proc})
        mm.model_from_file(os.path.join(d, "main.t"))
        inits = [k for k, e in enumerate(events) if e[0] == "init"]
        procs = [k for k, e in enumerate(events) if e[0] == "proc"]
        if len(inits) != 4 or len(procs) != 4:
            bad.append(f"{len(inits)} __init__ calls and {len(procs)} processor calls for 4 objects: {events}")
        elif max(inits) > min(procs):
            bad.append(f"an object processor ran before every user object was initialised: {events}")
    finally:
        shutil.rmtree(d, ignore_errors=True)
    return bad


@extra("C13")
def processors_battery(tier, seed):
    bad = _c13_battery()
    res = {"name": "model.obj-processors.battery", "backend": "native run of the real loader (bounded stand-in)",
           "obligations": 0, "discharged": 0, "bounded": True, "bound": "one grammar with abstract and common rules, 1 model",
           "cases": 1, "violations": [],
           "detail": "call log of processors: once per object, own rule before abstract rule, bottom-up, replacement incl. falsy values"}
    if bad:
        res["violations"].append({"unit": "model.obj-processors.battery", "kind": "BOUNDED",
                                  "label": "processor-call-log-as-documented", "prop": "C13", "result": "refuted",
                                  "text": "; ".join(bad[:3]), "where": "battery", "path": [],
                                  "model": {"failures": bad[:6]}, "native": True, "time": 0, "reason": ""})
    return res


def _replay_c13(model, rec):
    bad = _c13_battery()
    return bool(bad), "; ".join(bad[:4]) or "object-processor battery passes"


for _u in ("model.obj-processors.battery", "model.call_obj_processors", "model.call_obj_processors.per-attribute",
           "model.call_obj_processors.per-element"):
    replay_for(_u)(_replay_c13)
