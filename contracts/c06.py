"""C06 - object source spans and locations.

What /repo contributes: process_node copies the span of the parse node that
created an object into _tx_position / _tx_position_end (two assignment
regions, proved below), and get_location (contracts/c33.py, also tagged C06)
turns that span into line/col (of the start, by the root model's parser),
nchar (= end - start) and the root model's file name; get_model (c05.py) is
the root used there.  That an Arpeggio NonTerminal's position/position_end
delimit exactly the matched, non-empty text, that children lie inside their
parent node and that siblings are ordered and disjoint is Arpeggio's (T-ARP):
assumed, validated by a bounded battery with the real parser (below), never
counted as proved.
"""

from txvc.contracts import Unit
from txvc.props import ASSUME, TRUSTED, T_ARP, extra, replay_for

from . import c05, c33, common  # noqa: F401

TRUSTED.setdefault("C06", []).append(T_ARP)
ASSUME.setdefault("C06", []).extend([
    "A-SPAN (T-ARP): NonTerminal.position is the offset of the first matched character of the node, "
    "position_end the offset right after the last one; a child node's span lies inside its parent's; sibling nodes "
    "are ordered and do not overlap; a node created for a common rule matches at least one character or the "
    "object's span is empty (bounded battery only)",
    "A-PLAIN-ATTR: attribute stores on a model object under construction are plain stores (for user classes the "
    "instrumented __setattr__ keeps them in a per-object dict that _end_model_construction copies back: C14)",
])

_COMMON = dict(
    target="textx/model.py::parse_tree_to_objgraph.process_node",
    props=["C06"],
    params={"inst": "obj", "node": "obj:NonTerminal[obj:ParseTreeNode]"},
    requires=["distinct(inst, node)"],
)

Unit(
    "model.process_node.span-start",
    region="assign:inst._tx_position",
    ensures=[
        ("C06-start-is-the-creating-nodes-start", "inst._tx_position == node.position"),
        ("C06-node-untouched", "node.position == old(node.position) and node.position_end == old(node.position_end)"),
    ],
    canary="inst._tx_position == 0",
    **_COMMON,
)

Unit(
    "model.process_node.span-end",
    region="assign:inst._tx_position_end",
    ensures=[
        ("C06-end-is-the-creating-nodes-end", "inst._tx_position_end == node.position_end"),
        ("C06-start-kept", "implies(old(hasattr(inst, '_tx_position')), inst._tx_position == old(inst._tx_position))"),
    ],
    canary="inst._tx_position_end == 0",
    **_COMMON,
)


# --------------------------------------------------------------------------
# end-to-end battery (bounded, never counted as proved): spans on real models
# --------------------------------------------------------------------------
GRAMMAR = r"""
Model: 'model' name=ID groups+=Group[','] tail=Tail?;
Group: 'group' name=ID '{' (items+=Item)* sub=Sub? '}';
Item: Point | Label;
Point: 'point' x=INT y=INT;
Label: 'label' text=STRING;
Sub: '<' inner=Group '>';
Tail: 'tail' vals+=INT['/'];
Comment: /\/\/.*$/;
"""

TEXTS = [
    "model m group g { }",
    "  model  m\n group g { point 1 2 label \"a b\" }  ,group h{<group i { point 3 4 }>}  tail 1/2/3  ",
    "model m // c\n group g {\n\n  point 10 20 // c2\n  point 3 4\n < group k { label 'x' } > }\n",
    "\n\n\tmodel\tm\tgroup\tg\t{\tlabel\t\"q\"\t}\ttail\t7",
    "model m\r\ngroup g {\r\n  point 1 2\r\n  label 'x'\r\n}\r\n, group h { point 5 6 }\r\ntail 4/5\r\n",
]


def _span_problems(mm, text, filename=None):
    from textx import get_children, get_location

    model = mm.model_from_str(text) if filename is None else mm.model_from_file(filename)
    bad = []

    def lc(pos):
        line = text.count("\n", 0, pos) + 1
        col = pos - (text.rfind("\n", 0, pos) + 1) + 1
        return line, col

    for o in get_children(lambda x: True, model):
        s, e = o._tx_position, o._tx_position_end
        sl = text[s:e]
        name = type(o).__name__
        if not (0 <= s < e <= len(text)):
            bad.append(f"{name}: span ({s},{e}) is empty or out of range")
            continue
        if sl != sl.strip() or "//" in sl.split("\n")[0][:0]:
            bad.append(f"{name}: slice {sl!r} does not start at the first / end after the last matched character")
        kw = {"Model": "model", "Group": "group", "Point": "point", "Label": "label", "Sub": "<", "Tail": "tail"}[name]
        if not sl.startswith(kw):
            bad.append(f"{name}: slice {sl!r} does not start with its first token {kw!r}")
        if hasattr(o, "parent"):
            ps, pe = o.parent._tx_position, o.parent._tx_position_end
            if not (ps <= s and e <= pe):
                bad.append(f"{name}: span ({s},{e}) not inside its parent's ({ps},{pe})")
        loc = get_location(o)
        if (loc["line"], loc["col"]) != lc(s) or loc["nchar"] != e - s or loc["filename"] != filename:
            bad.append(f"{name}: get_location {loc} but the span ({s},{e}) starts at line/col {lc(s)}, "
                       f"has {e - s} characters, file {filename!r}")
        for v in vars(o).values():
            if isinstance(v, list) and v and hasattr(v[0], "_tx_position"):
                for a, b in zip(v, v[1:]):
                    if not (a._tx_position_end <= b._tx_position):
                        bad.append(f"{name}: list elements overlap or are out of order: "
                                   f"({a._tx_position},{a._tx_position_end}) ({b._tx_position},{b._tx_position_end})")
    return bad


def _battery(tier):
    import os
    import shutil
    import tempfile

    from textx import metamodel_from_str

    bad, n = [], 0

    # objects of user-supplied classes take the other branch of process_node (attributes kept in
    # _tx_obj_attrs until the model is finished): their spans must be the same
    class Group:
        def __init__(self, parent=None, name=None, items=None, sub=None):
            self.parent, self.name, self.items, self.sub = parent, name, items, sub

    class Point:
        def __init__(self, parent=None, x=None, y=None):
            self.parent, self.x, self.y = parent, x, y

    class Tail:
        def __init__(self, parent=None, vals=None):
            self.parent, self.vals = parent, vals

    for kw in ({}, {"textx_tools_support": True}, {"memoization": True}, {"classes": [Group, Point, Tail]}):
        mm = metamodel_from_str(GRAMMAR, **kw)
        for t in TEXTS:
            n += 1
            bad += [f"{sorted(kw) or 'default'} {t[:25]!r}: {b}" for b in _span_problems(mm, t)]
    d = tempfile.mkdtemp(prefix="txvc-c06-")
    try:
        mm = metamodel_from_str(GRAMMAR)
        for i, t in enumerate(TEXTS):
            p = os.path.join(d, f"m{i}.mdl")
            with open(p, "w", newline="") as f:
                f.write(t)
            # the input of a file load is the text as textX reads it (text mode: universal
            # newlines turn \r\n into \n), not the bytes on disk
            with open(p, encoding="utf-8") as f:
                t_read = f.read()
            n += 1
            bad += [f"file {t[:25]!r}: {b}" for b in _span_problems(mm, t_read, p)]
    finally:
        shutil.rmtree(d, ignore_errors=True)
    return n, bad


@extra("C06")
def spans_battery(tier, seed):
    n, bad = _battery(tier)
    res = {"name": "model.spans.battery", "backend": "native run of the real parser (bounded stand-in)",
           "obligations": 0, "discharged": 0, "bounded": True, "bound": f"{n} (configuration, text) loads",
           "cases": n, "violations": [], "detail": "spans delimit the object's text, nest, are ordered in lists; "
           "get_location agrees with them"}
    if bad:
        res["violations"].append({"unit": "model.spans.battery", "kind": "BOUNDED", "label": "spans-exact-and-nested",
                                  "prop": "C06", "result": "refuted", "text": "; ".join(bad[:5]), "where": "battery",
                                  "path": [], "model": {"failures": bad[:10]}, "native": True, "time": 0, "reason": ""})
    return res


@replay_for("model.spans.battery")
@replay_for("model.process_node.span-start")
@replay_for("model.process_node.span-end")
@replay_for("model.get_location")
def _replay_spans(model, rec):
    n, bad = _battery("quick")
    return bool(bad), ("spans on the real code:\n  " + "\n  ".join(bad[:8])) if bad else \
        f"all object spans of {n} loads are exact, nested and ordered; get_location agrees"
