"""C17 / C18 - model repositories: load each file once, share identity; clean up on failure."""

from txvc.contracts import Ext, Loop, Schema, SpecFn, Unit

from . import c27, common  # noqa: F401

STORE = "self.filename_to_model"
INJECTIVE = (f"forall_val(lambda a, b: implies(a in {STORE} and b in {STORE} and a != b, {STORE}[a] != {STORE}[b]))")

Unit(
    "scoping.ModelRepository.remove_model",
    target="textx/scoping/__init__.py::ModelRepository.remove_model",
    props=["C18"],
    params={"self": "obj:ModelRepository", "model": "obj"},
    requires=[
        # a model is stored under at most one name (key == abspath of its file, or one invented name)
        ("each-model-under-one-key", INJECTIVE),
        # ghost iteration order of the dict covers exactly its keys, truthy file names
        f"forall(lambda j: implies(0 <= j and j < nkeys({STORE}), key_at({STORE}, j) in {STORE}"
        f" and truthy(key_at({STORE}, j))))",
        f"forall_val(lambda k: implies(k in {STORE}, exists_in(0, nkeys({STORE}), lambda j: key_at({STORE}, j) == k)))",
    ],
    modifies=[f"dict({STORE})"],
    loops={f"for:self.filename_to_model.items()": Loop(pure=True, inv=[
        f"implies(filename is None, forall(lambda j: implies(0 <= j and j < _i,"
        f" {STORE}[key_at({STORE}, j)] != model)))",
        f"implies(filename is not None, filename in {STORE} and {STORE}[filename] == model)",
    ])},
    ensures=[
        ("model-is-gone", f"forall_val(lambda k: implies(k in {STORE}, {STORE}[k] != model))"),
        ("other-entries-untouched",
         f"forall_val(lambda k: implies(old(k in {STORE}) and old({STORE}[k]) != model,"
         f" k in {STORE} and {STORE}[k] == old({STORE}[k])))"),
        ("nothing-added", f"forall_val(lambda k: implies(k in {STORE}, old(k in {STORE})))"),
    ],
    canary=f"nkeys({STORE}) == 0",
)

Unit(
    "scoping.GlobalModelRepository.remove_model",
    target="textx/scoping/__init__.py::GlobalModelRepository.remove_model",
    props=["C18"],
    params={"self": "obj:GlobalModelRepository", "model": "obj"},
    calls={"self.all_models.remove_model": Ext("remove_model", raises=None),
           "self.local_models.remove_model": Ext("remove_model", raises=None)},
    ext_protect=["self.*"],
    modifies=["*"],
    ensures=[("removed-from-both-repositories",
              "n_calls('remove_model') == 2 and evn('remove_model', 0).callee == self.all_models"
              " and evn('remove_model', 1).callee == self.local_models"
              " and evn('remove_model', 0).args[0] == model and evn('remove_model', 1).args[0] == model")],
    canary="n_calls('remove_model') == 0",
)

Unit(
    "scoping.GlobalModelRepository.pre_ref_resolution_callback",
    target="textx/scoping/__init__.py::GlobalModelRepository.pre_ref_resolution_callback",
    props=["C17"],
    params={"self": "obj:GlobalModelRepository", "other_model": "obj"},
    requires=["is_str(other_model._tx_filename)"],
    modifies=["*"],
    ensures=[
        # the freshly parsed model is registered BEFORE its own imports are followed: this breaks cycles
        ("model-registered-under-its-absolute-file-name",
         "abspath(other_model._tx_filename) in self.all_models.filename_to_model and "
         "self.all_models.filename_to_model[abspath(other_model._tx_filename)] == other_model"),
        ("model-gets-a-repository-sharing-all-models",
         "created_here(other_model._tx_model_repository) and "
         "other_model._tx_model_repository.all_models == self.all_models and "
         "created_here(other_model._tx_model_repository.local_models)"),
    ],
    canary="nkeys(self.all_models.filename_to_model) == 0",
)
