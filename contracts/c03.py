"""C03 - rule kinds determine what a model contains; textx_isinstance."""

from txvc.contracts import Ext, Loop, SpecFn, Unit

from . import common  # noqa: F401

# conformance of an object to a (possibly abstract) class, from the statement:
# obj's rule is R, R is OBJECT, or obj's rule is reachable from R through
# abstract-rule alternatives (_tx_inh_by)
SpecFn(
    "conf", [("o", "any"), ("c", "any")], "bool", reads=["_tx_inh_by", "_tx_fqn", "__name__", "[]"],
    defn="c.__name__ == 'OBJECT' or isinstance(o, c)"
         " or (hasattr(c, '_tx_fqn') and hasattr(o, '_tx_fqn') and c._tx_fqn == o._tx_fqn)"
         " or (hasattr(c, '_tx_inh_by') and exists_in(0, len(c._tx_inh_by),"
         " lambda j: conf(o, c._tx_inh_by[j])))",
)
# ghost rank that makes the alternatives relation well founded (metamodel
# invariant to be established by _determine_rule_types)
SpecFn("inh_rank", [("c", "any")], "int", reads=["_tx_inh_by", "[]"])
WF_INH = (
    "forall_val(lambda c: implies(is_ref(c) and hasattr(c, '_tx_inh_by'),"
    " inh_rank(c) >= 0 and forall(lambda j: implies(0 <= j and j < len(c._tx_inh_by),"
    " is_ref(c._tx_inh_by[j]) and inh_rank(c._tx_inh_by[j]) < inh_rank(c)))))"
)

Unit(
    "model.textx_isinstance",
    target="textx/model.py::textx_isinstance",
    props=["C03", "C07"],
    params={"obj": "any", "obj_cls": "obj"},
    # Termination needs the alternatives relation (_tx_inh_by) to be acyclic.  That
    # metamodel invariant is NOT a precondition the solver discharges here (a global
    # doubly quantified heap invariant made every query time out); partial correctness
    # only.  Acyclicity is the obligation of lang._determine_rule_types (see below).
    returns="bool",
    ensures=[("conforms-iff", "result == conf(obj, obj_cls)")],
    loops={
        "for:obj_cls._tx_inh_by": Loop(
            inv=["forall(lambda j: implies(0 <= j and j < _i, not conf(obj, obj_cls._tx_inh_by[j])))"],
            preserves=["_tx_inh_by", "_tx_fqn", "__name__", "[]", "parent"], pure=True,
        )
    },
    ghost={"decreases": "inh_rank(obj_cls)"},
    preserves=["_tx_inh_by", "_tx_fqn", "__name__", "[]", "parent"],
    canary="result == True",
)


# --------------------------------------------------------------------------
# process_node, abstract-rule branch: an abstract rule's own class is never instantiated - the node
# yields the result of the FIRST child that is not a Terminal and whose rule is not a match rule, or the
# concatenated text of the children when the matched alternative has only matches
# --------------------------------------------------------------------------
from txvc.props import extra, replay_for  # noqa: E402

from . import process_node as _pn  # noqa: E402,F401  (contract of the recursive call)

PN = "call:model.process_node"
NONMATCH = "(cls({n}) != Terminal and {n}.rule._tx_class._tx_type != 'match')"

NT = "as_list(final_non_terminals)"
Unit(
    "model.process_node.abstract-branch",
    target="textx/model.py::parse_tree_to_objgraph.process_node",
    region="if:mclass._tx_type == RULE_ABSTRACT",
    props=["C03"],
    params={"node": "obj:NonTerminal[obj:ParseTreeNode]", "mclass": "obj", "parser": "obj:TextXModelParser",
            "metamodel": "obj:TextXMetaModel"},
    requires=["is_str(mclass._tx_type)", "len(node) >= 1", "distinct(node, mclass, parser, metamodel)",
              # is_valid() of the parse tree below an abstract rule: every child that is not a Terminal was created
              # by a root rule, which carries its class
              "forall(lambda j: implies(0 <= j and j < len(node) and cls(node[j]) != Terminal,"
              " is_ref(node[j].rule._tx_class) and is_str(node[j].rule._tx_class._tx_type)))"],
    calls={"process_node": "model.process_node",
           "process_match": Ext("process_match", note="conversion of a match-rule subtree to a Python value"),
           "str": Ext("str", pure=True, raises=None, returns="str")},
    loops={"for:non_terminals": Loop(pure=True, inv=[
        "forall(lambda j: implies(0 <= j and j < _i, non_terminals[j].rule._tx_class._tx_type == 'match'))"])},
    returns="any",
    ensures=[
        # (the child handed on is named through the loop variable `n` / the list `non_terminals` of the code: clauses
        # with an existential "there is a first index k" were left undecided by both solvers)
        ("C03-a-non-match-reference-is-preferred-and-it-is-the-first-one",
         "implies(old(mclass._tx_type) == 'abstract' and old(len(node)) > 1 and n_calls('{PN}') == 1,"
         " implies(old(evn('call:model.process_node', 0).args['node'].rule._tx_class._tx_type) != 'match',"
         " result == evn('{PN}', 0).result and evn('call:model.process_node', 0).args['node'] == final_n and cls(final_n) != Terminal))"),
        ("C03-a-match-reference-is-used-only-when-every-reference-is-a-match-rule",
         "implies(old(mclass._tx_type) == 'abstract' and old(len(node)) > 1 and n_calls('{PN}') == 1,"
         " implies(old(evn('call:model.process_node', 0).args['node'].rule._tx_class._tx_type) == 'match',"
         " evn('call:model.process_node', 0).args['node'] == {NT}[0] and result == evn('{PN}', 0).result))"),
        # The statement's other half - "the concatenated text when that alternative has only match rules" - is NOT what
        # the code does when the alternative contains a reference to a match rule: it yields the value of the FIRST such
        # reference (pinned by tests/functional/regressions/test_issue166.py, so not repairable here).  As a clause it
        # was refuted on the real path but left undecided (weak counter-model) on an infeasible one; it is therefore
        # decided by the battery scenario 'only-match-rules-in-the-alternative' and recorded as a known finding.
        ("C03-without-any-rule-reference-the-text-is-concatenated",
         f"implies(old(mclass._tx_type) == 'abstract' and old(len(node)) > 1 and n_calls('{PN}') == 0, is_str(result))"),
        ("C03-single-child-is-passed-through",
         f"implies(old(mclass._tx_type) == 'abstract' and old(len(node)) == 1,"
         f" n_calls('{PN}') == 1 and evn('{PN}', 0).args['node'] == old(node[0]) and result == evn('{PN}', 0).result)"),
        ("C03-match-rule-yields-a-plain-value",
         "implies(old(mclass._tx_type) == 'match', n_calls('process_match') == 1 and result == evn('process_match', 0).result"
         f" and n_calls('{PN}') == 0)"),
    ],
    canary=f"n_calls('{PN}') == 0",
)


def _c03_battery():
    from textx import metamodel_from_str, textx_isinstance

    bad = []
    # rule kinds and what a model contains
    g = """
    Model: exprs+=Expr things+=Thing others*=Other;
    Expr: Paren | Num;
    Paren: '(' Expr ')';
    Num: 'n' name=ID;
    Thing: Marked | Plain;
    Marked: Mark Plain;
    Mark: 'm' INT;
    Plain: 'p' v=INT;
    Other: Tag | 'o' Tag;
    Tag: /#\\w+/;
    """
    mm = metamodel_from_str(g)
    kinds = {c: mm[c]._tx_type for c in ("Model", "Expr", "Paren", "Num", "Thing", "Marked", "Mark", "Plain", "Other", "Tag")}
    want = {"Model": "common", "Expr": "abstract", "Paren": "abstract", "Num": "common", "Thing": "abstract",
            "Marked": "abstract", "Mark": "match", "Plain": "common", "Other": "match", "Tag": "match"}
    if kinds != want:
        bad.append(f"rule kinds {kinds}, expected {want}")
    m = mm.model_from_str("n a ( n b ) ( ( n c ) ) m 1 p 2 p 3 #t o #u")
    names = [getattr(e, "name", e) for e in m.exprs]
    if names != ["a", "b", "c"] or any(type(e).__name__ != "Num" for e in m.exprs):
        bad.append(f"exprs are {[type(e).__name__ for e in m.exprs]} {names}: an abstract rule must yield the object of "
                   "its first non-match reference")
    if [type(t).__name__ for t in m.things] != ["Plain", "Plain"] or [t.v for t in m.things] != [2, 3]:
        bad.append(f"things are {[(type(t).__name__, getattr(t, 'v', t)) for t in m.things]}: 'Marked: Mark Plain' must "
                   "yield the Plain object, not the text of the match rule Mark")
    if m.others != ["#t", "o#u"]:
        bad.append(f"match rules must yield plain values: others == {m.others!r}")
    from textx import get_children

    for o in get_children(lambda x: True, m):
        if type(o).__name__ not in ("Model", "Num", "Plain"):
            bad.append(f"the model contains an instance of {type(o).__name__}, a rule without assignments")
    # textx_isinstance: own rule, OBJECT, reachable through abstract alternatives - also on recursive abstract rules
    num, plain = m.exprs[1], m.things[0]
    table = [(num, "Num", True), (num, "Expr", True), (num, "Paren", True), (num, "OBJECT", True), (num, "Thing", False),
             (num, "Plain", False), (plain, "Thing", True), (plain, "Marked", True), (plain, "Expr", False),
             (plain, "Paren", False)]
    import sys

    old = sys.getrecursionlimit()
    sys.setrecursionlimit(400)
    try:
        for o, c, exp in table:
            try:
                got = textx_isinstance(o, mm[c])
            except RecursionError:
                got = "RecursionError"
            if got != exp:
                bad.append(f"textx_isinstance({type(o).__name__} object, {c}) == {got}, expected {exp}")
        # a directly recursive abstract rule
        mm2 = metamodel_from_str("Model: a=A other=Other; A: B | '(' A ')'; B: 'b' name=ID; Other: 'o' name=ID;")
        m2 = mm2.model_from_str("(( b x )) o y")
        if type(m2.a).__name__ != "B":
            bad.append(f"recursive abstract rule yields {type(m2.a).__name__}")
        for o, c, exp in ((m2.a, "A", True), (m2.other, "A", False), (m2.other, "B", False), (m2.a, "B", True)):
            try:
                got = textx_isinstance(o, mm2[c])
            except RecursionError:
                got = "RecursionError"
            if got != exp:
                bad.append(f"recursive abstract rule: textx_isinstance({type(o).__name__} object, {c}) == {got}, expected {exp}")
    finally:
        sys.setrecursionlimit(old)
    return bad


def _c03_only_matches():
    """the alternative that matched has only match rules: the statement says the concatenated text"""
    from textx import metamodel_from_str

    mm = metamodel_from_str("Model: x=A; A: M N | C; M: 'm' INT; N: 'n' INT; C: 'c' v=INT;")
    got = mm.model_from_str("m 1 n 2").x
    return [] if got == "m1n2" else [f"'A: M N | C' on 'm 1 n 2' yields {got!r}, the concatenated text is 'm1n2'"]


@extra("C03")
def rule_kinds_battery(tier, seed):
    res = {"name": "lang.rule-kinds.battery", "backend": "native run of the real metamodel and loader (bounded stand-in)",
           "obligations": 0, "discharged": 0, "bounded": True,
           "bound": "3 grammars (nested / recursive abstract rules, match rules inside alternatives), 14 conformance queries",
           "cases": 17, "violations": [], "detail": "rule kinds, classes of model objects, abstract-rule results, textx_isinstance"}
    bad = _c03_battery()
    rec = [b for b in bad if b.startswith("recursive abstract rule: textx_isinstance")]
    other = [b for b in bad if b not in rec]
    for label, items in (("rule-kinds-and-conformance", other),
                         ("textx_isinstance-on-a-directly-recursive-abstract-rule", rec),
                         ("only-match-rules-in-the-alternative", _c03_only_matches())):
        if items:
            res["violations"].append({"unit": "lang.rule-kinds.battery", "kind": "BOUNDED", "label": label, "prop": "C03",
                                      "result": "refuted", "text": "; ".join(items[:4]), "where": "battery", "path": [],
                                      "model": {"failures": items[:8]}, "native": True, "time": 0, "reason": ""})
    return res


def _replay_c03(model, rec):
    bad = _c03_battery()
    return bool(bad), "; ".join(bad[:4]) or "rule-kind battery passes"


for _u in ("lang.rule-kinds.battery", "model.process_node.abstract-branch", "model.textx_isinstance"):
    replay_for(_u)(_replay_c03)
