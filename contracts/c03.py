"""C03 - rule kinds determine what a model contains; textx_isinstance."""

from txvc.contracts import Ext, Loop, SpecFn, Unit

from . import common  # noqa: F401

# conformance of an object to a (possibly abstract) class, from the statement:
# obj's rule is R, R is OBJECT, or obj's rule is reachable from R through
# abstract-rule alternatives (_tx_inh_by)
SpecFn(
    "conf", [("o", "any"), ("c", "any")], "bool", reads=["_tx_inh_by", "_tx_fqn", "__name__", "[]"],
    defn="c.__name__ == 'OBJECT' or isinstance(o, c)"
         " or (hasattr(c, '_tx_fqn') and hasattr(o, '_tx_fqn') and c._tx_fqn == o._tx_fqn)"
         " or (hasattr(c, '_tx_inh_by') and exists_in(0, len(c._tx_inh_by),"
         " lambda j: conf(o, c._tx_inh_by[j])))",
)
# ghost rank that makes the alternatives relation well founded (metamodel
# invariant to be established by _determine_rule_types)
SpecFn("inh_rank", [("c", "any")], "int", reads=["_tx_inh_by", "[]"])
WF_INH = (
    "forall_val(lambda c: implies(is_ref(c) and hasattr(c, '_tx_inh_by'),"
    " inh_rank(c) >= 0 and forall(lambda j: implies(0 <= j and j < len(c._tx_inh_by),"
    " is_ref(c._tx_inh_by[j]) and inh_rank(c._tx_inh_by[j]) < inh_rank(c)))))"
)

Unit(
    "model.textx_isinstance",
    target="textx/model.py::textx_isinstance",
    props=["C03", "C07"],
    params={"obj": "any", "obj_cls": "obj"},
    # Termination needs the alternatives relation (_tx_inh_by) to be acyclic.  That
    # metamodel invariant is NOT a precondition the solver discharges here (a global
    # doubly quantified heap invariant made every query time out); partial correctness
    # only.  Acyclicity is the obligation of lang._determine_rule_types (see below).
    returns="bool",
    ensures=[("conforms-iff", "result == conf(obj, obj_cls)")],
    loops={
        "for:obj_cls._tx_inh_by": Loop(
            inv=["forall(lambda j: implies(0 <= j and j < _i, not conf(obj, obj_cls._tx_inh_by[j])))"],
            preserves=["_tx_inh_by", "_tx_fqn", "__name__", "[]", "parent"], pure=True,
        )
    },
    ghost={"decreases": "inh_rank(obj_cls)"},
    preserves=["_tx_inh_by", "_tx_fqn", "__name__", "[]", "parent"],
    canary="result == True",
)
