"""C21 - autokwd: identifier-like string literals match on word boundaries only.

The deciding code is TextXVisitor.visit_str_match: which Arpeggio matcher is
built for a grammar string literal.  What a matcher then does with the input
(RegExMatch with a trailing \\b refuses a following word character, StrMatch
compares text) is Arpeggio + `re` (T-ARP, A-RE) and is stated as an assumption.
"""

from txvc.contracts import Ext, Schema, SpecFn, Unit

from . import common  # noqa: F401

# length of the match of the keyword pattern [^\d\W]\w* at the start of s, -1 if it
# does not match there (what `re` computes: uninterpreted, A-RE)
SpecFn("kwlen", [("s", "str")], "int", facts=["kwlen(s) >= -1", "kwlen(s) <= len(s)"])
SpecFn("spanv", [("bound_span", "any")], "tuple")
# decode_escapes(s): uninterpreted function of the literal's text
SpecFn("decoded", [("s", "str")], "str")

# is_valid() of the visitor: it holds the metamodel being built (whose __init__ stores the autokwd
# and ignore_case parameters, of any truthiness) and the compiled keyword pattern
Schema("TextXMetaModelFlags", bases=("TextXMetaModel",), fields={"autokwd": "any", "ignore_case": "any"})
Schema("TextXVisitor", fields={"metamodel": "obj:TextXMetaModelFlags", "keyword_regex": "obj"})

RAW = "children[0][1:-1]"
# all clauses speak about the entry state: the matcher constructors are external calls
LIT = f"old((decoded({RAW}) if '\\\\' in {RAW} else {RAW}) if len(children) > 0 else '')"
# "looks like an identifier": the keyword pattern matches the whole literal
IDLIKE = f"(kwlen({LIT}) >= 0 and kwlen({LIT}) == len({LIT}))"
AUTOKWD = "old(truthy(self.metamodel.autokwd))"
KW = f"({AUTOKWD} and {IDLIKE})"

Unit(
    "lang.TextXVisitor.visit_str_match",
    target="textx/lang.py::TextXVisitor.visit_str_match",
    props=["C21"],
    params={"self": "obj:TextXVisitor", "node": "any", "children": "list[str]"},
    calls={
        "decode_escapes": Ext("decode_escapes", returns="str", raises=["=UnicodeDecodeError:ValueError"], pure=True,
                              ensures=["result == decoded(a0)"],
                              note="unicode-escape decoding of the literal (pure function of its text)"),
        "self.keyword_regex.match": Ext(
            "kwmatch", raises=None, pure=True,
            ensures=["truthy(result) == (kwlen(a0) >= 0)",
                     "implies(truthy(result), spanv(result.span) == (0, kwlen(a0)))"],
            note="re: keyword_regex is re.compile(r'[^\\d\\W]\\w*'); match(s) is None or a match object "
                 "whose span is (0, length of the matched prefix) (A-RE)"),
        "match.span": Ext("span", returns="tuple", raises=None, pure=True, ensures=["result == spanv(callee)"]),
        "RegExMatch": Ext("RegExMatch", returns="obj:RegExMatch", raises=None,
                          note="arpeggio.RegExMatch(to_match, ignore_case=, str_repr=) (T-ARP)"),
        "regex_match.compile": Ext("compile", raises=None, returns="none",
                                   note="compiles the pattern of the RegExMatch (T-ARP)"),
        "StrMatch": Ext("StrMatch", returns="obj:StrMatch", raises=None,
                        note="arpeggio.StrMatch(to_match, ignore_case=) (T-ARP)"),
        "self.grammar_parser.pos_to_linecol": Ext("pos_to_linecol", returns="tuple", raises=None, pure=True,
                                                  ensures=["result == (result[0], result[1])"]),
    },
    modifies=["*"],
    ensures=[
        # identifier-like literal under autokwd: a compiled regular expression `literal\b`,
        # which (A-RE) cannot match when the next input character is a word character
        ("C21-keyword-like-literal-becomes-a-regex-matcher",
         f"implies({KW}, n_calls('RegExMatch') == 1 and n_calls('StrMatch') == 0"
         " and result == evn('RegExMatch', 0).result)"),
        ("C21-keyword-regex-is-the-literal-plus-word-boundary",
         f"implies({KW}, evn('RegExMatch', 0).args[0] == {LIT} + '\\\\b')"),
        ("C21-keyword-regex-prints-as-the-literal",
         f"implies({KW}, evn('RegExMatch', 0).kwargs['str_repr'] == {LIT})"),
        ("C21-keyword-regex-follows-ignore-case",
         f"implies({KW}, evn('RegExMatch', 0).kwargs['ignore_case'] == old(self.metamodel.ignore_case))"),
        ("C21-keyword-regex-is-compiled",
         f"implies({KW}, n_calls('compile') == 1 and evpos('compile', 0) > evpos('RegExMatch', 0))"),
        # every other literal, and every literal without autokwd: the plain string matcher on the
        # literal's text -- the very construction made when autokwd is off
        ("C21-other-literals-get-the-plain-string-matcher",
         f"implies(not {KW}, n_calls('StrMatch') == 1 and n_calls('RegExMatch') == 0 and n_calls('compile') == 0"
         " and result == evn('StrMatch', 0).result)"),
        ("C21-string-matcher-on-the-literal-text",
         f"implies(not {KW}, evn('StrMatch', 0).args[0] == {LIT})"),
        ("C21-string-matcher-follows-ignore-case",
         f"implies(not {KW}, evn('StrMatch', 0).kwargs['ignore_case'] == old(self.metamodel.ignore_case))"),
        ("C21-autokwd-off-never-consults-the-keyword-pattern",
         f"implies(not {AUTOKWD}, n_calls('kwmatch') == 0)"),
    ],
    canary="n_calls('StrMatch') == 1",
)


# ---------------------------------------------------------------------------------------------
# What the proof leaves to Arpeggio and `re` (assumed), validated on the real code by a bounded
# enumeration that is reported separately and never counted as proved; the same battery is the
# native replay of a failed obligation of the unit above.
from txvc.props import ASSUME, T_ARP, TRUSTED, extra, replay_for  # noqa: E402

TRUSTED["C21"] = [T_ARP]
ASSUME["C21"] = [
    "A-RE: for a literal L matched completely by [^\\d\\W]\\w* the pattern L needs no escaping, and "
    "re.compile(L + r'\\b') matches at a position exactly when the text continues with L (case-insensitively "
    "under ignore_case) and the character after it is not a word character; arpeggio.StrMatch(L) matches "
    "exactly when the text continues with L. Hence the two matchers agree whenever the literal is not "
    "immediately followed by a word character (validated by the bounded battery, not proved).",
    "self.keyword_regex is the pattern compiled in TextXVisitor.__init__ (re.compile(r'[^\\d\\W]\\w*', flags)); "
    "match()/span() are modelled by the uninterpreted prefix length kwlen",
    "decode_escapes is a pure function of the literal's text",
]

_LITERALS = ["a", "ab", "_a", "a1", "B", "ét", "1a", "+", "a+", "+a", "a b", "a-b", "-"]
_FOLLOW = ["", " ", "a", "1", "_", "é", "+", "-", "\n"]


def _battery(literals, follows, limit=None):
    """(cases, [what failed]) on the real code: grammar `Model: '<lit>' rest=/(.|\\n)*/;`, input lit+follow+tail."""
    import re

    from textx import metamodel_from_str
    from textx.exceptions import TextXSyntaxError

    bad, cases = [], 0
    for lit in literals:
        idlike = re.fullmatch(r"[^\d\W]\w*", lit) is not None
        for ic in (False, True):
            grammar = f"Model: '{lit}' rest=/(.|\\n)*/;"
            mm_on = metamodel_from_str(grammar, autokwd=True, ignore_case=ic)
            mm_off = metamodel_from_str(grammar, autokwd=False, ignore_case=ic)
            for fol in follows:
                text = lit + fol + ("x" if fol else "")
                cases += 1

                def load(mm):
                    try:
                        return ("ok", mm.model_from_str(text).rest)
                    except TextXSyntaxError:
                        return ("syntax-error", None)

                on, off = load(mm_on), load(mm_off)
                glued = idlike and fol != "" and re.match(r"\w", fol) is not None
                what = None
                if off[0] != "ok":
                    what = f"without autokwd the input is rejected ({off})"
                elif glued and on[0] == "ok":
                    what = "identifier-like literal matched although a word character follows"
                elif not glued and on != off:
                    what = f"autokwd changed the outcome: {on} vs {off} without"
                if what:
                    bad.append(f"literal {lit!r} ignore_case={ic} input {text!r}: {what}")
                    if limit and len(bad) >= limit:
                        return cases, bad
    return cases, bad


@replay_for("lang.TextXVisitor.visit_str_match")
def _replay_visit_str_match(model, rec):
    cases, bad = _battery(_LITERALS, _FOLLOW, limit=5)
    if bad:
        return True, "autokwd battery on the real code:\n  " + "\n  ".join(bad)
    return False, f"autokwd battery: {cases} literal/input cases behave as stated"


@extra("C21")
def autokwd_battery(tier, seed):
    """BOUNDED stand-in for A-RE / T-ARP (never counted as proved)."""
    lits = _LITERALS if tier == "quick" else _LITERALS + ["abc", "a_", "__", "A1b", "a.b", "(", "a(", "é", "if"]
    cases, bad = _battery(lits, _FOLLOW)
    violations = [{"unit": "lang.autokwd-battery", "kind": "BOUNDED", "label": "matchers-behave-as-assumed",
                   "path": [], "where": "bounded battery", "text": b, "model": {"case": b}, "native": True}
                  for b in bad[:3]]
    return {"name": "lang.autokwd-battery", "backend": "enumeration with the real metamodel and parser (bounded)",
            "obligations": 0, "discharged": 0, "bounded": True,
            "bound": f"{len(lits)} literals x 2 ignore_case x {len(_FOLLOW)} following texts",
            "cases": cases, "violations": violations,
            "samples": [{"literal": "ab", "input": "abax", "expected": "syntax error with autokwd, accepted without"}],
            "detail": f"{cases} literal/input cases compared with and without autokwd"}
