"""ReferenceResolver.resolve_one_step - the central unit of reference
resolution.  Serves C07 (default resolution / builtins / unknown object), C28
(error location), C32 (provider precedence), C34 (editor positions), C08/C09
(ordering and accounting across the loop)."""

from txvc.contracts import Ext, Loop, SpecFn, Unit

from . import c03, c05, c33, common  # noqa: F401

PLAINNAME_UNIT = 'providers.PlainName.__call__'  # defined in c07.py

PROTECT = [
    "self.*", "self.parser.*", "list(new_crossrefs)", "list(self.delayed_crossrefs)",
    "crossref.*", "attr.*", "metamodel.*", "dict(metamodel.scope_providers)",
    "list(self.pos_crossref_list)",
    "dict(self._resolved_list_positions)",
    "list(self._resolved_list_positions[(id(obj), attr.name)])",
    "list(getattr(obj, attr.name))",
]
PROVIDER = Ext(
    "provider",
    note="user scope provider: returns None, a Postponed or an object; may raise anything; "
         "does not write the resolver and its bookkeeping, parser._crossrefs, the cross-ref, the meta attribute, "
         "the metamodel's provider table, the tool-support list or the reference list being filled (assumed)",
    protect=PROTECT,
)

K1 = "(obj.__class__.__name__ + '.' + attr.name)"
K2 = "('*.' + attr.name)"
K3 = "(obj.__class__.__name__ + '.*')"
K4 = "'*.*'"
SP = "metamodel.scope_providers"
# the registered provider chosen by the documented precedence (None: the default provider)
REGISTERED = (
    f"({SP}[{K1}] if {K1} in {SP} else ({SP}[{K2}] if {K2} in {SP} else "
    f"({SP}[{K3}] if {K3} in {SP} else ({SP}[{K4}] if {K4} in {SP} else None))))"
)
ANY_REGISTERED = f"({K1} in {SP} or {K2} in {SP} or {K3} in {SP} or {K4} in {SP})"
OWN = "old(root_of(obj) == self.model)"

STORE_REGION = "if:attr.mult in [MULT_ONEORMORE, MULT_ZEROORMORE]"
SKEY = "(id(obj), attr.name)"
SPOS = f"self._resolved_list_positions[{SKEY}]"
SMANY = "(attr.mult == '1..*' or attr.mult == '0..*')"
R3P = (
    f"implies({SKEY} in self._resolved_list_positions, is_list({SPOS})"
    f" and len(as_list({SPOS})) <= len(as_list(attr_value))"
    f" and {SPOS} != attr_value"
    f" and forall(lambda j: implies(0 <= j and j < len(as_list({SPOS})), is_int(as_list({SPOS})[j])))"
    f" and forall(lambda i, j: implies(0 <= i and i < j and j < len(as_list({SPOS})),"
    f" as_list({SPOS})[i] <= as_list({SPOS})[j])))"
)
NP0 = f"(old(len(as_list({SPOS}))) if old({SKEY} in self._resolved_list_positions) else 0)"
P1 = f"as_list({SPOS})"
L1 = "as_list(attr_value)"

# C08 - the statement that stores a resolved target.  For a list attribute the resolver keeps, per
# (object, attribute), the sorted input positions of the references already resolved into the list;
# the last len(positions) elements of the list are their targets, in that order.  A target is inserted
# at the place its reference's position has among them - whatever order the provider let them resolve in.
Unit(
    "model.resolve_one_step.store",
    target="textx/model.py::ReferenceResolver.resolve_one_step",
    region=STORE_REGION,
    props=["C08", "C07"],
    params={"self": "obj:ReferenceResolver", "obj": "obj", "attr": "obj:MetaAttr", "crossref": "obj:ObjCrossRef",
            "attr_value": "any", "resolved": "any"},
    requires=[
        "distinct(self, obj, attr, crossref, self._resolved_list_positions)",
        "is_int(crossref.position)",
        f"implies({SMANY}, is_list(attr_value) and attr_value != self._resolved_list_positions)",
        ("R3-recorded-positions-sorted-ints-not-longer-than-the-list", f"implies({SMANY}, {R3P})"),
    ],
    calls={"attr_value.insert": "list.insert", "positions.insert": "list.insert"},
    # frame (proved for this region, relied upon where it is used by contract): only the attribute / the
    # list being filled and the resolver's position bookkeeping change
    modifies=["obj.*", "list(attr_value)", "dict(self._resolved_list_positions)",
              "list(self._resolved_list_positions[(id(obj), attr.name)])"],
    ensures=[
        ("C07-single-valued-attribute-gets-the-target",
         f"implies(not old({SMANY}), getattr(obj, old(attr.name)) == resolved)", "C07|C08"),
        ("C08-one-element-and-one-position-more",
         f"implies(old({SMANY}), len({L1}) == old(len({L1})) + 1 and {SKEY} in self._resolved_list_positions"
         f" and len({P1}) == {NP0} + 1)", "C08"),
        # (the witness of "there is a place k" is the index the code computed: final_idx)
        ("C08-target-stands-where-its-reference-stands-among-the-resolved-ones",
         f"implies(old({SMANY}), 0 <= final_idx and final_idx < len({P1}) and {P1}[final_idx] == crossref.position"
         f" and {L1}[len({L1}) - len({P1}) + final_idx] == resolved"
         f" and forall(lambda j: implies(0 <= j and j < final_idx, {P1}[j] <= crossref.position))"
         f" and forall(lambda j: implies(final_idx < j and j < len({P1}), {P1}[j] > crossref.position)))", "C08"),
        ("C08-recorded-positions-stay-sorted-ints-not-longer-than-the-list",
         f"implies(old({SMANY}), len({P1}) <= len({L1})"
         f" and forall(lambda j: implies(0 <= j and j < len({P1}), is_int({P1}[j])))"
         f" and forall(lambda i, j: implies(0 <= i and i < j and j < len({P1}), {P1}[i] <= {P1}[j])))", "C08"),
        ("C08-elements-before-the-insertion-point-keep-their-place",
         f"implies(old({SMANY}), forall(lambda j: implies(0 <= j and j < old(len({L1})) - {NP0},"
         f" {L1}[j] == old({L1}[j]))))", "C08"),
    ],
    canary="len(as_list(attr_value)) == 0",
)

Unit(
    "model.resolve_one_step.body",
    target="textx/model.py::ReferenceResolver.resolve_one_step",
    region="body:for:current_crossrefs",
    props=["C32", "C07", "C28", "C34", "C09", "C08"],
    params={
        "self": "obj:ReferenceResolver",
        "metamodel": "obj:TextXMetaModel",
        "obj": "obj", "attr": "obj:MetaAttr", "crossref": "obj:ObjCrossRef",
        "new_crossrefs": "list", "default_scope": "obj:PlainName",
        "resolved_crossref_count": "int",
    },
    requires=[
        "metamodel == self.parser.metamodel",
        "new_crossrefs != self.delayed_crossrefs and new_crossrefs != self.pos_crossref_list"
        " and self.delayed_crossrefs != self.pos_crossref_list",
        "depth(obj) >= 0",
        "is_str(obj.__class__.__name__)",
        "default_scope.multi_metamodel_support",  # DefaultScopeProvider() is created with the default
        # the cross-ref records where its text ends (established by process_node)
        "is_int(crossref.position_end)",
        # model objects, meta attributes, cross-refs and the resolver machinery are different objects
        "distinct(self, self.parser, metamodel, obj, attr, crossref, default_scope, new_crossrefs,"
        " self.delayed_crossrefs, self.pos_crossref_list, metamodel.scope_providers, self._resolved_list_positions)",
        "getattr(obj, attr.name) != self.pos_crossref_list and getattr(obj, attr.name) != new_crossrefs"
        " and getattr(obj, attr.name) != self.delayed_crossrefs",
        # R3': the recorded positions of a list attribute are a sorted list of ints, not longer than the list,
        # and a different object from every other list the step touches (established by this step itself)
        "implies(((id(obj), attr.name) in self._resolved_list_positions), is_list(self._resolved_list_positions[(id(obj), attr.name)])"
        " and len(as_list(self._resolved_list_positions[(id(obj), attr.name)])) <= len(as_list(getattr(obj, attr.name)))"
        " and self._resolved_list_positions[(id(obj), attr.name)] != getattr(obj, attr.name)"
        " and forall(lambda j: implies(0 <= j and j < len(as_list(self._resolved_list_positions[(id(obj), attr.name)])),"
        " is_int(as_list(self._resolved_list_positions[(id(obj), attr.name)])[j])))"
        " and forall(lambda i, j: implies(0 <= i and i < j and j < len(as_list(self._resolved_list_positions[(id(obj), attr.name)])),"
        " as_list(self._resolved_list_positions[(id(obj), attr.name)])[i] <= as_list(self._resolved_list_positions[(id(obj), attr.name)])[j])))",
        "is_int(crossref.position)",
        # (stated for the slot of the bookkeeping dict whether or not the key is present: an absent key denotes an
        # unobservable value, which must not be confused with one of the lists of this step)
        "self._resolved_list_positions[(id(obj), attr.name)] != new_crossrefs"
        " and self._resolved_list_positions[(id(obj), attr.name)] != self.delayed_crossrefs"
        " and self._resolved_list_positions[(id(obj), attr.name)] != self.pos_crossref_list",
        # R3: a many-valued reference attribute holds a list (established by _init_obj_attrs)
        "implies(attr.mult == '1..*' or attr.mult == '0..*', is_list(getattr(obj, attr.name)))",
    ],
    # the statement that stores the target (positional insert into list attributes) is a unit of its own
    regions={STORE_REGION: "model.resolve_one_step.store"},
    calls={
        "crossref.scope_provider": PROVIDER,
        "metamodel.scope_providers[attr_ref]": PROVIDER,
        "default_scope": "providers.PlainName.__call__",
        "attr_value.append": "list.append",
        "attr_value.insert": "list.insert",
        "positions.insert": "list.insert",
        "self.parser.dprint": Ext("dprint", pure=True, raises=None, returns="none"),
        "self.parser.pos_to_linecol": Ext(
            "pos_to_linecol", returns="tuple", raises=None, pure=True,
            ensures=["result == linecol(callee, a0)"]),
        # any other run-time callable invoked by the body can only be a scope provider
        "*": PROVIDER,
    },
    ensures=[
        # ---- C32: which provider is applied
        ("C32-foreign-model-no-provider",
         f"implies(not ({OWN}), n_calls('provider') == 0 and n_calls('call:providers.PlainName.__call__') == 0)",
         "C32"),
        ("C32-grammar-rrel-first",
         f"implies({OWN} and crossref.scope_provider is not None, n_calls('provider') == 1"
         " and n_calls('call:providers.PlainName.__call__') == 0"
         " and evn('provider', 0).callee == crossref.scope_provider)", "C32"),
        ("C32-registered-precedence",
         f"implies({OWN} and crossref.scope_provider is None and {ANY_REGISTERED},"
         " n_calls('provider') == 1 and n_calls('call:providers.PlainName.__call__') == 0"
         f" and evn('provider', 0).callee == before(evn('provider', 0), {REGISTERED}))", "C32"),
        ("C32-default-otherwise",
         f"implies({OWN} and crossref.scope_provider is None and not {ANY_REGISTERED},"
         " n_calls('provider') == 0 and n_calls('call:providers.PlainName.__call__') == 1)", "C32"),
        ("C32-provider-arguments",
         "implies(n_calls('provider') == 1, evn('provider', 0).args[0] == obj"
         " and evn('provider', 0).args[1] == attr and evn('provider', 0).args[2] == crossref)", "C32"),
        # ---- C07 / C09: what the reference resolves to and where it is recorded
        ("C07-own-reference-never-left-unresolved", f"implies({OWN}, FINAL is not None)", "C07"),
        ("C07-single-valued-attribute-gets-target",
         f"implies({OWN} and not POSTPONED and not MANY, getattr(obj, attr.name) == FINAL)", "C07"),
        ("C07-list-attribute-gets-the-target-inserted-once",
         f"implies({OWN} and not POSTPONED and MANY,"
         " len(LIST) == after(PEV, len(LIST)) + 1"
         " and 0 <= len(LIST) - len(POSITIONS) + final_idx and len(LIST) - len(POSITIONS) + final_idx < len(LIST)"
         " and LIST[len(LIST) - len(POSITIONS) + final_idx] == FINAL)", "C07|C08"),
        ("C09-count-and-queues",
         f"final_resolved_crossref_count == resolved_crossref_count + (1 if ({OWN} and not POSTPONED) else 0)"
         f" and len(new_crossrefs) == old(len(new_crossrefs)) + (0 if ({OWN} and not POSTPONED) else 1)"
         f" and len(self.delayed_crossrefs) == old(len(self.delayed_crossrefs)) + (1 if ({OWN} and POSTPONED) else 0)"
         f" and implies(not ({OWN} and not POSTPONED), new_crossrefs[-1] == (obj, attr, crossref))"
         f" and implies({OWN} and POSTPONED, self.delayed_crossrefs[-1] == (obj, attr, crossref))", "C09"),
        ("C09-postponed-reference-leaves-attribute-alone",
         f"implies({OWN} and POSTPONED and not MANY, getattr(obj, attr.name) == after(PEV, getattr(obj, attr.name)))",
         "C09"),
        # ---- C34: one entry per resolved reference with the target's span
        ("C34-entry-iff-resolved-by-provider",
         f"len(self.pos_crossref_list) == old(len(self.pos_crossref_list)) + "
         f"(1 if ({OWN} and PR is not None and not PR_POSTPONED and metamodel.textx_tools_support) else 0)",
         "C34"),
        ("C34-entry-fields",
         f"implies({OWN} and PR is not None and not PR_POSTPONED and metamodel.textx_tools_support,"
         " self.pos_crossref_list[-1].ref_pos_start == crossref.position"
         " and self.pos_crossref_list[-1].ref_pos_end == crossref.position_end"
         " and self.pos_crossref_list[-1].name == crossref.obj_name"
         f" and self.pos_crossref_list[-1].def_pos_start == after(PEV, PR._tx_position)"
         f" and self.pos_crossref_list[-1].def_pos_end == after(PEV, PR._tx_position_end)"
         f" and self.pos_crossref_list[-1].def_file_name == after(PEV, root_of(PR)._tx_filename))",
         "C34"),
    ],
    raises={
        "TextXSemanticError": [
            # an error created here (not one passed through from a provider)
            ("C07-unknown-object-kind",
             f"implies(created_here(exc), exc.err_type == 'Unknown object' and {OWN} and FINAL is None)", "C07"),
            ("C28-unknown-object-location",
             "implies(created_here(exc), exc.filename == self.model._tx_filename"
             " and (exc.line, exc.col) == linecol(self.parser.pos_to_linecol, crossref.position))", "C28"),
        ],
        "*": [
            ("C07-only-providers-and-unknown-object-raise",
             "created_here(exc) == is_instance(exc, 'TextXSemanticError') or not created_here(exc)", "C07"),
        ],
    },
    canary="n_calls('provider') == 1",
    ghost={"model_exprs": {
        "has_k1": f"{K1} in {SP}", "has_k2": f"{K2} in {SP}", "has_k3": f"{K3} in {SP}", "has_k4": f"{K4} in {SP}",
        "truthy_k1": f"truthy({SP}[{K1}])", "truthy_k2": f"truthy({SP}[{K2}])",
        "truthy_k3": f"truthy({SP}[{K3}])", "truthy_k4": f"truthy({SP}[{K4}])",
        "grammar_rrel": "crossref.scope_provider is not None",
        "tools_support": "metamodel.textx_tools_support",
    }},
)


Unit(
    "model.resolve_one_step",
    target="textx/model.py::ReferenceResolver.resolve_one_step",
    props=["C34", "C09"],
    params={"self": "obj:ReferenceResolver"},
    requires=["distinct(self, self.parser, self.parser.metamodel, self.pos_crossref_list, self.parser._crossrefs)"],
    modifies=["*"],
    loops={
        "for:current_crossrefs": Loop(
            inv=[], modifies=["*"], body_unit="model.resolve_one_step.body",
            protect=["self.parser", "self.pos_crossref_list", "self.model", "self.parser.metamodel"],
        )
    },
    calls={},
    returns="tuple",
    ensures=[
        ("C34-list-ordered-by-start",
         "forall(lambda i, j: implies(0 <= i and i < j and j < len(self.pos_crossref_list),"
         " self.pos_crossref_list[i].ref_pos_start <= self.pos_crossref_list[j].ref_pos_start))", "C34"),
        ("C09-returns-count-and-delayed",
         "result == (final_resolved_crossref_count, self.delayed_crossrefs)"
         " and self.parser._crossrefs == final_new_crossrefs", "C09"),
    ],
    canary="len(self.pos_crossref_list) == 0",
)


# --------------------------------------------------------------------------
# macros used in the clauses above (expanded textually, longest name first)
# --------------------------------------------------------------------------
import re as _re  # noqa: E402

from txvc.contracts import REGISTRY as _REG  # noqa: E402

_PEV = "(evn('provider', 0) if n_calls('provider') == 1 else evn('call:providers.PlainName.__call__', 0))"
_PR = ("(evn('provider', 0).result if n_calls('provider') == 1 else "
       "evn('call:providers.PlainName.__call__', 0).result)")
_BUILTIN_OK = (f"after({_PEV}, truthy(metamodel.builtins) and crossref.obj_name in as_dict(metamodel.builtins)"
               " and conf(as_dict(metamodel.builtins)[crossref.obj_name], crossref.cls))")
_FINAL = (f"({_PR} if {_PR} is not None else "
          f"(after({_PEV}, as_dict(metamodel.builtins)[crossref.obj_name]) if {_BUILTIN_OK} else None))")
_KEY = "(id(obj), attr.name)"
_MACROS = {
    "NP_BEFORE": f"(after(PEV, len(as_list(self._resolved_list_positions[{_KEY}]))) if "
                 f"after(PEV, {_KEY} in self._resolved_list_positions) else 0)",
    "POSITIONS": f"as_list(self._resolved_list_positions[{_KEY}])",
    "LIST": "as_list(old(getattr(obj, attr.name)))",
    "PR_POSTPONED": f"(is_ref({_PR}) and cls({_PR}) == Postponed)",
    "POSTPONED": f"(is_ref({_FINAL}) and cls({_FINAL}) == Postponed)",
    "FINAL": _FINAL,
    "MANY": "(attr.mult == '1..*' or attr.mult == '0..*')",
    "PEV": _PEV,
    "PR": _PR,
}


def _expand(text):
    for k in sorted(_MACROS, key=len, reverse=True):
        text = _re.sub(r"\b%s\b" % k, lambda m, _k=k: _MACROS[_k], text)
    return text


def _expand_unit(u):
    def ex(cl):
        if isinstance(cl, tuple):
            return (cl[0], _expand(cl[1])) + tuple(cl[2:])
        return _expand(cl)

    u.ensures = [ex(c) for c in u.ensures]
    u.raises = {k: [ex(c) for c in v] for k, v in u.raises.items()}


_expand_unit(_REG["model.resolve_one_step.body"])


# --------------------------------------------------------------------------
# native replay: an end-to-end load with one recording provider per registered key
# --------------------------------------------------------------------------
from txvc.props import replay_for  # noqa: E402


@replay_for("model.resolve_one_step.body")
def _replay_body(model, rec):
    if rec.get("property") == "C07":
        from .c07 import _replay_plainname

        return _replay_plainname(model, rec)
    if rec.get("property") == "C08":
        from .c08 import _replay_c08

        return _replay_c08(model, rec)
    from textx import metamodel_from_str

    keys = ["Ref.r", "*.r", "Ref.*", "*.*"]
    present = [bool(model.get(f"has_k{i + 1}")) is True and model.get(f"has_k{i + 1}") is True for i in range(4)]
    truthy = [model.get(f"truthy_k{i + 1}") is not False for i in range(4)]
    grammar = model.get("grammar_rrel") is True
    called = []

    class Provider:
        def __init__(self, key, truth):
            self.key, self.truth = key, truth

        def __bool__(self):
            return self.truth

        def __call__(self, obj, attr, obj_ref):
            called.append(self.key)
            from textx import get_children_of_type, get_model

            for it in get_children_of_type("Item", get_model(obj)):
                if it.name == obj_ref.obj_name:
                    return it
            return None

    ref = "r=[Item:ID|items]" if grammar else "r=[Item]"
    mm = metamodel_from_str(f"Model: items+=Item refs+=Ref; Item: 'item' name=ID; Ref: 'ref' {ref};")
    mm.register_scope_providers({k: Provider(k, t) for k, p, t in zip(keys, present, truthy) if p})
    mm.model_from_str("item a item b ref b")
    expected = [] if grammar else [k for k, p in zip(keys, present) if p][:1]
    ok = called == expected
    return (not ok), (f"registered {[k for k, p in zip(keys, present) if p]} "
                      f"(falsy provider objects: {[k for k, p, t in zip(keys, present, truthy) if p and not t]}), "
                      f"grammar RREL: {grammar}; provider(s) called: {called}, documented precedence demands {expected}")
