"""C20 - ignore_case makes grammar literals case-insensitive (partial: the /repo side).

What /repo decides: every matcher built for a grammar literal gets the metamodel's ignore_case
(visit_str_match - both branches, contracts/c21.py; visit_re_match, here), the keyword pattern used for
autokwd is compiled case-insensitively iff ignore_case, the model parser is created with the metamodel's
ignore_case, and matched text reaches the model unchanged (terminal branch of process_node: the value
handed to the match processor is node.value / group 1, never a case-folded copy).
What a matcher with ignore_case does with the input is Arpeggio / re (T-ARP, assumed; bounded battery).
"""

from txvc.contracts import REGISTRY, Ext, Schema, SpecFn, Unit
from txvc.props import ASSUME, T_ARP, TRUSTED, extra, replay_for

from . import c21, c25, c33, common  # noqa: F401

TRUSTED["C20"] = [T_ARP]
ASSUME["C20"] = [
    "T-ARP/A-RE: arpeggio.StrMatch(s, ignore_case=True) and RegExMatch(p, ignore_case=True) match the input "
    "case-insensitively and report the text as written in the input (Terminal.value); with ignore_case falsy they "
    "compare exactly. Bounded battery only.",
]

REGISTRY["lang.TextXVisitor.visit_str_match"].props.append("C20")

Schema("Match", fields={})

Unit(
    "lang.TextXVisitor.visit_re_match",
    target="textx/lang.py::TextXVisitor.visit_re_match",
    props=["C20"],
    params={"self": "obj:TextXVisitor", "node": "obj", "children": "any"},
    calls={
        "node.extra_info.group": Ext("group", pure=True, raises=None, returns="str",
                                     note="re match object of the grammar's re_match rule: group(1) is the text "
                                          "between the slashes"),
        "RegExMatch": Ext("RegExMatch", returns="obj:RegExMatch", raises=None,
                          note="arpeggio.RegExMatch(to_match, ignore_case=) (T-ARP)"),
        "regex.compile": Ext("compile", returns="none", note="re.compile of the user's pattern: raises on an invalid one"),
        "self.grammar_parser.pos_to_linecol": Ext("pos_to_linecol", returns="tuple", raises=None, pure=True),
    },
    modifies=["*"],
    ensures=[
        ("C20-user-regex-gets-the-metamodels-ignore-case",
         "n_calls('RegExMatch') == 1 and result == evn('RegExMatch', 0).result"
         " and evn('RegExMatch', 0).args[0] == evn('group', 0).result and evn('group', 0).args[0] == 1"
         " and evn('RegExMatch', 0).kwargs['ignore_case'] == old(self.metamodel.ignore_case)"),
        ("C20-user-regex-is-compiled-before-use", "n_calls('compile') == 1"),
    ],
    raises={"*": []},
    canary="n_calls('RegExMatch') == 0",
)

Unit(
    "lang.TextXVisitor.__init__",
    target="textx/lang.py::TextXVisitor.__init__",
    props=["C20"],
    params={"self": "obj", "grammar_parser": "any", "metamodel": "obj:TextXMetaModelFlags"},
    requires=["distinct(self, metamodel)"],
    calls={
        "re.compile": Ext("re.compile", returns="obj", raises=None, pure=True),
        "super().__init__": Ext("super.__init__", returns="none", raises=None,
                                note="RRELVisitor / PTNodeVisitor constructor (T-ARP): does not touch the fields set here",
                                protect=["self.keyword_regex", "self.metamodel", "self.grammar_parser"]),
    },
    modifies=["*"],
    ensures=[
        ("C20-keyword-pattern-is-case-insensitive-iff-ignore-case",
         "n_calls('re.compile') == 1 and self.keyword_regex == evn('re.compile', 0).result"
         " and evn('re.compile', 0).args[0] == '[^\\\\d\\\\W]\\\\w*'"
         " and evn('re.compile', 0).args[1] == (re.IGNORECASE if old(truthy(metamodel.ignore_case)) else 0)"),
        ("visitor-holds-the-metamodel", "self.metamodel == metamodel and self.grammar_parser == grammar_parser"),
    ],
    canary="n_calls('re.compile') == 0",
)

# `name in metamodel` (TextXMetaModel.__contains__: try self[name] / except KeyError): used through an
# assumed contract - a pure test that returns a bool
Unit(
    "metamodel.__contains__",
    target="textx/metamodel.py::TextXMetaModel.__contains__",
    props=["C20", "C22"],
    trusted=True,
    params={"self": "obj:TextXMetaModel", "name": "any"},
    returns="bool",
    modifies=[],
    ensures=[],
    notes="pure membership test on the metamodel's rule namespaces (lookup itself: contracts/c25.py)",
)

Unit(
    "lang.TextXVisitor.visit_textx_model",
    target="textx/lang.py::TextXVisitor.visit_textx_model",
    props=["C20", "C22"],
    params={"self": "obj:TextXVisitor", "node": "any", "children": "list"},
    # is_valid() of the metamodel while its grammar is visited: a current namespace is entered
    requires=["len(self.metamodel._namespace_stack) >= 1",
              "self.metamodel._namespace_stack[-1] in self.metamodel.namespaces",
              "self.metamodel._namespace_stack[-1] in self.metamodel._imported_namespaces",
              "len(children) >= 1"],
    ext_protect=["self.metamodel", "list(children)"],
    calls={
        "get_model_parser": Ext("get_model_parser", returns="obj", note="model.get_model_parser(top_rule, comments_model, **config)"),
    },
    modifies=["*"],
    ensures=[
        ("C20-C22-model-parser-created-with-the-metamodels-configuration",
         "n_calls('get_model_parser') == 1 and result == evn('get_model_parser', 0).result"
         " and evn('get_model_parser', 0).args[0] == old(children[0])"
         " and evn('get_model_parser', 0).kwargs['ignore_case'] == before(evn('get_model_parser', 0), self.metamodel.ignore_case)"
         " and evn('get_model_parser', 0).kwargs['skipws'] == before(evn('get_model_parser', 0), self.metamodel.skipws)"
         " and evn('get_model_parser', 0).kwargs['ws'] == before(evn('get_model_parser', 0), self.metamodel.ws)"
         " and evn('get_model_parser', 0).kwargs['autokwd'] == before(evn('get_model_parser', 0), self.metamodel.autokwd)"
         " and evn('get_model_parser', 0).kwargs['memoization'] == before(evn('get_model_parser', 0), self.metamodel.memoization)"),
        ("model-parser-knows-its-metamodel", "result.metamodel == old(self.metamodel)"),
    ],
    canary="n_calls('get_model_parser') == 0",
)


# --------------------------------------------------------------------------
# the terminal branch of process_node: the text of a match reaches the match processor (and so the
# model) exactly as Arpeggio reports it - node.value, or group 1 of the regex match when
# use_regexp_group is on and the pattern has exactly one group - never a case-folded copy; the
# processor is told the rule name and the location of the match (C33 call site)
# --------------------------------------------------------------------------
Schema("RegExMatchRule", bases=("ParsingExpression",), fields={"regex": "obj"})

PROCESS = "call:metamodel.process"
Unit(
    "model.process_node.terminal",
    target="textx/model.py::parse_tree_to_objgraph.process_node",
    region="if:isinstance(node, Terminal)",
    props=["C20", "C33", "C01"],
    params={"node": "obj:Terminal", "metamodel": "obj:TextXMetaModel", "parser": "obj:TextXModelParser",
            "line": "any", "col": "any"},
    requires=["distinct(node, metamodel, parser)"],
    calls={
        "node.extra_info.group": Ext("group", pure=True, raises=None,
                                     note="re match object kept by Arpeggio's RegExMatch (T-ARP)"),
    },
    returns="any",
    ensures=[
        ("C20-C33-match-text-and-location-reach-the-processor-unchanged",
         f"n_calls('{PROCESS}') == 1 and result == evn('{PROCESS}', 0).result"
         f" and evn('{PROCESS}', 0).args['_type'] == old(node.rule_name)"
         f" and evn('{PROCESS}', 0).args['filename'] == old(parser.file_name)"
         f" and evn('{PROCESS}', 0).args['line'] == line and evn('{PROCESS}', 0).args['col'] == col"
         f" and (evn('{PROCESS}', 0).args['value'] == old(node.value)"
         f"      or (n_calls('group') == 1 and evn('group', 0).args[0] == 1"
         f"          and evn('{PROCESS}', 0).args['value'] == evn('group', 0).result))"),
        ("C01-group-value-only-with-use-regexp-group",
         "implies(n_calls('group') == 1, old(truthy(metamodel.use_regexp_group)))"),
    ],
    canary="n_calls('group') == 1",
)


# --------------------------------------------------------------------------
# bounded battery (never counted as proved): case-mutated inputs against the real parser
# --------------------------------------------------------------------------
C20_GRAMMAR = r"""
Model: 'begin' name=ID items+=Item[','] 'end' tail=Tail?;
Item: 'item' name=ID '=' value=Value;
Value: kw='It\'s' | kw='\\cmd' flag?='On' | word=/[a-z]+[0-9]*/ | quoted=STRING;
Tail: /final(ly)?/ note=/\w+/;
"""
C20_TEXT = "begin Main item Alpha = abc12, item beta = 'Str' , item g = It's , item h = \\cmd On end finally Done"


def _dump(o, depth=0):
    if isinstance(o, list):
        return [_dump(x, depth) for x in o]
    if hasattr(type(o), "_tx_attrs"):
        return (type(o).__name__, {k: _dump(getattr(o, k), depth + 1) for k in type(o)._tx_attrs})
    return o


def _c20_battery(limit=40):
    import random

    from textx import metamodel_from_str
    from textx.exceptions import TextXSyntaxError

    bad = []
    literal_spans = []
    # positions of the characters matched by grammar literals / regex keywords (not by ID, STRING, value regexes)
    for lit in ("begin", "item", "item", "item", "item", "It's", "\\cmd", "On", "end", "finally"):
        start = 0
        while True:
            i = C20_TEXT.find(lit, start)
            if i < 0:
                break
            literal_spans.append((i, i + len(lit)))
            start = i + 1
    lit_pos = sorted({p for a, b in literal_spans for p in range(a, b) if C20_TEXT[p].isalpha()})
    for autokwd in (False, True):
        mm = metamodel_from_str(C20_GRAMMAR, ignore_case=True, autokwd=autokwd)
        ref = _dump(mm.model_from_str(C20_TEXT))
        rnd = random.Random(20)
        variants = [C20_TEXT.upper().replace("ABC12", "abc12"), ]
        variants = []
        for _ in range(limit):
            chars = list(C20_TEXT)
            for p in lit_pos:
                if rnd.random() < 0.5:
                    chars[p] = chars[p].swapcase()
            variants.append("".join(chars))
        allflip = list(C20_TEXT)
        for p in lit_pos:
            allflip[p] = allflip[p].swapcase()
        variants.append("".join(allflip))
        for v in variants:
            try:
                got = _dump(mm.model_from_str(v))
            except TextXSyntaxError as e:
                bad.append(f"autokwd={autokwd}: case-changed literals rejected: {v!r}: {e}")
                continue
            if got != ref:
                bad.append(f"autokwd={autokwd}: model differs for {v!r}")
        # values keep the case they were written in
        m = mm.model_from_str(C20_TEXT.replace("Main", "mAiN").replace("Done", "dONE"))
        if m.name != "mAiN" or m.tail.note != "dONE" or m.items[1].value.quoted != "Str":
            bad.append(f"autokwd={autokwd}: a matched value did not keep its case")
        if len(bad) > 4:
            break
    # without ignore_case the same variants must be rejected (the battery would otherwise be vacuous)
    mm0 = metamodel_from_str(C20_GRAMMAR)
    try:
        mm0.model_from_str(C20_TEXT.replace("begin", "BEGIN"))
        bad.append("without ignore_case a case-changed keyword was accepted (battery vacuous?)")
    except TextXSyntaxError:
        pass
    return bad


@extra("C20")
def ignore_case_battery(tier, seed):
    bad = _c20_battery(40 if tier == "quick" else 400)
    res = {"name": "lang.ignore_case.battery", "backend": "native run of the real parser (bounded stand-in)",
           "obligations": 0, "discharged": 0, "bounded": True,
           "bound": "one grammar (keywords, escaped literals, regex literals, separators) x 41 random case mutations x autokwd on/off",
           "cases": 82, "violations": [],
           "detail": "changing the case of text matched by grammar literals changes neither acceptance nor the model; values keep their case"}
    if bad:
        res["violations"].append({"unit": "lang.ignore_case.battery", "kind": "BOUNDED",
                                  "label": "case-of-literals-is-irrelevant", "prop": "C20", "result": "refuted",
                                  "text": "; ".join(bad[:3]), "where": "battery", "path": [],
                                  "model": {"failures": bad[:6]}, "native": True, "time": 0, "reason": ""})
    return res


def _replay_c20(model, rec):
    bad = _c20_battery(40)
    return bool(bad), "; ".join(bad[:4]) or "ignore_case battery passes"


for _u in ("lang.ignore_case.battery", "lang.TextXVisitor.visit_re_match", "lang.TextXVisitor.__init__",
           "lang.TextXVisitor.visit_textx_model", "model.process_node.terminal"):
    replay_for(_u)(_replay_c20)

from txvc.props import REPLAYS as _REPLAYS  # noqa: E402

_c21_driver = _REPLAYS.get("lang.TextXVisitor.visit_str_match")


def _replay_str_match(model, rec):
    if rec.get("property") == "C20" or _c21_driver is None:
        return _replay_c20(model, rec)
    return _c21_driver(model, rec)


replay_for("lang.TextXVisitor.visit_str_match")(_replay_str_match)
