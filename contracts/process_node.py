"""parse_tree_to_objgraph.process_node - parse tree -> objects.  Region units
for its branches; serves C01 C02 C03 C05 C06 C08 C28 C34."""

from txvc.contracts import Ext, Loop, Schema, SpecFn, Unit

from . import c05, c33, common  # noqa: F401

# what a (recursive) call of process_node leaves unchanged for its caller: the
# instance stack is balanced, the crossref list only grows (see the whole-function
# unit below for the proof obligations of these clauses)
Unit(
    "model.process_node",
    target="textx/model.py::parse_tree_to_objgraph.process_node",
    props=[],
    trusted=True,
    params={"node": "obj:ParseTreeNode"},
    captured={"parser": "obj:TextXModelParser", "metamodel": "obj:TextXMetaModel"},
    modifies=["*"],
    protects=["parser.*", "metamodel.*", "list(parser._inst_stack)", "node.*", "node.rule.*"],
    ensures=[
        "len(parser._crossrefs) >= old(len(parser._crossrefs))",
        "forall(lambda j: implies(0 <= j and j < old(len(parser._crossrefs)),"
        " parser._crossrefs[j] == old(parser._crossrefs[j])))",
    ],
    raises={"*": []},
    notes="summary of a recursive call: runs processors (arbitrary code) but keeps the parser/metamodel "
          "objects, the instance stack and the parse tree; existing cross-ref entries stay in place",
)

CR = "parser._crossrefs"
REF_ATTR = "(metaattr.ref and not metaattr.cont)"

ATTR = "getattr(obj_attr, attr_name)"
SUB = "evn('call:model.process_node', 0)"

Unit(
    "model.process_node.assignment",
    target="textx/model.py::parse_tree_to_objgraph.process_node",
    region="if:op == 'optional'",
    props=["C02", "C28", "C34"],
    params={"node": "obj:NonTerminal[obj:ParseTreeNode]", "op": "str", "attr_name": "str",
            "model_obj": "obj", "obj_attr": "obj", "metaattr": "obj:MetaAttr",
            "parser": "obj:TextXModelParser", "metamodel": "obj:TextXMetaModel"},
    requires=[
        "model_obj == obj_attr",  # the stack holds (inst, inst)
        "distinct(node, parser, metamodel, metaattr, model_obj, parser._crossrefs, parser._inst_stack)",
        "metaattr.name == attr_name",
        "implies(op == 'plain', len(node) >= 1)",
        f"{ATTR} != parser._crossrefs and {ATTR} != parser._inst_stack",
    ],
    calls={
        "parser.dprint": Ext("dprint", pure=True, raises=None, returns="none"),
        "parser.pos_to_linecol": Ext("pos_to_linecol", returns="tuple", raises=None, pure=True,
                                     ensures=["result == linecol(callee, a0)"]),
        "attr_value.append": "list.append",
    },
    # converting the right-hand side (a recursive call that may run match processors) does not
    # modify the meta attribute or the object that owns this assignment
    ext_protect=["metaattr.*", "obj_attr.*", "cls(obj_attr).*", "list(getattr(obj_attr, attr_name))"],
    loops={"for:node": Loop(modifies=["*"], body_unit="model.process_node.list-assignment-step",
                            protect=["parser.*", "metamodel.*"], inv=[])},
    ensures=[
        # ---- plain assignment of a non-containment reference: one cross-ref located at the reference text
        ("C28-plain-crossref-located-at-the-reference-text",
         f"implies(op == 'plain' and {REF_ATTR}, len({CR}) == after({SUB}, len({CR})) + 1"
         f" and {CR}[-1][0] == model_obj and {CR}[-1][1] == metaattr"
         f" and {CR}[-1][2].position == node[0].position and {CR}[-1][2].position_end == node[0].position_end"
         f" and {CR}[-1][2].obj_name == {SUB}.result and {CR}[-1][2].cls == metaattr.cls)"),
        ("C02-plain-value-stored-or-appended",
         f"implies(op == 'plain' and not {REF_ATTR}, "
         f"(as_list(old({ATTR}))[-1] == {SUB}.result and len(as_list(old({ATTR}))) == "
         f"after({SUB}, len(as_list(old({ATTR})))) + 1) if is_list(old({ATTR})) else {ATTR} == {SUB}.result)"),
        ("C02-optional-sets-true", f"implies(op == 'optional', {ATTR} == True)"),
    ],
    raises={"TextXSemanticError": [
        ("C02-multiple-assignment-only-if-slot-already-holds-a-value",
         f"implies(created_here(exc), op == 'plain' and truthy(old({ATTR})) and not is_list(old({ATTR}))"
         " and exc.err_type == 'Multiple assignments')")]},
    canary="op == 'plain'",
)

Unit(
    "model.process_node.list-assignment-step",
    target="textx/model.py::parse_tree_to_objgraph.process_node",
    region="body:for:node#2",
    props=["C02", "C08", "C28", "C34"],
    params={"n": "obj:ParseTreeNode", "node": "obj:NonTerminal[obj:ParseTreeNode]", "attr_name": "str",
            "obj_attr": "obj", "metaattr": "obj:MetaAttr",
            "parser": "obj:TextXModelParser", "metamodel": "obj:TextXMetaModel"},
    requires=[
        "distinct(n, node, parser, metamodel, metaattr, obj_attr, parser._crossrefs, parser._inst_stack)",
        "metaattr.name == attr_name",
        f"implies(hasattr(obj_attr, attr_name), {ATTR} != parser._crossrefs and {ATTR} != parser._inst_stack)",
        # a many-valued attribute holds a list (or nothing yet): established by _init_obj_attrs
        f"implies(hasattr(obj_attr, attr_name) and {ATTR} is not None, is_list({ATTR}))",
    ],
    calls={"getattr(obj_attr, attr_name).append": "list.append"},
    # converting the right-hand side creates other objects; it never assigns attributes of the
    # object that owns this assignment (its assignments sit directly below the object's own node)
    ext_protect=["metaattr.*", "obj_attr.*", "cls(obj_attr).*", "list(getattr(obj_attr, attr_name))"],
    ensures=[
        ("separator-contributes-nothing",
         f"implies(n.rule_name == 'sep', n_calls('call:model.process_node') == 0 and len({CR}) == old(len({CR})))"),
        ("C08-C28-one-crossref-per-reference-located-at-its-own-text",
         f"implies(n.rule_name != 'sep' and {REF_ATTR}, len({CR}) == after({SUB}, len({CR})) + 1"
         f" and {CR}[-1][0] == obj_attr and {CR}[-1][1] == metaattr"
         f" and {CR}[-1][2].position == n.position and {CR}[-1][2].position_end == n.position_end"
         f" and {CR}[-1][2].obj_name == {SUB}.result and {CR}[-1][2].cls == metaattr.cls)"),
        ("C08-earlier-crossrefs-stay-in-place",
         f"implies(n.rule_name != 'sep' and {REF_ATTR},"
         f" forall(lambda j: implies(0 <= j and j < len({CR}) - 1, {CR}[j] == after({SUB}, {CR}[j]))))"),
        ("C02-value-appended-once-at-the-end",
         f"implies(n.rule_name != 'sep' and not {REF_ATTR}, is_list({ATTR}) and as_list({ATTR})[-1] == {SUB}.result"
         f" and implies(after({SUB}, hasattr(obj_attr, attr_name) and {ATTR} is not None),"
         f" {ATTR} == after({SUB}, {ATTR}) and len(as_list({ATTR})) == after({SUB}, len(as_list({ATTR}))) + 1"
         f" and forall(lambda j: implies(0 <= j and j < len(as_list({ATTR})) - 1,"
         f" as_list({ATTR})[j] == after({SUB}, as_list({ATTR})[j])))))"),
    ],
    canary="n.rule_name == 'sep'",
)


from txvc.props import replay_for  # noqa: E402


@replay_for("model.process_node.list-assignment-step")
def _replay_list_step(model, rec):
    """End to end: a reference list whose 2nd / 3rd element is unknown; the error must point at
    that element (the cross-ref of every list element is located at its own text)."""
    from textx import metamodel_from_str
    from textx.exceptions import TextXSemanticError

    mm = metamodel_from_str("Model: things+=Thing 'use' members+=[Thing][','] ';'; Thing: 'thing' name=ID;")
    bad = []
    for k in (1, 2):
        names = ["a", "b", "c"]
        names[k] = "zz"
        text = "thing a thing b thing c\n  use " + ", ".join(names) + " ;"
        want_col = text.split("\n")[1].index("zz") + 1
        try:
            mm.model_from_str(text)
            bad.append(f"{text!r}: no error")
        except TextXSemanticError as e:
            if (e.line, e.col) != (2, want_col):
                bad.append(f"unknown reference 'zz' is at line 2 col {want_col}, error says {(e.line, e.col)}")
    # the cross-ref of a list element also records where its text ENDS (C34: the go-to-definition
    # entry must delimit exactly the reference text, also for multi-part names in list attributes)
    import textx.scoping.providers as sp

    mm2 = metamodel_from_str(
        "Model: packs+=Pack 'use' many+=[Item:FQN][','] 'one' one=[Item:FQN];"
        " Pack: 'pack' name=ID '{' items+=Item '}'; Item: 'item' name=ID; FQN: ID('.'ID)*;",
        textx_tools_support=True)
    mm2.register_scope_providers({"*.*": sp.FQN()})
    text2 = "pack alpha { item one item two } pack beta { item three }\nuse alpha.two, beta.three , alpha.one one beta.three"
    m2 = mm2.model_from_str(text2)
    for r in m2._pos_crossref_list:
        if text2[r.ref_pos_start:r.ref_pos_end] != r.name:
            bad.append(f"reference {r.name!r} at {r.ref_pos_start}: the recorded end {r.ref_pos_end} delimits "
                       f"{text2[r.ref_pos_start:r.ref_pos_end]!r}")
    if len(m2._pos_crossref_list) != 4:
        bad.append(f"{len(m2._pos_crossref_list)} go-to-definition entries for 4 references")
    return bool(bad), "; ".join(bad) or "errors point at the offending list element; reference ends recorded"
