"""C14 / C15 - instrumentation of user classes while a model is loaded.

Ghost view of a user class c:  count(c) = c._tx_instrumented if the class itself carries it, else 0
(the number of loads in progress that instrumented c).  For a in (setattr, delattr, getattribute):
slot_a(c) = the class's OWN __a__ (None when it has none), saved_a(c) = c._tx_real_a.

  _replace_user_attr_methods_for_class(c)   requires count(c) == 0:
        count' == 1, saved_a' == old slot_a (None if absent), slot_a' is textX's collecting method
  _replace_user_attr_methods, per class:     count' == count + 1; an already instrumented class keeps its slots
  _restore_user_attr_methods, per class:     count >= 2: count' == count - 1, slots untouched;
        count == 1: the marker is gone, and each slot is again what was saved (deleted when nothing was
        saved), the saved copies are gone;  count == 0 (not instrumented): untouched
Composition (replace_for_class ; restore at count 1) gives back exactly the pre-instrumentation slots: the
"user classes behave exactly as before loading" of the statement.  Balance of the calls along every path of a
load is in loading.py (get_model_from_str) and below (_end_model_construction).
"""

from txvc.contracts import Ext, Loop, Schema, SpecFn, Unit

from . import common  # noqa: F401

TGT = "textx/model.py::get_model_parser.TextXModelParser."
OWN = "('{n}' in user_class.__dict__)"

Unit(
    "model.TextXModelParser._replace_user_attr_methods_for_class",
    target=TGT + "_replace_user_attr_methods_for_class",
    props=["C14", "C15"],
    params={"self": "obj:TextXModelParser", "user_class": "obj"},
    requires=["hasattr(user_class, '_tx_obj_attrs')"],
    modifies=["user_class.*"],
    ensures=[
        ("C14-marked-as-instrumented-once", "user_class._tx_instrumented == 1 and '_tx_instrumented' in user_class.__dict__"),
    ] + [
        (f"C14-original-{a}-saved-or-None",
         f"user_class._tx_real_{a} == (old(user_class.__dict__['__{a}__']) if old('__{a}__' in user_class.__dict__) else None)"
         f" and '__{a}__' in user_class.__dict__")
        for a in ("setattr", "delattr", "getattribute")
    ],
    canary="user_class._tx_instrumented == 0",
)

COUNT = "(user_class._tx_instrumented if '_tx_instrumented' in user_class.__dict__ else 0)"
FOR_CLASS = "call:model.TextXModelParser._replace_user_attr_methods_for_class"
SLOTS_SAME = " and ".join(
    f"(('__{a}__' in user_class.__dict__) == old('__{a}__' in user_class.__dict__)) and "
    f"implies('__{a}__' in user_class.__dict__, user_class.__dict__['__{a}__'] == old(user_class.__dict__['__{a}__']))"
    for a in ("setattr", "delattr", "getattribute"))

# one user class, when a load starts
Unit(
    "model.TextXModelParser._replace_user_attr_methods.per-class",
    target=TGT + "_replace_user_attr_methods",
    region="body:for:self.metamodel.user_classes.values()",
    props=["C14", "C15"],
    params={"self": "obj:TextXModelParser", "user_class": "obj"},
    requires=["hasattr(user_class, '_tx_obj_attrs')", "distinct(self, user_class)",
              "implies('_tx_instrumented' in user_class.__dict__, is_int(user_class._tx_instrumented))"],
    ensures=[
        ("C14-nesting-count-goes-up-by-one", f"{COUNT} == old({COUNT}) + 1"),
        ("C14-first-load-instruments-the-class",
         f"(n_calls('{FOR_CLASS}') == 1) == (old({COUNT}) == 0 and not old('_tx_instrumented' in user_class.__dict__))"),
        ("C14-an-instrumented-class-keeps-its-slots",
         f"implies(old('_tx_instrumented' in user_class.__dict__), {SLOTS_SAME})"),
    ],
    canary=f"n_calls('{FOR_CLASS}') == 1",
)

Unit(
    "model.TextXModelParser._replace_user_attr_methods",
    target=TGT + "_replace_user_attr_methods",
    props=["C14", "C15"],
    params={"self": "obj:TextXModelParser"},
    modifies=["*"],
    loops={"for:self.metamodel.user_classes.values()": Loop(
        modifies=["*"], inv=[], step=False,
        body_unit="model.TextXModelParser._replace_user_attr_methods.per-class")},
    ensures=[("returns-nothing", "result is None")],
    canary="result is not None",
)

# one user class, when a load ends or fails
REAL = "user_class.__dict__['__{a}__']"
SAVED = "old(user_class.__dict__['_tx_real_{a}'])"
RESTORED = " and ".join(
    f"implies(old('_tx_real_{a}' in user_class.__dict__),"
    f" (not ('__{a}__' in user_class.__dict__)) if {SAVED.format(a=a)} is None else"
    f" (('__{a}__' in user_class.__dict__) and {REAL.format(a=a)} == {SAVED.format(a=a)}))"
    f" and not ('_tx_real_{a}' in user_class.__dict__)"
    for a in ("setattr", "delattr", "getattribute"))

Unit(
    "model.TextXModelParser._restore_user_attr_methods.per-class",
    target=TGT + "_restore_user_attr_methods",
    region="body:for:self.metamodel.user_classes.values()",
    props=["C14", "C15"],
    params={"self": "obj:TextXModelParser", "user_class": "obj"},
    requires=[
        "distinct(self, user_class)",
        # is_valid() of a user class: the marker and the saved slots live on the class itself (that is where
        # _replace_user_attr_methods_for_class puts them), the count is a positive int
        "hasattr(user_class, '_tx_instrumented') == ('_tx_instrumented' in user_class.__dict__)",
        "implies('_tx_instrumented' in user_class.__dict__, is_int(user_class._tx_instrumented)"
        " and user_class._tx_instrumented >= 1)",
    ] + [f"hasattr(user_class, '_tx_real_{a}') == ('_tx_real_{a}' in user_class.__dict__)"
         for a in ("getattr", "setattr", "delattr", "getattribute")]
      + [  # Python 3: plain functions have no im_func; __getattr__ is never saved by the instrumentation
          f"implies('_tx_real_{a}' in user_class.__dict__, not hasattr(user_class.__dict__['_tx_real_{a}'], 'im_func'))"
          for a in ("setattr", "delattr", "getattribute")]
      + ["not ('_tx_real_getattr' in user_class.__dict__)"],
    ensures=[
        ("C14-not-instrumented-class-is-untouched",
         f"implies(not old('_tx_instrumented' in user_class.__dict__), {SLOTS_SAME}"
         " and not ('_tx_instrumented' in user_class.__dict__))"),
        ("C14-nested-load-only-counts-down",
         f"implies(old({COUNT}) >= 2, {COUNT} == old({COUNT}) - 1 and {SLOTS_SAME})"),
        ("C14-last-load-removes-the-marker",
         f"implies(old({COUNT}) == 1, not ('_tx_instrumented' in user_class.__dict__))"),
        ("C14-C15-last-load-restores-the-original-slots", f"implies(old({COUNT}) == 1, {RESTORED})"),
    ],
    canary=f"{COUNT} == 0",
)

Unit(
    "model.TextXModelParser._restore_user_attr_methods",
    target=TGT + "_restore_user_attr_methods",
    props=["C14", "C15"],
    params={"self": "obj:TextXModelParser"},
    modifies=["*"],
    loops={"for:self.metamodel.user_classes.values()": Loop(
        modifies=["*"], inv=[], step=False,
        body_unit="model.TextXModelParser._restore_user_attr_methods.per-class")},
    ensures=[("returns-nothing", "result is None")],
    canary="result is not None",
)
