"""C14 / C15 - instrumentation of user classes while a model is loaded.

Ghost view of a user class c:  count(c) = c._tx_instrumented if the class itself carries it, else 0
(the number of loads in progress that instrumented c).  For a in (setattr, delattr, getattribute):
slot_a(c) = the class's OWN __a__ (None when it has none), saved_a(c) = c._tx_real_a.

  _replace_user_attr_methods_for_class(c)   requires count(c) == 0:
        count' == 1, saved_a' == old slot_a (None if absent), slot_a' is textX's collecting method
  _replace_user_attr_methods, per class:     count' == count + 1; an already instrumented class keeps its slots
  _restore_user_attr_methods, per class:     count >= 2: count' == count - 1, slots untouched;
        count == 1: the marker is gone, and each slot is again what was saved (deleted when nothing was
        saved), the saved copies are gone;  count == 0 (not instrumented): untouched
Composition (replace_for_class ; restore at count 1) gives back exactly the pre-instrumentation slots: the
"user classes behave exactly as before loading" of the statement.  Balance of the calls along every path of a
load is in loading.py (get_model_from_str) and below (_end_model_construction).
"""

from txvc.contracts import Ext, Loop, Schema, SpecFn, Unit

from . import common  # noqa: F401

TGT = "textx/model.py::get_model_parser.TextXModelParser."
OWN = "('{n}' in user_class.__dict__)"

Unit(
    "model.TextXModelParser._replace_user_attr_methods_for_class",
    target=TGT + "_replace_user_attr_methods_for_class",
    props=["C14", "C15"],
    params={"self": "obj:TextXModelParser", "user_class": "obj"},
    requires=["hasattr(user_class, '_tx_obj_attrs')"],
    modifies=["user_class.*"],
    ensures=[
        ("C14-marked-as-instrumented-once", "user_class._tx_instrumented == 1 and '_tx_instrumented' in user_class.__dict__"),
    ] + [
        (f"C14-original-{a}-saved-or-None",
         f"user_class._tx_real_{a} == (old(user_class.__dict__['__{a}__']) if old('__{a}__' in user_class.__dict__) else None)"
         f" and '__{a}__' in user_class.__dict__")
        for a in ("setattr", "delattr", "getattribute")
    ],
    canary="user_class._tx_instrumented == 0",
)

COUNT = "(user_class._tx_instrumented if '_tx_instrumented' in user_class.__dict__ else 0)"
FOR_CLASS = "call:model.TextXModelParser._replace_user_attr_methods_for_class"
SLOTS_SAME = " and ".join(
    f"(('__{a}__' in user_class.__dict__) == old('__{a}__' in user_class.__dict__)) and "
    f"implies('__{a}__' in user_class.__dict__, user_class.__dict__['__{a}__'] == old(user_class.__dict__['__{a}__']))"
    for a in ("setattr", "delattr", "getattribute"))

# one user class, when a load starts
Unit(
    "model.TextXModelParser._replace_user_attr_methods.per-class",
    target=TGT + "_replace_user_attr_methods",
    region="body:for:self.metamodel.user_classes.values()",
    props=["C14", "C15"],
    params={"self": "obj:TextXModelParser", "user_class": "obj"},
    calls={"self._replace_user_attr_methods_for_class":
           "model.TextXModelParser._replace_user_attr_methods_for_class"},
    requires=["hasattr(user_class, '_tx_obj_attrs')", "distinct(self, user_class)",
              "implies('_tx_instrumented' in user_class.__dict__, is_int(user_class._tx_instrumented))"],
    ensures=[
        ("C14-nesting-count-goes-up-by-one", f"{COUNT} == old({COUNT}) + 1"),
        ("C14-first-load-instruments-the-class",
         f"(n_calls('{FOR_CLASS}') == 1) == (old({COUNT}) == 0 and not old('_tx_instrumented' in user_class.__dict__))"),
        ("C14-an-instrumented-class-keeps-its-slots",
         f"implies(old('_tx_instrumented' in user_class.__dict__), {SLOTS_SAME})"),
    ],
    canary=f"n_calls('{FOR_CLASS}') == 1",
)

Unit(
    "model.TextXModelParser._replace_user_attr_methods",
    target=TGT + "_replace_user_attr_methods",
    props=["C14", "C15"],
    params={"self": "obj:TextXModelParser"},
    modifies=["*"],
    loops={"for:self.metamodel.user_classes.values()": Loop(
        modifies=["*"], inv=[], step=False,
        body_unit="model.TextXModelParser._replace_user_attr_methods.per-class")},
    ensures=[("returns-nothing", "result is None")],
    canary="result is not None",
)

# one user class, when a load ends or fails
REAL = "user_class.__dict__['__{a}__']"
SAVED = "old(user_class.__dict__['_tx_real_{a}'])"
RESTORED = " and ".join(
    f"implies(old('_tx_real_{a}' in user_class.__dict__),"
    f" (not ('__{a}__' in user_class.__dict__)) if {SAVED.format(a=a)} is None else"
    f" (('__{a}__' in user_class.__dict__) and {REAL.format(a=a)} == {SAVED.format(a=a)}))"
    f" and not ('_tx_real_{a}' in user_class.__dict__)"
    for a in ("setattr", "delattr", "getattribute"))

Unit(
    "model.TextXModelParser._restore_user_attr_methods.per-class",
    target=TGT + "_restore_user_attr_methods",
    region="body:for:self.metamodel.user_classes.values()",
    props=["C14", "C15"],
    params={"self": "obj:TextXModelParser", "user_class": "obj"},
    requires=[
        "distinct(self, user_class)",
        # is_valid() of a user class: the marker and the saved slots live on the class itself (that is where
        # _replace_user_attr_methods_for_class puts them), the count is a positive int
        "hasattr(user_class, '_tx_instrumented') == ('_tx_instrumented' in user_class.__dict__)",
        "implies('_tx_instrumented' in user_class.__dict__, is_int(user_class._tx_instrumented)"
        " and user_class._tx_instrumented >= 1)",
    ] + [f"hasattr(user_class, '_tx_real_{a}') == ('_tx_real_{a}' in user_class.__dict__)"
         for a in ("getattr", "setattr", "delattr", "getattribute")]
      + [  # Python 3: plain functions have no im_func; __getattr__ is never saved by the instrumentation
          f"implies('_tx_real_{a}' in user_class.__dict__, not hasattr(user_class.__dict__['_tx_real_{a}'], 'im_func'))"
          for a in ("setattr", "delattr", "getattribute")]
      + ["not ('_tx_real_getattr' in user_class.__dict__)"],
    ensures=[
        ("C14-not-instrumented-class-is-untouched",
         f"implies(not old('_tx_instrumented' in user_class.__dict__), {SLOTS_SAME}"
         " and not ('_tx_instrumented' in user_class.__dict__))"),
        ("C14-nested-load-only-counts-down",
         f"implies(old({COUNT}) >= 2, {COUNT} == old({COUNT}) - 1 and {SLOTS_SAME})"),
        ("C14-last-load-removes-the-marker",
         f"implies(old({COUNT}) == 1, not ('_tx_instrumented' in user_class.__dict__))"),
        ("C14-C15-last-load-restores-the-original-slots", f"implies(old({COUNT}) == 1, {RESTORED})"),
    ],
    canary=f"{COUNT} == 0",
)

Unit(
    "model.TextXModelParser._restore_user_attr_methods",
    target=TGT + "_restore_user_attr_methods",
    props=["C14", "C15"],
    params={"self": "obj:TextXModelParser"},
    modifies=["*"],
    loops={"for:self.metamodel.user_classes.values()": Loop(
        modifies=["*"], inv=[], step=False,
        body_unit="model.TextXModelParser._restore_user_attr_methods.per-class")},
    ensures=[("returns-nothing", "result is None")],
    canary="result is not None",
)


# --------------------------------------------------------------------------
# _end_model_construction: the collected attributes of every user object are handed to its __init__
# exactly once, restricted to the rule's attributes (plus parent), after the instrumentation was
# switched off; the per-object storage entry is removed
# --------------------------------------------------------------------------
STORE = "cls(obj)._tx_obj_attrs"
COLLECTED = f"old({STORE}[id(obj)])"
KW = "as_dict(evn('user_init', 0).star)"

Unit(
    "model._end_model_construction.per-object",
    target="textx/model.py::_end_model_construction",
    region="body:for:the_parser._user_class_inst",
    props=["C14", "C15"],
    params={"obj": "obj", "the_parser": "obj:TextXModelParser"},
    requires=["addr(obj) >= 0",  # a model object, not a class or function object
              f"id(obj) in {STORE}",
              f"is_ref({STORE}[id(obj)])", "distinct(obj, the_parser)"],
    calls={
        "obj.__init__": Ext("user_init", note="the user class's own __init__ (arbitrary user code)"),
        "suppress": Ext("suppress", pure=True, raises=None),
        "the_parser.dprint": Ext("dprint", pure=True, raises=None, returns="none"),
        "traceback.print_exc": Ext("print_exc", pure=True, raises=None, returns="none"),
    },
    locals={"attrs": "dict"},
    # "first try to apply attributes directly": plain stores on the object itself, failures suppressed
    loops={"for:attrs.items()": Loop(modifies=["obj.*"], inv=[])},
    ensures=[
        ("C14-init-called-exactly-once", "n_calls('user_init') == 1"),
        ("C14-init-receives-exactly-the-rule-attributes-and-parent",
         f"forall_val(lambda k: (k in {KW}) == (before(evn('user_init', 0), k in as_dict({COLLECTED}))"
         f" and (before(evn('user_init', 0), k in cls(obj)._tx_attrs) or k == 'parent')))"
         f" and forall_val(lambda k: implies(k in {KW}, {KW}[k] == before(evn('user_init', 0), as_dict({COLLECTED})[k])))"),
        ("C15-per-object-storage-entry-is-removed",
         f"before(evn('user_init', 0), not (id(obj) in {STORE}))"),
    ],
    raises={"*": [
        ("C15-entry-removed-even-when-init-fails",
         f"implies(n_calls('user_init') == 1, before(evn('user_init', 0), not (id(obj) in {STORE})))"),
    ]},
    canary="n_calls('user_init') == 0",
)

INST = "as_list(old(model._tx_parser._user_class_inst))"

Unit(
    "model._end_model_construction",
    target="textx/model.py::_end_model_construction",
    props=["C14", "C15"],
    params={"model": "obj"},
    requires=["hasattr(model, '_tx_reference_resolver')",
              "implies(hasattr(model, '_tx_parser'), is_list(model._tx_parser._user_class_inst))"],
    calls={
        "the_parser._restore_user_attr_methods": Ext("restore", raises=None, returns="none",
                                                     note="verified: model.TextXModelParser._restore_user_attr_methods"),
    },
    modifies=["*"],
    ext_protect=["model._tx_parser", "model._tx_parser._user_class_inst", "list(model._tx_parser._user_class_inst)"],
    loops={"for:the_parser._user_class_inst": Loop(
        modifies=["*"], inv=[], step=False, body_unit="model._end_model_construction.per-object",
        protect=["model._tx_parser", "model._tx_parser._user_class_inst", "list(model._tx_parser._user_class_inst)"])},
    ensures=[
        ("C14-marker-removed-and-instrumentation-switched-off-before-any-init",
         "implies(old(hasattr(model, '_tx_parser')), n_calls('restore') == 1 and evpos('restore', 0) == 0"
         " and before(evn('restore', 0), not ('_tx_reference_resolver' in model.__dict__)))"
         " and implies(not old(hasattr(model, '_tx_parser')), not ('_tx_reference_resolver' in model.__dict__))"),
    ],
    # (exceptional exits of the loop - a user __init__ that raises - are covered per object by the region unit
    # above; what is then left in the storage of the objects not yet reached is a whole-loop question that needs
    # the data invariant of _user_class_inst to survive arbitrary user code: not provable, see the battery and the
    # known findings)
    canary="n_calls('restore') == 0",
)


# --------------------------------------------------------------------------
# _abandon_model_construction(model, failing_parser): the failure path of a load.  For one model: every
# per-object storage entry of its user-class instances is dropped; the user classes are restored exactly when
# the model is still in construction and its parser is not the one whose call failed (that one restores its
# own increment in get_model_from_str).
# --------------------------------------------------------------------------
AB_INST = "as_list(the_parser._user_class_inst)"
Unit(
    "model._abandon_model_construction",
    target="textx/model.py::_abandon_model_construction",
    props=["C14", "C15"],
    params={"model": "obj", "failing_parser": "any"},
    requires=["implies(hasattr(model, '_tx_parser') and model._tx_parser is not None,"
              " is_instance(model._tx_parser, 'TextXModelParser') and is_list(model._tx_parser._user_class_inst))"],
    calls={
        "the_parser._restore_user_attr_methods": Ext("restore", raises=None, returns="none",
                                                     note="verified: model.TextXModelParser._restore_user_attr_methods"),
        "obj.__class__._tx_obj_attrs.pop": "dict.pop",
    },
    locals={"the_parser": "obj:TextXModelParser|none"},
    modifies=["*"],
    ext_protect=["model._tx_parser", "list(model._tx_parser._user_class_inst)"],
    loops={"for:getattr(the_parser, '_user_class_inst', [])": Loop(
        modifies=["*"], protect=["model._tx_parser", "list(_it)", "ATTR:_tx_reference_resolver"],
        inv=[])},
    ensures=[
        ("C14-C15-classes-restored-exactly-for-a-model-still-in-construction-of-another-parser",
         "n_calls('restore') == (1 if old(hasattr(model, '_tx_parser') and model._tx_parser is not None"
         " and hasattr(model, '_tx_reference_resolver') and model._tx_parser != failing_parser) else 0)"),
        ("C15-the-restore-comes-after-the-storage-was-dropped",
         "implies(n_calls('restore') == 1, evpos('restore', 0) == n_calls() - 1)"),
        ("returns-nothing", "result is None"),
    ],
    canary="n_calls('restore') == 1",
)

Unit(
    "model._abandon_model_construction.per-object",
    target="textx/model.py::_abandon_model_construction",
    region="body:for:getattr(the_parser, '_user_class_inst', [])",
    props=["C14", "C15"],
    params={"obj": "obj"},
    requires=["hasattr(cls(obj), '_tx_obj_attrs')"],
    calls={"obj.__class__._tx_obj_attrs.pop": "dict.pop"},
    modifies=["dict(cls(obj)._tx_obj_attrs)"],
    ensures=[("C15-per-object-storage-entry-is-dropped", "not (id(obj) in as_dict(cls(obj)._tx_obj_attrs))")],
    canary="id(obj) in as_dict(cls(obj)._tx_obj_attrs)",
)


# --------------------------------------------------------------------------
# bounded battery / native replay (never counted as proved): user classes through the public API.
# One violation label per scenario, so that a known finding names exactly one of them.
# --------------------------------------------------------------------------
def _c14_scenarios():
    """{label: [what failed]} - empty lists when the scenario behaves as the statement says"""
    import gc
    import os
    import shutil
    import tempfile
    import weakref

    import textx.scoping.providers as sp
    from textx import metamodel_from_str
    from textx.exceptions import TextXError

    grammar = ("Model: imports*=Import things+=Thing; Import: 'import' importURI=STRING;"
               " Thing: 'thing' name=ID ('=' value=INT)? ('->' ref=[Thing])? ('{' parts+=Part '}')?;"
               " Part: 'part' name=ID;")
    out = {}

    def make(fail_on=None, slots=False):
        calls = []

        class Thing:
            def __init__(self, **kw):
                calls.append(("Thing", dict(kw)))
                if fail_on is not None and kw.get("name") == fail_on:
                    raise TypeError("constructor says no")
                for k, v in kw.items():
                    setattr(self, k, v)

        class Part:
            def __init__(self, parent=None, name=None):
                calls.append(("Part", {"parent": parent, "name": name}))
                self.parent, self.name = parent, name

        before = {c: dict(c.__dict__) for c in (Thing, Part)}
        mm = metamodel_from_str(grammar, classes=[Thing, Part])
        mm.register_scope_providers({"*.*": sp.PlainNameImportURI()})
        return mm, Thing, Part, calls, before

    def class_state(label, classes, before):
        bad = []
        for c in classes:
            d = c.__dict__
            for k in ("_tx_instrumented", "_tx_real_setattr", "_tx_real_delattr", "_tx_real_getattribute"):
                if k in d:
                    bad.append(f"{c.__name__}.{k} is still set")
            for k in ("__setattr__", "__delattr__", "__getattribute__"):
                if d.get(k) is not before[c].get(k):
                    bad.append(f"{c.__name__}.{k} is not the original")
            if d.get("_tx_obj_attrs"):
                bad.append(f"{c.__name__}._tx_obj_attrs keeps {len(d['_tx_obj_attrs'])} per-object entries")
        return bad

    # 1. successful single-file load
    mm, Thing, Part, calls, before = make()
    m = mm.model_from_str("thing a = 1 -> b { part p part q } thing b -> a")
    bad = []
    tcalls = [kw for n, kw in calls if n == "Thing"]
    if len(tcalls) != 2 or len([1 for n, _ in calls if n == "Part"]) != 2:
        bad.append(f"__init__ calls: {[(n, sorted(kw)) for n, kw in calls]}")
    for kw in tcalls:
        if set(kw) != {"name", "value", "ref", "parts", "parent"}:
            bad.append(f"Thing.__init__ got {sorted(kw)}, the rule has name/value/ref/parts (+ parent)")
        if kw.get("ref") is not None and not isinstance(kw["ref"], Thing):
            bad.append(f"Thing.__init__ got an unresolved reference: {kw['ref']!r}")
    if m.things[0].ref is not m.things[1] or m.things[0].parts[0].parent is not m.things[0]:
        bad.append("objects are not linked after the load")
    out["success-single-file"] = bad + class_state("ok", (Thing, Part), before)

    # 2.-5. failing single-file loads
    for label, text, fail_on, proc in (
            ("failure-syntax-error", "thing a thing", None, None),
            ("failure-unknown-reference", "thing a -> zz { part p }", None, None),
            ("failure-init-raises-on-the-second-of-three", "thing a thing b thing c", "b", None),
            ("failure-object-processor-raises", "thing a thing b", None, "b")):
        mm, Thing, Part, calls, before = make(fail_on=fail_on)
        if proc:
            def p(t, _n=proc):
                if t.name == _n:
                    raise TextXError("processor says no")
            mm.register_obj_processors({"Thing": p})
        bad = []
        import contextlib
        import io

        try:
            with contextlib.redirect_stderr(io.StringIO()), contextlib.redirect_stdout(io.StringIO()):
                # (textX prints the constructor's traceback)
                mm.model_from_str(text)
            bad.append("the load did not fail")
        except Exception:  # noqa: BLE001
            pass
        gc.collect()
        bad += class_state(label, (Thing, Part), before)
        # a later load with the same metamodel gives the same result as a fresh one
        try:
            again = mm.model_from_str("thing x -> y thing y")
            if again.things[0].ref is not again.things[1]:
                bad.append("load after the failure is wrong")
        except Exception as e:  # noqa: BLE001
            if not fail_on:
                bad.append(f"load after the failure fails: {type(e).__name__}: {e}")
        out[label] = bad

    # 6. failing multi-file load: the imported file is fine, the main file has an unknown reference
    d = tempfile.mkdtemp(prefix="txvc-c14-")
    try:
        with open(os.path.join(d, "lib.t"), "w") as f:
            f.write("thing l1 thing l2 -> l1\n")
        with open(os.path.join(d, "main.t"), "w") as f:
            f.write('import "lib.t"\nthing m1 -> nowhere\n')
        mm, Thing, Part, calls, before = make()
        bad = []
        try:
            mm.model_from_file(os.path.join(d, "main.t"))
            bad.append("the load did not fail")
        except Exception:  # noqa: BLE001
            pass
        gc.collect()
        out["failure-multi-file-unknown-reference-in-main"] = bad + class_state("mf", (Thing, Part), before)
        # 7. successful multi-file load
        with open(os.path.join(d, "main.t"), "w") as f:
            f.write('import "lib.t"\nthing m1 -> l2\n')
        mm, Thing, Part, calls, before = make()
        m = mm.model_from_file(os.path.join(d, "main.t"))
        bad = []
        if len([1 for n, _ in calls if n == "Thing"]) != 3:
            bad.append(f"{len(calls)} __init__ calls for 3 objects")
        out["success-multi-file"] = bad + class_state("mfok", (Thing, Part), before)
    finally:
        shutil.rmtree(d, ignore_errors=True)
    return out


from txvc.props import extra, replay_for  # noqa: E402


def _user_class_extra(pid):
    def run(tier, seed):
        sc = _c14_scenarios()
        res = {"name": "model.user-classes.battery", "backend": "native run of the real loader (bounded stand-in)",
               "obligations": 0, "discharged": 0, "bounded": True,
               "bound": f"{len(sc)} scenarios: successful and failing single- and multi-file loads with two user classes",
               "cases": len(sc), "violations": [],
               "detail": "__init__ once per object with exactly the rule attributes (+parent), references resolved; "
                         "after success AND failure the classes carry their original attribute methods and no "
                         "per-object storage"}
        for label, bad in sc.items():
            if bad:
                res["violations"].append({"unit": "model.user-classes.battery", "kind": "BOUNDED", "label": label,
                                          "prop": pid, "result": "refuted", "text": "; ".join(bad[:4]),
                                          "where": "battery", "path": [], "model": {"failures": bad[:8]},
                                          "native": True, "time": 0, "reason": ""})
        return res
    run.__name__ = "user_classes_battery_" + pid
    return run


extra("C14")(_user_class_extra("C14"))
extra("C15")(_user_class_extra("C15"))


def _replay_c14(model, rec):
    sc = _c14_scenarios()
    bad = [f"{k}: {'; '.join(v[:3])}" for k, v in sc.items() if v]
    return bool(bad), "\n  ".join(bad) or "user-class battery passes"


for _u in ("model.user-classes.battery", "model.TextXModelParser._replace_user_attr_methods_for_class",
           "model.TextXModelParser._replace_user_attr_methods.per-class",
           "model.TextXModelParser._replace_user_attr_methods",
           "model.TextXModelParser._restore_user_attr_methods.per-class",
           "model.TextXModelParser._restore_user_attr_methods",
           "model._end_model_construction.per-object", "model._end_model_construction"):
    replay_for(_u)(_replay_c14)


# C15 "nothing of the partial model stays reachable from textX": besides the classes (above) the only
# long-lived roots are the model repositories - the clean-up chain of contracts/c18.py serves C15 too
from txvc.contracts import REGISTRY as _REG  # noqa: E402

from . import c18  # noqa: E402,F401

for _u in ("model.main-model-phase", "model.parse_tree_to_objgraph",
           "model._remove_all_affected_models_in_construction", "metamodel._call_model_processors"):
    if "C15" not in _REG[_u].props:
        _REG[_u].props.append("C15")
