"""C31 - generated output files are all-or-nothing.

Ghost file system (T-PY, stated as the meaning of the external calls): the only calls that create or change
a file under its final name are open(name, 'w'...), os.replace(tmp, name) and os.remove(name);
tempfile.NamedTemporaryFile(dir=..., delete=False) creates a NEW file under a fresh name.  Every one of these
calls, every write and the closing of a file may fail (the crash-point quantifier of the statement is the
exceptional outcome the engine forks at each external call).

  export._atomic_write (a @contextmanager; `yield f` = the body of the caller's with-statement, an external
      that may raise): the final name is touched by exactly one call, os.replace(temporary, final), made only
      after the with-body and the closing of the temporary file have completed; on EVERY failing path
      os.replace was not called or was the failing call itself, the temporary file is removed, and the
      original error is raised;
  metamodel_export / model_export: write through _atomic_write (never open the final name themselves);
  generators.gen_file: the callback runs iff overwrite or the output does not exist; if it fails, an output
      that it created or modified is removed (file signature before != after), an untouched one is kept.
"""

from txvc.contracts import Ext, Loop, Unit
from txvc.props import ASSUME, TRUSTED, extra, replay_for

from . import common  # noqa: F401

TRUSTED["C31"] = ["T-PY: open / tempfile.NamedTemporaryFile / os.replace / os.remove / os.stat as described in the ghost "
                  "file system of contracts/c31.py; os.replace is atomic on one file system (POSIX rename)"]
ASSUME["C31"] = ["contextlib.contextmanager runs the code before `yield` on entry, the with-body at the yield, and "
                 "throws the body's exception into the generator at the yield",
                 "a user generator that writes its output by other means than the callback of gen_file / the exports "
                 "is outside the statement"]

NTF = Ext("NamedTemporaryFile", returns="obj",
          note="tempfile.NamedTemporaryFile: creates and opens a NEW file with a fresh name in `dir` (delete=False)")
WITH_BODY = Ext("with_body", note="the body of the caller's with-statement: writes to the temporary file, may fail anywhere")

Unit(
    "export._atomic_write",
    target="textx/export.py::_atomic_write",
    props=["C31"],
    decorators_dropped=["contextmanager"],
    params={"file_name": "str"},
    ghost={"yield_is": WITH_BODY},
    calls={
        "NamedTemporaryFile": NTF, "tempfile.NamedTemporaryFile": NTF,
        "os.replace": Ext("os.replace", returns="none", note="atomically renames the first file over the second"),
        "os.remove": Ext("os.remove", returns="none", raises=["OSError"]),
        "suppress": Ext("suppress", pure=True, raises=None),
        "f.__exit__": Ext("tmp.close", returns="none", note="leaving `with f:` closes the temporary file: the buffered "
                                                            "text is written now, which may fail (disk full)"),
    },
    modifies=["*"],
    ext_protect=["f.name"],
    ensures=[
        ("C31-final-name-replaced-once-after-body-and-close",
         "n_calls('os.replace') == 1 and evpos('os.replace', 0) == n_calls() - 1"
         " and evn('os.replace', 0).args[1] == file_name"
         " and evn('os.replace', 0).args[0] == before(evn('os.replace', 0), evn('NamedTemporaryFile', 0).result.name)"
         " and n_calls('with_body') == 1 and evpos('with_body', 0) < evpos('os.replace', 0)"
         " and n_calls('tmp.close') == 1 and evpos('tmp.close', 0) < evpos('os.replace', 0)"
         " and n_calls('os.remove') == 0"),
        ("C31-temporary-file-is-a-new-file-in-the-target-directory",
         "n_calls('NamedTemporaryFile') == 1 and evn('NamedTemporaryFile', 0).kwargs['delete'] == False"
         " and evn('NamedTemporaryFile', 0).kwargs['dir'] == os.path.dirname(os.path.abspath(file_name))"),
    ],
    raises={"*": [
        ("C31-on-failure-the-final-name-is-not-touched-or-replace-itself-failed",
         "n_calls('os.replace') == 0 or (n_calls('os.replace') == 1 and exc == evn('os.replace', 0).exc)"),
        ("C31-on-failure-the-temporary-file-is-removed",
         "implies(n_calls('NamedTemporaryFile') == 1 and evn('NamedTemporaryFile', 0).exc is None,"
         " n_calls('os.remove') == 1"
         " and evn('os.remove', 0).args[0] == before(evn('os.remove', 0), evn('NamedTemporaryFile', 0).result.name))"),
    ]},
    canary="n_calls('os.replace') == 0",
)

ATOMIC = Ext("atomic_write", returns="obj", note="export._atomic_write (verified above); the with-statement binds what it yields")

Unit(
    "export.metamodel_export",
    target="textx/export.py::metamodel_export",
    props=["C31"],
    params={"metamodel": "any", "file_name": "any", "renderer": "any"},
    calls={"_atomic_write": ATOMIC,
           "metamodel_export_tofile": Ext("export_tofile", note="writes the DOT / PlantUML text to the given file object")},
    modifies=["*"],
    ensures=[
        ("C31-metamodel-export-writes-only-through-the-atomic-writer",
         "n_calls('atomic_write') == 1 and evn('atomic_write', 0).args[0] == file_name and evpos('atomic_write', 0) == 0"
         " and n_calls('export_tofile') == 1 and evn('export_tofile', 0).args[0] == metamodel"
         " and evn('export_tofile', 0).args[1] == evn('atomic_write', 0).result and n_calls() == 2"),
    ],
    raises={"*": [("C31-nothing-but-the-atomic-writer-and-the-renderer-ran",
                   "n_calls() <= 2 and implies(n_calls() == 2, evn('export_tofile', 0).args[1] == evn('atomic_write', 0).result)")]},
    canary="n_calls('export_tofile') == 0",
)

Unit(
    "export.model_export",
    target="textx/export.py::model_export",
    props=["C31"],
    params={"model": "any", "file_name": "any", "repo": "any"},
    calls={"_atomic_write": ATOMIC,
           "model_export_to_file": Ext("export_tofile", note="writes the DOT text to the given file object")},
    modifies=["*"],
    ensures=[
        ("C31-model-export-writes-only-through-the-atomic-writer",
         "n_calls('atomic_write') == 1 and evn('atomic_write', 0).args[0] == file_name and evpos('atomic_write', 0) == 0"
         " and n_calls('export_tofile') == 1 and evn('export_tofile', 0).args[0] == evn('atomic_write', 0).result"
         " and evn('export_tofile', 0).args[1] == model and evn('export_tofile', 0).args[2] == repo and n_calls() == 2"),
    ],
    raises={"*": [("C31-nothing-but-the-atomic-writer-and-the-renderer-ran", "n_calls() <= 2")]},
    canary="n_calls('export_tofile') == 0",
)

SIG = "call:generators._file_signature"
Unit(
    "generators._file_signature",
    target="textx/generators.py::_file_signature",
    props=["C31"],
    params={"file_name": "any"},
    calls={"os.stat": Ext("os.stat", pure=True, raises=["OSError"], returns="obj")},
    modifies=[],
    ensures=[("signature-is-none-iff-stat-fails",
              "(result is None) == (evn('os.stat', 0).exc is not None) and n_calls('os.stat') == 1")],
    canary="result is None",
)

Unit(
    "generators.gen_file",
    target="textx/generators.py::gen_file",
    props=["C31"],
    params={"input_file": "any", "output_file": "str", "gen_callback": "any", "overwrite": "bool",
            "success_message": "any"},
    calls={
        "logger.info": Ext("log", pure=True, raises=None, returns="none"),
        "logger.warning": Ext("log", pure=True, raises=None, returns="none"),
        "gen_callback": Ext("gen_callback", note="the generator's callback: writes the output file, may fail anywhere"),
        "os.remove": Ext("os.remove", returns="none", raises=["OSError"]),
        "suppress": Ext("suppress", pure=True, raises=None),
    },
    modifies=["*"],
    ensures=[
        ("C31-callback-runs-iff-overwrite-or-output-missing",
         "(n_calls('gen_callback') == 1) == (overwrite or not path_exists(output_file)) and n_calls('gen_callback') <= 1"
         " and n_calls('os.remove') == 0"),
    ],
    raises={"*": [
        ("C31-a-failed-callback-is-followed-by-a-second-look-at-the-output",
         f"n_calls('gen_callback') == 1 and exc == evn('gen_callback', 0).exc and n_calls('{SIG}') == 2"),
        ("C31-a-failed-callback-does-not-leave-an-output-it-created-or-modified",
         f"implies(n_calls('{SIG}') == 2,"
         f" evpos('{SIG}', 0) < evpos('gen_callback', 0) and evpos('gen_callback', 0) < evpos('{SIG}', 1)"
         f" and evn('{SIG}', 0).args['file_name'] == output_file and evn('{SIG}', 1).args['file_name'] == output_file"
         f" and implies(evn('{SIG}', 1).result != evn('{SIG}', 0).result,"
         " n_calls('os.remove') == 1 and evn('os.remove', 0).args[0] == output_file)"
         f" and implies(evn('{SIG}', 1).result == evn('{SIG}', 0).result, n_calls('os.remove') == 0))"),
    ]},
    canary="n_calls('gen_callback') == 0",
)


# --------------------------------------------------------------------------
# bounded battery / native replay: a write failure injected after k writes (k = 0, 1, 3, 8) or at close into the
# real exports, with and without an earlier complete output; gen_file with a failing callback
# --------------------------------------------------------------------------
def _c31_battery():
    import builtins
    import os
    import shutil
    import tempfile

    from textx import metamodel_from_str
    from textx.export import metamodel_export, model_export
    from textx.generators import gen_file

    class Boom(Exception):
        pass

    bad = []
    d = tempfile.mkdtemp(prefix="txvc-c31-")
    mm = metamodel_from_str("Model: items+=Item; Item: 'item' name=ID ('->' ref=[Item])?;")
    m = mm.model_from_str("item a item b -> a item c -> b")
    real_open, real_ntf = builtins.open, tempfile.NamedTemporaryFile

    class FailingFile:
        """budget >= 0: the (budget+1)-th write fails.  budget == -1: writes are buffered (as real files do)
        and the flush at close fails half way - the file on disk then holds half of the text."""

        def __init__(self, f, budget):
            self._f, self._budget, self._buf = f, budget, []

        def write(self, s):
            if self._budget[0] == -1:
                self._buf.append(s)
                return len(s)
            if self._budget[0] <= 0:
                raise Boom("disk full")
            self._budget[0] -= 1
            return self._f.write(s)

        def __getattr__(self, n):
            return getattr(self._f, n)

        def __enter__(self):
            self._f.__enter__()
            return self

        def __exit__(self, *a):
            if self._budget[0] == -1:
                text = "".join(self._buf)
                self._f.write(text[: len(text) // 2])
                self._f.__exit__(*a)
                raise Boom("disk full while flushing at close")
            return self._f.__exit__(*a)

    try:
        for export, arg, name in ((model_export, m, "m.dot"), (metamodel_export, mm, "mm.dot")):
            for budget in (0, 1, 3, 8, -1):
                for preexisting in (False, True):
                    for x in os.listdir(d):
                        os.remove(os.path.join(d, x))
                    target = os.path.join(d, name)
                    good = None
                    if preexisting:
                        export(arg, target)
                        with real_open(target) as f:
                            good = f.read()
                    b = [budget]

                    def o(file, mode="r", *a, _b=b, **k):
                        f = real_open(file, mode, *a, **k)
                        return FailingFile(f, _b) if "w" in mode and str(file).startswith(d) else f

                    def ntf(*a, _b=b, **k):
                        return FailingFile(real_ntf(*a, **k), _b)

                    builtins.open, tempfile.NamedTemporaryFile = o, ntf
                    try:
                        try:
                            export(arg, target)
                            failed = False
                        except Boom:
                            failed = True
                    finally:
                        builtins.open, tempfile.NamedTemporaryFile = real_open, real_ntf
                    left = sorted(os.listdir(d))
                    if not failed:
                        continue  # fewer writes than the budget: the export completed
                    if preexisting:
                        with real_open(target) as f:
                            intact = f.read() == good
                        if left != [name] or not intact:
                            bad.append(f"{name}: failure after {budget} writes over an existing output leaves {left}, "
                                       f"old content intact: {intact}")
                    elif left:
                        sizes = [os.path.getsize(os.path.join(d, x)) for x in left]
                        bad.append(f"{name}: failure after {budget} writes leaves {left} ({sizes} bytes) behind")
        # gen_file: a callback that writes directly and fails; then a run without overwrite must regenerate
        t = os.path.join(d, "out.txt")

        def cb():
            with real_open(t, "w") as f:
                f.write("partial")
                raise Boom("generator failed")

        try:
            gen_file("in", t, cb)
        except Boom:
            pass
        if os.path.exists(t):
            bad.append("gen_file: the partial output of a failed callback is left behind")
        ran = []
        gen_file("in", t, lambda: (ran.append(1), real_open(t, "w").write("complete")))
        if not ran:
            bad.append("gen_file: a run after the failure skipped the output as already generated")
        ran.clear()
        gen_file("in", t, lambda: ran.append(1))
        if ran:
            bad.append("gen_file: an existing complete output was regenerated without overwrite")
    finally:
        builtins.open, tempfile.NamedTemporaryFile = real_open, real_ntf
        shutil.rmtree(d, ignore_errors=True)
    return bad


@extra("C31")
def partial_output_battery(tier, seed):
    import contextlib
    import io
    import logging

    logging.disable(logging.CRITICAL)
    try:
        with contextlib.redirect_stdout(io.StringIO()):
            bad = _c31_battery()
    finally:
        logging.disable(logging.NOTSET)
    res = {"name": "export.partial-output.battery", "backend": "native run with injected write failures (bounded stand-in)",
           "obligations": 0, "discharged": 0, "bounded": True,
           "bound": "2 exports x failure after 0/1/3/8 writes x with/without an earlier output; gen_file with a failing callback",
           "cases": 19, "violations": [], "detail": "no partial output remains; an earlier complete output stays intact"}
    if bad:
        res["violations"].append({"unit": "export.partial-output.battery", "kind": "BOUNDED",
                                  "label": "no-partial-output-after-an-injected-failure", "prop": "C31",
                                  "result": "refuted", "text": "; ".join(bad[:3]), "where": "battery", "path": [],
                                  "model": {"failures": bad[:6]}, "native": True, "time": 0, "reason": ""})
    return res


def _replay_c31(model, rec):
    bad = _c31_battery()
    return bool(bad), "; ".join(bad[:3]) or "no partial output after any injected failure"


for _u in ("export.partial-output.battery", "export._atomic_write", "export.metamodel_export", "export.model_export",
           "generators.gen_file", "generators._file_signature"):
    replay_for(_u)(_replay_c31)
