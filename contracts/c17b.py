"""C17 (continued) - lookup order of the ImportURI providers: the model itself, then the
models it has loaded, then the metamodel's builtin models; first hit wins."""

from txvc.contracts import Ext, Loop, Schema, Unit

from . import c05, c17, c27, common, loading  # noqa: F401

SP = Ext("scope_provider", note="the wrapped scope provider (PlainName / FQN ...): arbitrary, may raise")
TGT = "textx/scoping/providers.py::ImportURI.__call__"

Unit(
    "providers.ImportURI.__call__",
    target=TGT,
    props=["C17"],
    params={"self": "obj", "obj": "obj", "attr": "any", "obj_ref": "obj:ObjCrossRef"},
    requires=["depth(obj) >= 0"],
    calls={"self.scope_provider": SP, "type": Ext("type", pure=True, raises=None)},
    modifies=["*"],
    loops={
        "for:model_repository.local_models": Loop(modifies=["*"], inv=[], step=False,
                                                  body_unit="providers.ImportURI.__call__.loaded-model-step"),
        "for:model._tx_metamodel.builtin_models": Loop(modifies=["*"], inv=[], step=False,
                                                       body_unit="providers.ImportURI.__call__.builtin-model-step"),
    },
    ensures=[
        ("C17-the-model-itself-is-searched-first",
         "n_calls('scope_provider') >= 1 and evn('scope_provider', 0).args[0] == obj"
         " and evn('scope_provider', 0).args[1] == attr and evn('scope_provider', 0).args[2] == obj_ref"),
        ("C17-a-local-hit-wins-and-nothing-else-is-searched",
         "implies(after(evn('scope_provider', 0), truthy(evn('scope_provider', 0).result)),"
         " result == evn('scope_provider', 0).result and n_calls('scope_provider') == 1)"),
    ],
    canary="result is None",
)

for _name, _region, _what in (
        ("loaded-model-step", "body:for:model_repository.local_models", "a model loaded by this model"),
        ("builtin-model-step", "body:for:model._tx_metamodel.builtin_models", "a builtin model")):
    Unit(
        "providers.ImportURI.__call__." + _name,
        target=TGT,
        region=_region,
        props=["C17"],
        params={"self": "obj", "m": "any", "attr": "any", "obj_ref": "obj:ObjCrossRef"},
        calls={"self.scope_provider": SP},
        returns="any",
        ensures=[
            (f"C17-{_name}-searches-that-model-for-the-same-reference",
             "n_calls('scope_provider') == 1 and evn('scope_provider', 0).args[0] == m"
             " and evn('scope_provider', 0).args[1] == attr and evn('scope_provider', 0).args[2] == obj_ref"),
            (f"C17-{_name}-first-hit-is-returned-at-once",
             "result == (evn('scope_provider', 0).result if after(evn('scope_provider', 0),"
             " truthy(evn('scope_provider', 0).result)) else None)"),
        ],
        canary="result is None",
        notes=f"one step of the search through {_what}",
    )


# --------------------------------------------------------------------------
# native replay: diamond and cyclic imports through the public API - every file parsed once
# per load, one instance per element, lookup order, global-repository cache
# --------------------------------------------------------------------------
from txvc.props import replay_for  # noqa: E402


def _c17_battery():
    import builtins
    import os
    import shutil
    import tempfile

    import textx.scoping.providers as sp
    from textx import get_model, metamodel_from_str

    grammar = ("Model: imports*=Import items*=Item uses*=Use; Import: 'import' importURI=STRING;"
               " Item: 'item' name=ID; Use: 'use' ref=[Item];")
    bad = []
    d = os.path.realpath(tempfile.mkdtemp(prefix="txvc-c17-"))

    def w(name, text):
        with open(os.path.join(d, name), "w") as f:
            f.write(text)

    opened = []
    real_open = builtins.open

    def counting_open(file, *a, **k):
        if isinstance(file, str) and file.endswith(".m"):
            opened.append(os.path.basename(file))
        return real_open(file, *a, **k)

    try:
        # diamond with a cycle: main -> a, b ; a -> c ; b -> c ; c -> main
        w("main.m", 'import "a.m"\nimport "b.m"\nitem m\nuse x\nuse y\nuse m\n')
        w("a.m", 'import "c.m"\nitem x\nuse z\n')
        w("b.m", 'import "c.m"\nitem y\nuse z\n')
        w("c.m", 'import "main.m"\nitem z\nuse m\n')
        for global_repo in (False, True):
            mm = metamodel_from_str(grammar, global_repository=global_repo)
            mm.register_scope_providers({"*.*": sp.PlainNameImportURI()})
            opened.clear()
            builtins.open = counting_open
            try:
                m = mm.model_from_file(os.path.join(d, "main.m"))
            finally:
                builtins.open = real_open
            tag = f"global_repository={global_repo}"
            if sorted(opened) != ["a.m", "b.m", "c.m", "main.m"]:
                bad.append(f"{tag}: files opened {sorted(opened)}, expected each of the four once")
            ma, mb = get_model(m.uses[0].ref), get_model(m.uses[1].ref)
            z_a = ma.uses[0].ref
            if mb.uses[0].ref is not z_a:
                bad.append(f"{tag}: 'z' of c.m has one instance for a.m and another for b.m")
            mc = get_model(z_a)
            if mc.uses[0].ref is not m.items[0]:
                bad.append(f"{tag}: the cyclic import of main.m produced a second instance of its item")
            if m.uses[2].ref is not m.items[0]:
                bad.append(f"{tag}: own item not found first")
            if global_repo:
                opened.clear()
                builtins.open = counting_open
                try:
                    m2 = mm.model_from_file(os.path.join(d, "main.m"))
                finally:
                    builtins.open = real_open
                if m2 is not m or opened:
                    bad.append(f"{tag}: repeated load re-read {opened} / returned another model")
        # the same cycle through a search-path based provider, without a global repository: the main
        # file must not be parsed a second time when an import leads back to it
        w("s_main.m", 'import "s_lib.m"\nitem sm\nuse sl\n')
        w("s_lib.m", 'import "s_main.m"\nitem sl\nuse sm\n')
        mm4 = metamodel_from_str(grammar)
        mm4.register_scope_providers({"*.*": sp.PlainNameImportURI(search_path=[d])})
        opened.clear()
        builtins.open = counting_open
        try:
            sm = mm4.model_from_file(os.path.join(d, "s_main.m"))
        finally:
            builtins.open = real_open
        if sorted(opened) != ["s_lib.m", "s_main.m"]:
            bad.append(f"search path + cycle: files opened {sorted(opened)}, expected each of the two once")
        if get_model(sm.uses[0].ref).uses[0].ref is not sm.items[0]:
            bad.append("search path + cycle: the import back to the main file produced a second instance of its item")
        # lookup order: own model, then loaded models, then builtin models
        from textx.scoping import ModelRepository

        w("lib.m", "item k\nitem only_lib\n")
        w("top.m", 'import "lib.m"\nitem k\nuse k\nuse only_lib\nuse only_builtin\n')
        mmb = metamodel_from_str(grammar)
        mmb.register_scope_providers({"*.*": sp.PlainNameImportURI()})
        bm = mmb.model_from_str("item k\nitem only_lib\nitem only_builtin\n")
        repo = ModelRepository()
        repo.add_model(bm)
        mm3 = metamodel_from_str(grammar, builtin_models=repo)
        mm3.register_scope_providers({"*.*": sp.PlainNameImportURI()})
        t = mm3.model_from_file(os.path.join(d, "top.m"))
        if t.uses[0].ref is not t.items[0]:
            bad.append("lookup order: 'k' did not resolve to the model's own item")
        if get_model(t.uses[1].ref)._tx_filename != os.path.join(d, "lib.m"):
            bad.append("lookup order: 'only_lib' did not resolve to the loaded model before the builtin one")
        if get_model(t.uses[2].ref) is not bm:
            bad.append("lookup order: 'only_builtin' did not resolve to the builtin model")
    finally:
        builtins.open = real_open
        shutil.rmtree(d, ignore_errors=True)
    return bad


def _replay_c17(model, rec):
    bad = _c17_battery()
    return bool(bad), ("multi-file loads on the real code:\n  " + "\n  ".join(bad)) if bad else \
        "diamond + cycle: every file read once, one instance per element, documented lookup order, cached reload"


for _u in ("providers.ImportURI.__call__", "providers.ImportURI.__call__.loaded-model-step",
           "providers.ImportURI.__call__.builtin-model-step", "scoping.GlobalModelRepository.load_model",
           "scoping.GlobalModelRepository.pre_ref_resolution_callback", "scoping.load_models_using_filepattern",
           "scoping.load_models_using_filepattern.step", "scoping.load_model_using_search_path",
           "providers.ImportURI._load_referenced_models.step", "providers.GlobalRepo._load_referenced_models.step"):
    replay_for(_u)(_replay_c17)
