"""C12 - printed RREL expressions re-parse to equivalent expressions.

The spec printer `pp` below is written production by production from the RREL
grammar (rrel_* functions) and RRELVisitor, so that parse(pp(t)) is t again;
that round trip is validated with the real parser on all small trees (bounded
stand-in, see the extra check).  Each __repr__ is proved equal to pp."""

from txvc.contracts import Ext, Loop, Schema, SpecFn, Unit
from txvc.props import ASSUME, TRUSTED, extra

from . import common  # noqa: F401

Schema("RRELParent", fields={"type": "str"})
Schema("RRELNavigation", fields={"name": "str", "consume_name": "bool", "fixed_name": "str|none"})
Schema("RRELBrackets", fields={"seq": "obj"})
Schema("RRELDots", fields={"num": "int"})
Schema("RRELSequence", fields={"paths": "list"})
Schema("RRELZeroOrMore", fields={"path_element": "obj"})
Schema("RRELPath", fields={"path_elements": "list"})
Schema("RRELExpression", fields={"seq": "obj", "flags": "str", "importURI": "bool", "use_proxy": "bool"})

UNITS = {
    # rrel_parent: "parent" "(" rrel_id ")"
    "RRELParent": ("'parent(' + self.type + ')'", "result == ''"),
    # rrel_navigation: ~name | name | 'fixed'~name ; the fixed name is quoted with the quote it does not contain
    "RRELNavigation": (
        "((\"'\" + self.fixed_name + \"'~\" + self.name) if \"'\" not in self.fixed_name"
        " else ('\"' + self.fixed_name + '\"~' + self.name))"
        " if self.fixed_name is not None else (self.name if self.consume_name else '~' + self.name)",
        "result == self.name"),
    # rrel_brackets: "(" rrel_sequence ")"
    "RRELBrackets": ("'(' + str(self.seq) + ')'", "result == ''"),
    # rrel_dots: \.+
    "RRELDots": ("'.' * self.num", "result == '.'"),
    # rrel_sequence: paths separated by ","
    "RRELSequence": ("','.join(map(str, self.paths))", "result == ''"),
    # rrel_zero_or_more: element "*"
    "RRELZeroOrMore": ("str(self.path_element) + '*'", "result == '*'"),
    # rrel_path: optional leading dots glued to the first element, elements separated by "."
    "RRELPath": (
        "(str(self.path_elements[0]) + '.'.join(map(str, self.path_elements[1:])))"
        " if is_instance(self.path_elements[0], 'RRELDots') else '.'.join(map(str, self.path_elements))",
        "result == ''"),
    # rrel_expression: optional "+flags:" prefix - printed whenever there are flags (m, p or mp)
    "RRELExpression": (
        "('+' + self.flags + ':' + str(self.seq)) if len(self.flags) > 0 else str(self.seq)",
        "result == ''"),
}

for _cls, (_pp, _canary) in UNITS.items():
    Unit(
        f"rrel.{_cls}.__repr__",
        target=f"textx/scoping/rrel.py::{_cls}.__repr__",
        props=["C12"],
        params={"self": f"obj:{_cls}"},
        requires=(["len(self.path_elements) >= 1"] if _cls == "RRELPath" else [])
        + (["implies(self.fixed_name is not None, not self.consume_name)"] if _cls == "RRELNavigation" else [])
        # constructor invariant of RRELExpression
        + (["self.importURI == ('m' in self.flags)", "self.use_proxy == ('p' in self.flags)"]
           if _cls == "RRELExpression" else []),
        returns="str",
        ensures=[("prints-the-grammar-form", f"result == ({_pp})")],
        canary=_canary,
    )


TRUSTED["C12"] = ["T-ARP: the RREL grammar functions are run by Arpeggio's ParserPython; RRELVisitor builds the tree"]
ASSUME["C12"] = ["str(x) of an RREL node is its __repr__ (no __str__ is defined); "
                 "sep.join(map(str, L)) is modelled as one function join_str(sep, contents of L)"]


@extra("C12")
def roundtrip_small_trees(tier, seed):
    """BOUNDED stand-in (never counted as proved): every RREL tree up to depth 2
    (3 in the thorough tier) over all operators and flag sets is printed with the
    real __repr__ and re-parsed with the real parser; structure and flags must agree."""
    import itertools

    from textx.scoping import rrel as R

    depth = 2 if tier == "quick" else 3

    def navs():
        yield lambda: R.RRELNavigation("a", True, None)
        yield lambda: R.RRELNavigation("b", False, None)
        yield lambda: R.RRELNavigation("c", False, "x y")
        yield lambda: R.RRELNavigation("c", False, "it's")
        yield lambda: R.RRELParent("T")

    def elements(d):
        yield from navs()
        if d > 0:
            for s in sequences(d - 1):
                yield lambda s=s: R.RRELBrackets(s())
            for e in itertools.islice(elements(d - 1), 6):
                yield lambda e=e: R.RRELZeroOrMore(e())

    def paths(d):
        els = list(itertools.islice(elements(d), 14))
        for e in els:
            yield lambda e=e: R.RRELPath([e()])
        for e in els[:5]:
            yield lambda e=e: R.RRELPath([R.RRELDots(2), e()])
            yield lambda e=e: R.RRELPath(["^", e()])
        for e1, e2 in itertools.islice(itertools.product(els[:5], els[:5]), 12):
            yield lambda e1=e1, e2=e2: R.RRELPath([e1(), e2()])
        yield lambda: R.RRELPath([R.RRELDots(3)])

    def sequences(d):
        ps = list(itertools.islice(paths(d), 30))
        for p in ps:
            yield lambda p=p: R.RRELSequence([p()])
        for p1, p2 in itertools.islice(itertools.product(ps[:5], ps[:5]), 10):
            yield lambda p1=p1, p2=p2: R.RRELSequence([p1(), p2()])

    def shape(x):
        if isinstance(x, R.RRELExpression):
            return ("E", x.flags, shape(x.seq))
        if isinstance(x, R.RRELSequence):
            return ("S", [shape(p) for p in x.paths])
        if isinstance(x, R.RRELPath):
            return ("P", [shape(p) for p in x.path_elements])
        if isinstance(x, R.RRELBrackets):
            return ("B", shape(x.seq))
        if isinstance(x, R.RRELZeroOrMore):
            return ("Z", shape(x.path_element))
        if isinstance(x, R.RRELDots):
            return ("D", x.num)
        if isinstance(x, R.RRELParent):
            return ("U", x.type)
        if isinstance(x, R.RRELNavigation):
            return ("N", x.name, x.consume_name, x.fixed_name)
        return ("?", repr(x))

    cases = 0
    violations = []
    samples = []
    for mk in sequences(depth):
        for flags in ("", "m", "p", "mp"):
            t = R.RRELExpression(mk(), flags)
            text = repr(t)
            cases += 1
            try:
                t2 = R.parse(text)
                ok = shape(t2) == shape(t)
            except Exception as e:  # noqa: BLE001
                ok, t2 = False, e
            if len(samples) < 3:
                samples.append({"printed": text, "reparsed_equal": ok})
            if not ok and len(violations) < 3:
                violations.append({"unit": "rrel.roundtrip", "kind": "BOUNDED", "label": "parse(repr(t)) == t",
                                   "path": [], "where": "bounded round trip", "text": f"{text!r} -> {t2!r}",
                                   "model": {"printed": text}, "native": True})
    return {"name": "rrel.roundtrip-small-trees", "backend": "enumeration with the real parser (bounded)",
            "obligations": 0, "discharged": 0, "bounded": True, "bound": f"tree depth <= {depth}",
            "cases": cases, "violations": violations, "samples": samples,
            "detail": f"{cases} trees x flag sets re-parsed"}
