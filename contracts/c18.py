"""C18 - a failing multi-file load leaves the model repositories clean.

Chain (each level is a unit; a caller sees only the callee's contract):
  main-model phase of parse_tree_to_objgraph (orchestrate.py): any failure =>
      remove_models_from_repositories(models, models) with the models of this load
  _remove_all_affected_models_in_construction (here): every included model that is still under
      construction is removed
  TextXMetaModel._call_model_processors / internal_model_from_file / model_from_str (loading.py):
      a failing model processor => everything this load added to the global repository is removed
  GlobalModelRepository.remove_model, ModelRepository.remove_model (c17.py): the model is gone from
      the repository, every other entry is untouched
"""

from txvc.contracts import Ext, Loop, Unit
from txvc.props import replay_for

from . import c17, c34, common, loading, orchestrate  # noqa: F401

INCLUDED = "as_list(evn('get_included_models', 0).result)"
REMOVED = "as_list(evn('remove_models_from_repositories', 0).args[1])"
# the two lists as they are when the removal is called (the removal itself is arbitrary code)
AT = "before(evn('remove_models_from_repositories', 0), {})"
_MARK = "hasattr({}, '_tx_reference_resolver')"  # the under-construction marker (at the time of the removal)

Unit(
    "model._remove_all_affected_models_in_construction",
    target="textx/model.py::_remove_all_affected_models_in_construction",
    props=["C18"],
    params={"model": "any"},
    calls={
        "get_included_models": Ext("get_included_models", returns="list", raises=None, pure=True,
                                   note="all models of the owning model's repository plus the model itself"),
        "remove_models_from_repositories": Ext("remove_models_from_repositories", raises=None, returns="none"),
    },
    modifies=["*"],
    ensures=[
        ("C18-removal-from-the-repositories-of-every-included-model",
         "n_calls('get_included_models') == 1 and evn('get_included_models', 0).args[0] == model"
         " and n_calls('remove_models_from_repositories') == 1"
         " and evn('remove_models_from_repositories', 0).args[0] == evn('get_included_models', 0).result"),
        ("C18-every-included-model-still-under-construction-is-removed",
         AT.format(f"forall(lambda j: implies(0 <= j and j < len({INCLUDED}) and "
                   + _MARK.format(f"{INCLUDED}[j]") +
                   f", exists_in(0, len({REMOVED}), lambda i: {REMOVED}[i] == {INCLUDED}[j])))")),
        ("C18-only-included-models-under-construction-are-removed",
         AT.format(f"forall(lambda i: implies(0 <= i and i < len({REMOVED}), " + _MARK.format(f"{REMOVED}[i]") +
                   f" and exists_in(0, len({INCLUDED}), lambda j: {REMOVED}[i] == {INCLUDED}[j])))")),
    ],
    canary="n_calls('remove_models_from_repositories') == 0",
)


# --------------------------------------------------------------------------
# native replay: failing multi-file loads through the public API, one per failure kind
# --------------------------------------------------------------------------
def _c18_battery():
    import os
    import shutil
    import tempfile

    import textx.scoping.providers as sp
    from textx import metamodel_from_str
    from textx.exceptions import TextXError

    grammar = ("Model: imports*=Import items*=Item uses*=Use; Import: 'import' importURI=STRING;"
               " Item: 'item' name=ID; Use: 'use' ref=[Item];")
    bad = []
    d = tempfile.mkdtemp(prefix="txvc-c18-")

    def w(name, text):
        with open(os.path.join(d, name), "w") as f:
            f.write(text)

    def keys(mm):
        return sorted(os.path.basename(k) for k in mm._tx_model_repository.all_models.filename_to_model)

    try:
        for kind in ("syntax-error-in-import", "unknown-reference-in-import", "unknown-reference-in-main",
                     "object-processor", "model-processor", "object-processor-plain-exception",
                     "model-processor-plain-exception", "scope-provider-plain-exception"):
            w("ok.m", 'import "lib.m"\nitem k\nuse b\n')
            w("lib.m", "item b\n")
            w("a.m", 'import "lib.m"\nimport "c.m"\nitem a\nuse b\n')
            w("c.m", "item c\n")
            mm = metamodel_from_str(grammar, global_repository=True)
            mm.register_scope_providers({"*.*": sp.FQNImportURI()})
            state = {"fail": True}
            exc_cls = ValueError if kind.endswith("plain-exception") else TextXError
            if kind.startswith("object-processor"):
                def proc(item, _s=state, _e=exc_cls):
                    if _s["fail"] and item.name == "a":
                        raise _e("processor says no")
                mm.register_obj_processors({"Item": proc})
            if kind.startswith("model-processor"):
                def mproc(model, metamodel, _s=state, _e=exc_cls):
                    if _s["fail"] and (model._tx_filename or "").endswith("a.m"):
                        raise _e("model processor says no")
                mm.register_model_processor(mproc)
            if kind.startswith("scope-provider"):
                inner = sp.FQNImportURI()

                def prov(obj, attr, ref, _s=state, _i=inner):
                    if _s["fail"] and ref.obj_name == "b" and (obj.parent._tx_filename or "").endswith("a.m"):
                        raise KeyError("provider breaks")
                    return _i(obj, attr, ref)
                mm.register_scope_providers({"*.*": inner, "Use.ref": prov})
            if kind == "syntax-error-in-import":
                w("c.m", "item item item\n")
            if kind == "unknown-reference-in-import":
                w("c.m", "item c\nuse nowhere\n")
            if kind == "unknown-reference-in-main":
                w("a.m", 'import "lib.m"\nimport "c.m"\nitem a\nuse nowhere\n')
            ok = mm.model_from_file(os.path.join(d, "ok.m"))  # an earlier successful load
            before = keys(mm)
            try:
                mm.model_from_file(os.path.join(d, "a.m"))
                bad.append(f"{kind}: the load did not fail")
                continue
            except Exception:  # noqa: BLE001
                pass
            if keys(mm) != before:
                bad.append(f"{kind}: repository holds {keys(mm)} after the failed load, before it held {before}")
            # correct the failing file: the next load succeeds with the right identities
            state["fail"] = False
            w("c.m", "item c\n")
            w("a.m", 'import "lib.m"\nimport "c.m"\nitem a\nuse b\n')
            try:
                m = mm.model_from_file(os.path.join(d, "a.m"))
                if m.uses[0].ref is not ok.uses[0].ref:
                    bad.append(f"{kind}: after the correction 'b' is not the instance cached by the earlier load")
                if keys(mm) != sorted(set(before) | {"a.m", "c.m"}):
                    bad.append(f"{kind}: after the correction the repository holds {keys(mm)}")
            except Exception as e:  # noqa: BLE001
                bad.append(f"{kind}: load after the correction failed: {type(e).__name__}: {e}")
    finally:
        shutil.rmtree(d, ignore_errors=True)
    return bad


@replay_for("model._remove_all_affected_models_in_construction")
@replay_for("model.main-model-phase")
@replay_for("metamodel._call_model_processors")
@replay_for("metamodel._known_model_files")
def _replay_c18(model, rec):
    pid = rec.get("property")
    if pid in ("C13", "C14"):
        from .c13 import _c13_battery

        bad = _c13_battery()
        return bool(bad), "; ".join(bad) or "object-processor battery passes"
    if pid == "C09":
        from .c09 import _c09_battery

        bad = _c09_battery()
        return bool(bad), "; ".join(bad) or "postponed-resolution battery passes"
    bad = _c18_battery()
    return bool(bad), ("failing multi-file loads on the real code:\n  " + "\n  ".join(bad)) if bad else \
        "every kind of failing multi-file load leaves only the earlier models cached; the corrected load succeeds"


# --------------------------------------------------------------------------
# parse_tree_to_objgraph as a whole: once the model object exists, EVERY failure (callback,
# loading of imports, resolution, processors, tool-support tables) goes through the clean-up
# of all models under construction; a failure while the object graph is built (nothing is
# registered anywhere yet) and success do not touch the repositories.  The main-model phase
# is a unit of its own and is used by contract here.
# --------------------------------------------------------------------------
CLEANUP = "remove_all_affected_models_in_construction"

Unit(
    "model.parse_tree_to_objgraph",
    target="textx/model.py::parse_tree_to_objgraph",
    props=["C18", "C27"],
    params={"parser": "obj:TextXModelParser", "parse_tree": "obj:ParseTreeNode", "file_name": "any",
            "pre_ref_resolution_callback": "any", "is_main_model": "any", "encoding": "any"},
    calls={
        "process_node": Ext("process_node", note="builds the object graph of this file (units in process_node.py)"),
        "_start_model_construction": Ext("start_model_construction", pure=False, raises=["AttributeError", "AssertionError"],
                                         returns="none", note="marks the model as under construction"),
        "pre_ref_resolution_callback": Ext("pre_ref_resolution_callback",
                                           note="installs model parameters / repositories (C27, C17)"),
        "scope_provider.load_models": Ext("load_models", note="ModelLoader providers load the imported files"),
        "_remove_all_affected_models_in_construction": Ext(
            CLEANUP, raises=None, returns="none",
            note="verified above: removes every included model still under construction from all repositories"),
        "type": Ext("type", pure=True, raises=None),
    },
    # (the position-map statement at the end is executed inline: its unit, contracts/c34.py, needs the
    # data invariant "keys are (int, int) spans" that process_node's insertion unit establishes and
    # that an external call cannot carry)
    regions={"if:is_main_model": "model.main-model-phase"},
    # user code running during a load does not switch the tool-support option of the metamodel
    ext_protect=["metamodel.textx_tools_support"],
    modifies=["*"],
    loops={
        "for:metamodel.scope_providers.values()": Loop(modifies=["*"], inv=[], protect=["metamodel.textx_tools_support"]),
        "for:parser._crossrefs": Loop(modifies=["*"], inv=[], protect=["metamodel.textx_tools_support"]),
    },
    ensures=[
        ("C18-success-removes-nothing", f"n_calls('{CLEANUP}') == 0 and result == evn('process_node', 0).result"),
        ("C27-callback-sees-the-new-model-before-anything-is-loaded-or-resolved",
         "n_calls('pre_ref_resolution_callback') <= 1 and implies(n_calls('pre_ref_resolution_callback') == 1,"
         " evn('pre_ref_resolution_callback', 0).callee == pre_ref_resolution_callback"
         " and evn('pre_ref_resolution_callback', 0).args[0] == result"
         " and implies(n_calls('load_models') > 0, evpos('pre_ref_resolution_callback', 0) < evpos('load_models', 0)))",
         "C27"),
    ],
    raises={"*": [
        ("C18-a-failure-before-the-model-exists-has-nothing-to-clean",
         f"implies(n_calls() == 1 and n_calls('process_node') == 1, n_calls('{CLEANUP}') == 0)"),
        ("C18-every-later-failure-cleans-up-all-models-under-construction",
         f"implies(n_calls() > 1, n_calls('{CLEANUP}') == 1 and evpos('{CLEANUP}', 0) == n_calls() - 1"
         f" and evn('{CLEANUP}', 0).args[0] == evn('process_node', 0).result)"),
    ]},
    canary=f"n_calls('{CLEANUP}') == 1",
)

replay_for("model.parse_tree_to_objgraph")(_replay_c18)
