"""C10 - the FQN scope provider resolves only genuine qualified names.

  FQN.__call__.<locals>._find_obj_fqn.<locals>.find_obj(parent, name)   one step: the named object directly
        CONTAINED in `parent` (an attribute of parent's class with cont == True; never the parent link, never a
        reference attribute), None when there is none;
  _find_obj_fqn(p, fqn_name, cls)     consumes the parts left to right, type check on the last object;
  _find_referenced_obj(p, name, cls)  the referencing object first, then its ancestors outward.

Stated for the plain provider (scope_redirection_logic is None; FQNImportURI / FQNGlobalRepo install a
redirection, which is not covered here)."""

from txvc.contracts import Ext, Loop, SpecFn, Unit

from . import c03, common  # noqa: F401

# footprint of the spec functions: any attribute of any object, list and dict contents
FP = ["@attr", "[]", "{}", "parent"]
FIND_OBJ = "textx/scoping/providers.py::FQN.__call__._find_obj_fqn.find_obj"

# the attribute `a` of `p` is a containment attribute of p's class (objects that textX did not create have no
# attribute table: every public data attribute counts, as before)
CONT = ("(a in p.__dict__ and not as_str(a).startswith('__') and not as_str(a).startswith('_tx_')"
        " and (not hasattr(cls(p), '_tx_attrs') or cls(p)._tx_attrs is None"
        " or (a in as_dict(cls(p)._tx_attrs) and truthy(as_dict(cls(p)._tx_attrs)[a].cont))))")
SpecFn("cont_attr", [("p", "any"), ("a", "str")], "bool", reads=FP, defn=CONT, unfold=3)
# o is the value of attribute a of p, or an element of it when it is a list or tuple, and is called n
HOLDS = ("(is_ref(o) and hasattr(o, 'name') and o.name == n and"
         " (exists_in(0, len(as_list(getattr(p, a))), lambda j: as_list(getattr(p, a))[j] == o)"
         " if is_list(getattr(p, a)) else getattr(p, a) == o))")

def holds(p, a, o, n):
    return HOLDS.replace("getattr(p, a)", f"getattr({p}, {a})").replace("o.name == n", f"{o}.name == {n}") \
        .replace("hasattr(o,", f"hasattr({o},").replace("is_ref(o)", f"is_ref({o})").replace("== o", f"== {o}")


# nothing called n in the value of attribute a of p (a list or tuple is searched element by element)
NO_MATCH = ("(forall(lambda k: implies(0 <= k and k < len(as_list(getattr(p, a))),"
            " not (hasattr(as_list(getattr(p, a))[k], 'name') and as_list(getattr(p, a))[k].name == n)))"
            " if is_list(getattr(p, a)) or is_instance(getattr(p, a), 'tuple') else"
            " not (hasattr(getattr(p, a), 'name') and getattr(p, a).name == n))")
SpecFn("no_match", [("p", "any"), ("a", "str"), ("n", "any")], "bool", reads=FP, defn=NO_MATCH)
CONT_A = CONT.replace("(p)", "(parent)").replace("p.__dict__", "parent.__dict__").replace("(a in parent", "(as_str(a) in parent").replace("(p,", "(parent,").replace("[a]", "[as_str(a)]") \
    .replace("(a)", "(as_str(a))").replace(" a)", " as_str(a))").replace("(a in", "(as_str(a) in")

# one step of a qualified name: o is held by the containment attribute a of p and is called n
SpecFn("step_at", [("p", "any"), ("a", "str"), ("o", "any"), ("n", "any")], "bool", reads=FP,
       defn=CONT + " and " + HOLDS)
# ... by some containment attribute
SpecFn("step", [("p", "any"), ("o", "any"), ("n", "any")], "bool", reads=FP,
       defn="exists_val(lambda a: is_str(a) and step_at(p, as_str(a), o, n))")

Unit(
    "providers.FQN.find_obj",
    target=FIND_OBJ,
    props=["C10"],
    params={"parent": "obj", "name": "any"},
    captured={"current_obj": "obj", "self": "obj:FQN"},
    requires=["self.scope_redirection_logic is None"],
    locals={"tx_attrs": "dict|none"},
    # (the redirection branch is unreachable under the precondition; these two entries only let the engine walk
    # through it when the feasibility budget is too short to prune it - every obligation there is vacuous)
    calls={"self.scope_redirection_logic": Ext("scope_redirection_logic", returns="any",
                                               note="unreachable here: requires scope_redirection_logic is None")},
    returns="any",
    modifies=[],
    preserves=FP,
    loops={
        "for:res": Loop(modifies=["*"], inv=[]),
        "for:[a for a in parent.__dict__*": Loop(
            pure=True,
            inv=["implies(_i > 0, no_match(parent, as_str(_it[_i - 1]), name))",
                 "forall(lambda j: implies(0 <= j and j < _i, no_match(parent, as_str(_it[j]), name)))"]),
        "for:obj": Loop(
            pure=True,
            inv=["forall(lambda k: implies(0 <= k and k < _i,"
                 " not (hasattr(as_list(obj)[k], 'name') and as_list(obj)[k].name == name)))"]),
    },
    ensures=[
        ("C10-a-step-follows-a-containment-attribute-never-the-parent-link-or-a-reference",
         "implies(result is not None, cont_attr(parent, final_attr))"),
        ("C10-the-object-found-is-held-by-that-attribute-and-has-the-name",
         "implies(result is not None, " + holds("parent", "final_attr", "result", "name") + ")"),
        ("C10-one-step-through-that-attribute", "implies(result is not None, step_at(parent, final_attr, result, name))"),
        ("C10-one-step-of-a-qualified-name", "implies(result is not None, is_ref(result) and step(parent, result, name))"),
        ("C10-nothing-found-only-if-no-contained-object-has-the-name",
         "implies(result is None, forall_val(lambda a: implies(is_str(a) and " + CONT_A
         + " and not callable(getattr(parent, as_str(a))), no_match(parent, as_str(a), name))))"),
    ],
    raises=None,
    canary="result is None",
)


# --------------------------------------------------------------------------
# _find_obj_fqn: the parts of the dotted name are consumed left to right; every part is one containment step
# from the object reached so far; the type check is on the last object
# --------------------------------------------------------------------------
SpecFn("chain", [("p0", "any"), ("s", "str"), ("i", "int"), ("o", "any")], "bool", reads=FP,
       defn="(o == p0) if i <= 0 else exists_val(lambda m: chain(p0, s, i - 1, m) and step(m, o, split_at(s, '.', i - 1)))")
FIND_FQN = "textx/scoping/providers.py::FQN.__call__._find_obj_fqn"

Unit(
    "providers.FQN._find_obj_fqn",
    target=FIND_FQN,
    props=["C10"],
    params={"p": "obj", "fqn_name": "str", "cls": "any"},
    captured={"current_obj": "obj", "self": "obj:FQN"},
    requires=["self.scope_redirection_logic is None"],
    calls={"find_obj": "providers.FQN.find_obj", "textx_isinstance": "model.textx_isinstance"},
    returns="any",
    modifies=[],
    preserves=FP,
    loops={
        "for:fqn_name.split('.')": Loop(
            modifies=[], preserves=FP,
            inv=["is_ref(p) and chain(entry_p, fqn_name, _i, p)", "implies(_i > 0, obj == p)",
                 "len(_it) == split_len(fqn_name, '.')",
                 "forall(lambda j: implies(0 <= j and j < len(_it), _it[j] == split_at(fqn_name, '.', j)))"]),
    },
    # (entailment queries over the quantified relations chain/step need more than the quick tier's 0.6 s)
    ghost={"opts": {"feas_timeout": 3000}},
    ensures=[
        ("C10-every-part-is-one-containment-step-and-all-parts-are-consumed",
         "implies(result is not None and cls(result) != Postponed,"
         " chain(p, fqn_name, split_len(fqn_name, '.'), result))"),
        ("C10-the-last-object-conforms-to-the-target-type",
         "implies(result is not None and cls(result) != Postponed, conf(result, cls))"),
    ],
    raises=None,
    canary="result is None",
)


# --------------------------------------------------------------------------
# _find_referenced_obj: the referencing object first, then its ancestors (parent links) outward.
# Proved: whatever is returned was found by _find_obj_fqn from the referencing object or from one of its
# ancestors (soundness).  NOT proved here: that the NEAREST such ancestor wins (order of the attempts) - bounded
# battery only.
# --------------------------------------------------------------------------
SpecFn("up", [("q", "any"), ("p0", "any")], "bool", reads=["parent"],
       defn="q == p0 or exists_val(lambda m: up(m, p0) and is_ref(m) and hasattr(m, 'parent') and m.parent == q)")
FIND_REF = "textx/scoping/providers.py::FQN.__call__._find_referenced_obj"
NPARTS = "split_len(name, '.')"

Unit(
    "providers.FQN._find_referenced_obj",
    target=FIND_REF,
    props=["C10"],
    params={"p": "obj", "name": "str", "cls": "any"},
    captured={"current_obj": "obj", "self": "obj:FQN", "_find_obj_fqn": "any"},
    requires=["self.scope_redirection_logic is None"],
    calls={"_find_obj_fqn": "providers.FQN._find_obj_fqn"},
    returns="any",
    modifies=[],
    preserves=FP,
    loops={
        "while:hasattr(p, 'parent')": Loop(modifies=[], preserves=FP, inv=["up(p, entry_p)"]),
    },
    ensures=[
        ("C10-found-from-the-referencing-object-or-one-of-its-ancestors",
         "implies(result is not None and cls(result) != Postponed,"
         f" up(final_p, p) and chain(final_p, name, {NPARTS}, result))"),
        ("C10-the-object-found-conforms-to-the-target-type",
         "implies(result is not None and cls(result) != Postponed, conf(result, cls))"),
    ],
    raises=None,
    canary="result is None",
)


# the order of the attempts: the referencing object first ...
F = "call:providers.FQN._find_obj_fqn"
Unit(
    "providers.FQN._find_referenced_obj.first-attempt",
    target=FIND_REF,
    region="assign:ret",
    props=["C10"],
    params={"p": "obj", "name": "str", "cls": "any"},
    captured={"current_obj": "obj", "self": "obj:FQN", "_find_obj_fqn": "any"},
    requires=["self.scope_redirection_logic is None"],
    calls={"_find_obj_fqn": "providers.FQN._find_obj_fqn"},
    modifies=[],
    preserves=FP,
    ensures=[
        ("C10-the-search-starts-at-the-referencing-object",
         f"n_calls('{F}') == 1 and evn('{F}', 0).args['p'] == p and evn('{F}', 0).args['fqn_name'] == name"
         f" and evn('{F}', 0).args['cls'] == cls and final_ret == evn('{F}', 0).result"),
    ],
    raises=None,
    canary="final_ret is None",
)
# ... then ONE parent link outward per iteration, returning the first hit
Unit(
    "providers.FQN._find_referenced_obj.next-ancestor",
    target=FIND_REF,
    region="body:while:hasattr(p, 'parent')",
    props=["C10"],
    params={"p": "obj", "name": "str", "cls": "any"},
    captured={"current_obj": "obj", "self": "obj:FQN", "_find_obj_fqn": "any"},
    requires=["self.scope_redirection_logic is None"],
    calls={"_find_obj_fqn": "providers.FQN._find_obj_fqn"},
    returns="any",
    modifies=[],
    preserves=FP,
    ensures=[
        ("C10-one-parent-link-outward-per-attempt",
         f"final_p == old(p.parent) and n_calls('{F}') == 1 and evn('{F}', 0).args['p'] == old(p.parent)"
         f" and evn('{F}', 0).args['fqn_name'] == name and evn('{F}', 0).args['cls'] == cls"),
        ("C10-the-first-hit-is-returned-and-nothing-else",
         f"(result == evn('{F}', 0).result) if truthy(evn('{F}', 0).result) else (result is None)"),
    ],
    raises=None,
    canary="result is None",
)


# --------------------------------------------------------------------------
# Bounded battery (never counted as proved): the whole statement, natively.  Random package trees with
# sibling-unique (but globally repeated) names, classes with `extends` references, one reference per model placed
# at a random depth; the expected target comes from an oracle over the GENERATED tree (it never looks at textX):
# from the referencing object outward, the first ancestor from which the dotted name is a chain of contained,
# named objects ending in a Class.  Names that would only resolve through the parent link or through `extends`
# must be reported as unknown.
# --------------------------------------------------------------------------
from txvc.props import extra, replay_for  # noqa: E402

C10_GRAMMAR = r"""
Model: (packages+=Package | refs+=Ref)*;
Package: 'package' name=ID '{' (packages+=Package | classes+=Class | refs+=Ref)* '}';
Class: 'class' name=ID ('extends' base=[Class:FQN])?;
Ref: 'ref' cls=[Class:FQN];
FQN: ID('.'ID)*;
"""


def _c10_gen(rnd):
    names = ["a", "b", "c"]

    def mk_pkg(depth, parent):
        kids = []
        node = {"kind": "package", "name": None, "kids": kids, "parent": parent}
        pool = rnd.sample(names, rnd.randint(1, 3))
        for nm in pool:
            if depth < 2 and rnd.random() < 0.5:
                k = mk_pkg(depth + 1, node)
            else:
                k = {"kind": "class", "name": None, "kids": [], "parent": node, "base": None}
            k["name"] = nm
            kids.append(k)
        return node

    root = {"kind": "model", "name": None, "kids": [], "parent": None}
    for nm in rnd.sample(names, rnd.randint(1, 2)):
        k = mk_pkg(0, root)
        k["name"] = nm
        root["kids"].append(k)
    return root


def _c10_all(node, kind=None):
    out = []
    for k in node["kids"]:
        if kind is None or k["kind"] == kind:
            out.append(k)
        out += _c10_all(k, kind)
    return out


def _c10_path(node):
    p = []
    while node is not None and node["name"] is not None:
        p.append(node["name"])
        node = node["parent"]
    return list(reversed(p))


def _c10_oracle(start, parts):
    """from `start` (the scope holding the reference) outward: first scope with a containment chain to a Class"""
    s = start
    while s is not None:
        cur = s
        ok = True
        for n in parts:
            nxt = [k for k in cur["kids"] if k["name"] == n]
            if not nxt:
                ok = False
                break
            cur = nxt[0]
        if ok and cur["kind"] == "class" and parts:
            return cur
        s = s["parent"]
    return None


def _c10_text(node, ref_at, ref_name, indent=""):
    out = []
    for k in node["kids"]:
        if k["kind"] == "package":
            out.append(f"{indent}package {k['name']} {{")
            out += _c10_text(k, ref_at, ref_name, indent + "  ")
            out.append(f"{indent}}}")
        else:
            out.append(f"{indent}class {k['name']}" + (f" extends {k['base']}" if k.get("base") else ""))
    if node is ref_at:
        out.append(f"{indent}ref {ref_name}")
    return out


def _c10_battery(tier, seed):
    import random

    from textx import metamodel_from_str
    from textx.exceptions import TextXSemanticError
    from textx.scoping.providers import FQN

    rnd = random.Random(4000 + seed)
    mm_plain = metamodel_from_str(C10_GRAMMAR)
    mm_plain.register_scope_providers({"*.*": FQN()})

    class Package:  # a user-supplied class: its attributes live in a side table while the model is loaded
        def __init__(self, parent, name, packages, classes, refs):
            self.parent, self.name, self.packages, self.classes, self.refs = parent, name, packages, classes, refs

    mm_user = metamodel_from_str(C10_GRAMMAR, classes=[Package])
    mm_user.register_scope_providers({"*.*": FQN()})
    bad = []
    n = 0
    for _ in range(140 if tier != "thorough" else 600):
        root = _c10_gen(rnd)
        classes = _c10_all(root, "class")
        if not classes:
            continue
        # some classes extend another class, named by its absolute path (always a containment chain from the root)
        for c in classes:
            if rnd.random() < 0.4:
                c["base"] = ".".join(_c10_path(rnd.choice(classes)))
        scopes = [root] + _c10_all(root, "package")
        at = rnd.choice(scopes)
        tgt = rnd.choice(classes)
        full = _c10_path(tgt)
        kind = rnd.randint(0, 5)
        if kind == 0:
            parts = full
        elif kind == 1:  # relative: a suffix of the absolute path
            parts = full[rnd.randint(0, len(full) - 1):]
        elif kind == 2 and len(full) >= 2:  # through the parent link: p.c.p.c
            parts = full + full[-2:]
        elif kind == 3:  # through an `extends` reference: <class with a base>.<name of the base>
            withbase = [c for c in classes if c.get("base")]
            if withbase:
                c = rnd.choice(withbase)
                parts = _c10_path(c) + [c["base"].split(".")[-1]]
            else:
                parts = full
        elif kind == 4:
            parts = [rnd.choice("abc") for _ in range(rnd.randint(1, 3))]
        else:
            parts = full[:-1] + [rnd.choice("abc")]
        name = ".".join(parts)
        text = "\n".join(_c10_text(root, at, name))
        want = _c10_oracle(at, parts)
        n += 1
        mm = mm_user if n % 3 == 0 else mm_plain
        try:
            m = mm.model_from_str(text)
        except TextXSemanticError as e:
            if want is not None:
                bad.append(f"reference {name!r} in scope {'.'.join(_c10_path(at)) or '<model>'} should resolve to "
                           f"{'.'.join(_c10_path(want))} but: {e.message}\n{text}")
            continue
        except Exception as e:  # noqa: BLE001
            bad.append(f"{type(e).__name__}: {e}\n{text}")
            continue

        def refs(o):
            out = list(getattr(o, "refs", []))
            for p in getattr(o, "packages", []):
                out += refs(p)
            return out

        r = refs(m)[0]
        got = []
        o = r.cls
        while o is not None and hasattr(o, "name"):
            got.append(o.name)
            o = getattr(o, "parent", None)
        got = list(reversed(got))
        if want is None:
            bad.append(f"reference {name!r} in scope {'.'.join(_c10_path(at)) or '<model>'} resolved to "
                       f"{'.'.join(got)} although no chain of contained named objects matches it\n{text}")
        elif got != _c10_path(want):
            bad.append(f"reference {name!r} in scope {'.'.join(_c10_path(at)) or '<model>'} resolved to "
                       f"{'.'.join(got)}, the nearest match is {'.'.join(_c10_path(want))}\n{text}")
    return n, bad


@extra("C10")
def fqn_battery(tier, seed):
    n, bad = _c10_battery(tier, seed)
    res = {"name": "providers.FQN.battery", "backend": "native run of the real provider (bounded stand-in)",
           "obligations": 0, "discharged": 0, "bounded": True,
           "bound": f"{n} random package trees (depth <= 3, names a/b/c unique among siblings), one reference each",
           "cases": n, "violations": [],
           "detail": "target of the reference against an oracle over the generated tree: nearest scope outward with a "
                     "containment chain ending in a Class; unknown otherwise (in particular through parent / extends)"}
    if bad:
        res["violations"].append({"unit": res["name"], "kind": "BOUNDED", "label": "resolves-exactly-the-genuine-qualified-names",
                                  "prop": "C10", "result": "refuted", "text": bad[0][:600], "where": "battery",
                                  "path": [], "model": {"failures": [b[:800] for b in bad[:6]], "count": len(bad)},
                                  "native": True, "time": 0, "reason": ""})
    return res


def _replay_c10(model, rec):
    n, bad = _c10_battery("thorough", 0)
    return bool(bad), (bad[0][:600] if bad else f"all {n} generated references as stated")


for _u in ("providers.FQN.battery", "providers.FQN.find_obj", "providers.FQN._find_obj_fqn",
           "providers.FQN._find_referenced_obj"):
    replay_for(_u)(_replay_c10)


from txvc.props import ASSUME  # noqa: E402

ASSUME["C10"] = [
    "plain provider only: scope_redirection_logic is None (precondition of every unit); FQNImportURI / FQNGlobalRepo "
    "are not covered",
    "A-COMP-PURE: the condition of the comprehension over parent.__dict__ (startswith, callable, getattr, the "
    "_tx_attrs lookup) has no side effects and raises nothing; the resulting list holds every qualifying own "
    "attribute name exactly once in an unspecified order",
    "A-WD (tuples): an attribute value that passes isinstance(obj, (list, tuple)) is iterated as a list; tuple-valued "
    "attributes are outside the model",
    "callee parameters are not type-checked at call sites: _find_obj_fqn is applied by contract to p.parent even "
    "though nothing says that value is an object (an AttributeError there is an implicit exception, not explored)",
    "nearest-first as ONE postcondition, completeness of the whole chain (needs unique sibling names), termination of "
    "the parent walk and FQN.__call__ itself are not proved (bounded battery only)",
]
