"""C08 - reference lists keep the textual order of the references.

Deductive part: (1) process_node appends one cross-ref per list element, in child order, each located at
its own text (contracts/process_node.py, clauses C08-*); (2) the statement of resolve_one_step that
stores a resolved target (region unit model.resolve_one_step.store in contracts/resolve.py): the resolver keeps,
per (object, list attribute), the sorted input positions of the references already resolved; a target is
inserted exactly where its reference's position stands among them - proved for every state of that
bookkeeping, i.e. for every order in which a provider lets the references resolve - the positions stay
sorted, earlier elements keep their place, nothing else changes (FRAME); (3) the loop body of
resolve_one_step uses that statement by contract, for every provider behaviour (postponed: nothing stored).
The induction over steps (invariant R3: positions sorted, not longer than the list) is the modular
structure; the battery below runs every postponement schedule of a small model end to end (bounded).
"""

from txvc.props import ASSUME, extra, replay_for

from . import process_node, resolve  # noqa: F401

ASSUME.setdefault("C08", []).extend([
    "scope providers do not modify the reference list being filled nor the resolver's position bookkeeping",
    "bisect.bisect_right(L, x) on a sorted list of ints returns the index after the last element <= x (T-PY)",
])


def _c08_battery(max_delay=2):
    import itertools

    from textx import metamodel_from_str
    from textx.scoping import Postponed
    from textx.scoping.providers import PlainName

    grammar = "Model: items+=Item 'refs' refs+=[Item]+ ';' ('more' more+=[Item]+)?; Item: 'item' name=ID;"
    text = "item a item b item c item d refs d a c b ; more b b a"
    names = ["a", "b", "c", "d"]
    bad = []
    n = 0
    for delays in itertools.product(range(max_delay + 1), repeat=4):
        mm = metamodel_from_str(grammar)
        seen = {}

        def prov(obj, attr, ref, _seen=seen, _d=delays):
            k = (attr.name, ref.obj_name, ref.position)
            _seen[k] = _seen.get(k, 0) + 1
            if _seen[k] <= _d[names.index(ref.obj_name)]:
                return Postponed()
            return PlainName()(obj, attr, ref)

        mm.register_scope_providers({"Model.refs": prov, "Model.more": prov})
        try:
            m = mm.model_from_str(text)
        except Exception as e:  # noqa: BLE001
            if "Unresolvable" in str(e):
                continue  # a round without progress: the schedule is not a resolvable one
            raise
        n += 1
        got, got2 = [x.name for x in m.refs], [x.name for x in m.more]
        if got != ["d", "a", "c", "b"] or got2 != ["b", "b", "a"]:
            bad.append(f"postponements {dict(zip(names, delays))}: refs == {got}, more == {got2}; the input says "
                       "refs d a c b ; more b b a")
            if len(bad) > 3:
                break
    # nested objects that start at the same input position and both have a reference list of the same name
    g2 = ("Model: items+=Item groups+=Group; Item: 'item' name=ID;"
          " Group: head=Head 'more' refs+=[Item]* ';'; Head: refs+=[Item]+ ';';")
    t2 = "item a item b item c  b a ; more c a b ;"
    for delays in itertools.product(range(max_delay + 1), repeat=3):
        mm = metamodel_from_str(g2)
        seen = {}

        def prov2(obj, attr, ref, _seen=seen, _d=delays):
            k = (type(obj).__name__, ref.obj_name, ref.position)
            _seen[k] = _seen.get(k, 0) + 1
            if _seen[k] <= _d["abc".index(ref.obj_name)]:
                return Postponed()
            return PlainName()(obj, attr, ref)

        mm.register_scope_providers({"*.refs": prov2})
        try:
            m = mm.model_from_str(t2)
        except Exception as e:  # noqa: BLE001
            if "Unresolvable" in str(e):
                continue
            raise
        n += 1
        g = m.groups[0]
        got = ([x.name for x in g.head.refs], [x.name for x in g.refs])
        if got != (["b", "a"], ["c", "a", "b"]):
            bad.append(f"nested objects starting at the same position, postponements {dict(zip('abc', delays))}: "
                       f"head.refs == {got[0]}, refs == {got[1]}; the input says b a ; more c a b")
            if len(bad) > 3:
                break
    return n, bad


@extra("C08")
def order_battery(tier, seed):
    n, bad = _c08_battery(2 if tier == "quick" else 3)
    res = {"name": "model.reference-list-order.battery", "backend": "native run of the real loader (bounded stand-in)",
           "obligations": 0, "discharged": 0, "bounded": True,
           "bound": "every schedule postponing each of 4 targets 0..2 (thorough: 0..3) times, two list attributes, a duplicate",
           "cases": n, "violations": [], "detail": "resolved lists equal the textual order for every resolvable schedule"}
    if bad:
        res["violations"].append({"unit": "model.reference-list-order.battery", "kind": "BOUNDED",
                                  "label": "lists-keep-textual-order-under-every-schedule", "prop": "C08",
                                  "result": "refuted", "text": "; ".join(bad[:3]), "where": "battery", "path": [],
                                  "model": {"failures": bad[:6]}, "native": True, "time": 0, "reason": ""})
    return res


def _replay_c08(model, rec):
    n, bad = _c08_battery(2)
    return bool(bad), "; ".join(bad[:3]) or f"reference lists keep the textual order under all {n} schedules"


replay_for("model.reference-list-order.battery")(_replay_c08)
replay_for("model.resolve_one_step.store")(_replay_c08)
