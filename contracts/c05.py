"""C05 - containment links and the model navigation API."""

from txvc.contracts import Ext, Loop, SpecFn, Unit

from . import common  # noqa: F401

# ghost: length of the parent chain (finite for every model object: precondition
# `depth(x) >= 0` is the well-foundedness of containment established by
# process_node, which only ever links a freshly created object to an older one)
SpecFn(
    "depth", [("x", "any")], "int", reads=["parent"],
    defn="(depth(x.parent) + 1) if hasattr(x, 'parent') else 0",
    facts=["depth(x) >= 0"],
)
# the model root: the ancestor-or-self that has no parent
SpecFn(
    "root_of", [("x", "any")], "any", reads=["parent"],
    defn="root_of(x.parent) if hasattr(x, 'parent') else x",
)
# nearest proper ancestor whose class name is typ (None if there is none)
SpecFn(
    "anc_of_type", [("x", "any"), ("typ", "str")], "any", reads=["parent", "__name__"],
    defn="(x.parent if x.parent.__class__.__name__ == typ else anc_of_type(x.parent, typ))"
         " if hasattr(x, 'parent') else None",
)

Unit(
    "model.get_model",
    target="textx/model.py::get_model",
    props=["C05", "C33", "C06"],
    params={"obj": "any"},
    ensures=[
        ("returns-root", "result == root_of(obj)"),
        ("root-has-no-parent", "not hasattr(result, 'parent')"),
    ],
    loops={
        "while:hasattr(p, 'parent')": Loop(
            inv=["root_of(p) == root_of(obj)", "depth(p) >= 0"],
            variant="depth(p)", preserves=["parent", "__name__"], pure=True,
        )
    },
    preserves=["parent", "__name__", "_tx_inh_by", "_tx_fqn", "[]"],
    canary="result == obj",
)

Unit(
    "model.get_parent_of_type",
    target="textx/model.py::get_parent_of_type",
    props=["C05"],
    params={"typ": "any", "obj": "any"},
    requires=["implies(not is_str(typ), is_str(typ.__name__))"],  # a class's __name__ is a str
    ensures=[("nearest-ancestor-of-type",
              "result == anc_of_type(obj, as_str(typ if is_str(typ) else typ.__name__))")],
    loops={
        "while:hasattr(obj, 'parent')": Loop(
            inv=["anc_of_type(obj, as_str(typ)) == anc_of_type(entry_obj, as_str(typ))", "depth(obj) >= 0"],
            variant="depth(obj)", preserves=["parent", "__name__"], pure=True,
        )
    },
    preserves=["parent", "__name__", "_tx_inh_by", "_tx_fqn", "[]"],
    canary="result is None",
)
