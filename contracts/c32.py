"""C32 - scope provider selection (the precedence clauses are in resolve.py);
here: RREL strings registered in place of providers and RREL written in the
grammar are turned into providers by the same constructor."""

from txvc.contracts import Ext, Loop, SpecFn, Unit

from . import common, resolve  # noqa: F401

# the provider object create_rrel_scope_provider builds for a tree or string (T-ARP for parsing)
SpecFn("rrel_provider", [("tree_or_string", "any")], "any")

CREATE = Ext(
    "create_rrel_scope_provider", pure=True, raises="any",
    ensures=["result == rrel_provider(a0)"],
    note="textx.scoping.rrel.create_rrel_scope_provider as a function of its argument "
         "(a string is parsed first, so both routes build the provider from the same tree)",
)

OLD = "old(as_dict(sp)[key_at(sp, j)])"
NEW = "as_dict(sp)[key_at(sp, j)]"

Unit(
    "metamodel.register_scope_providers",
    target="textx/metamodel.py::TextXMetaModel.register_scope_providers",
    props=["C32"],
    params={"self": "obj:TextXMetaModel", "sp": "dict"},
    calls={"create_rrel_scope_provider": CREATE},
    modifies=["self.scope_providers", "dict(sp)"],
    ensures=[
        ("table-installed", "self.scope_providers == sp"),
        ("same-keys", "nkeys(sp) == old(nkeys(sp)) and forall(lambda j: implies(0 <= j and j < nkeys(sp),"
                      " key_at(sp, j) == old(key_at(sp, j))))"),
        ("strings-become-rrel-providers-others-untouched",
         f"forall(lambda j: implies(0 <= j and j < nkeys(sp), {NEW} == "
         f"(rrel_provider({OLD}) if is_str({OLD}) else {OLD})))"),
    ],
    loops={
        "for:self.scope_providers.items()": Loop(
            modifies=["dict(sp)"],
            inv=[
                "self.scope_providers == sp",
                "nkeys(sp) == old(nkeys(sp)) and forall(lambda j: implies(0 <= j and j < nkeys(sp),"
                " key_at(sp, j) == old(key_at(sp, j)) and key_at(sp, j) in as_dict(sp)))",
                f"forall(lambda j: implies(0 <= j and j < _i, {NEW} == "
                f"(rrel_provider({OLD}) if is_str({OLD}) else {OLD})))",
                f"forall(lambda j: implies(_i <= j and j < nkeys(sp), {NEW} == {OLD}))",
            ],
        )
    },
    requires=[
        "self != sp",
        # ghost key order of a dict: keys present and pairwise different
        "forall(lambda j: implies(0 <= j and j < nkeys(sp), key_at(sp, j) in as_dict(sp)))",
        "forall(lambda i, j: implies(0 <= i and i < j and j < nkeys(sp), key_at(sp, i) != key_at(sp, j)))",
    ],
    canary="nkeys(sp) == 0",
)

Unit(
    "lang.RuleCrossRef.__init__",
    target="textx/lang.py::RuleCrossRef.__init__",
    props=["C32"],
    params={"self": "obj", "rule_name": "any", "cls": "any", "position": "any", "rrel_tree": "any"},
    calls={"create_rrel_scope_provider": CREATE},
    modifies=["self.*"],
    ensures=[
        ("grammar-rrel-becomes-provider",
         "self.scope_provider == (rrel_provider(rrel_tree) if rrel_tree is not None else None)"),
        ("fields", "self.rule_name == rule_name and self.cls == cls and self.position == position"
                   " and self.suppress == False"),
    ],
    canary="self.scope_provider is None",
)
