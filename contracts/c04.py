"""C04 - built-in base types convert text to values faithfully.

Decided by the two special-purpose back ends of DESIGN.md 2.6, on the REAL processor lambdas extracted by
AST from TextXMetaModel.__init__ on every run:
  * STRING (FST, complete for all strings): the lambda has the shape
        x[1:-1].replace(A, B) if x[0] == Q else x[1:-1].replace(C, D)
    (checked; a different shape makes the back end inapplicable and the bounded stand-in decides); for each
    quote q the chain  s -> s.replace(q, '\\'+q)  [the statement's "only that quote escaped"]  followed by the
    lambda's replace is proved to be the identity on ALL strings s, by exhaustive exploration of the
    composed transducer over the alphabet classes {", ', \\, any other character};
  * BOOL (FIN, complete): the real lambda evaluated on every spelling the BOOL regex admits;
  * INT / FLOAT / STRICTFLOAT: the lambdas are int(x) / float(x) (shape checked); int(str(n)) == n and
    float(repr(f)) == f are CPython's (T-PY).
NOT proved: which text the regexes of lang.py delimit ("parses through INT and NUMBER", "including when
further strings follow") - that is `re`'s backtracking order (A-RE).  Bounded stand-in: the real
metamodel parses every string up to length 4 over an 8-symbol alphabet as a sequence of STRING literals,
and numbers of all shapes through INT / FLOAT / STRICTFLOAT / NUMBER; reported separately.
"""

import ast

from txvc.props import ASSUME, T_ARP, TRUSTED, extra, replay_for

TRUSTED["C04"] = [T_ARP, "T-PY: int(str(n)) == n, float(repr(x)) == x, str.lower"]
ASSUME["C04"] = [
    "A-REPLACE: the streaming transducer of txvc/fst.py computes str.replace (cross-checked against CPython on all "
    "strings up to length 5 over the alphabet classes on every run)",
    "A-RE: extent of the base-type regexes (bounded battery only)",
]


def _processor_lambdas():
    from txvc.world import World

    w = World()
    mi, node, _ = w.locate("textx/metamodel.py::TextXMetaModel.__init__")
    out = {}
    for n in ast.walk(node):
        if isinstance(n, ast.Dict):
            for k, v in zip(n.keys, n.values):
                if isinstance(k, ast.Constant) and k.value in ("BOOL", "INT", "FLOAT", "STRICTFLOAT", "STRING") \
                        and isinstance(v, ast.Lambda):
                    out[k.value] = v
    return mi, out


def _native(lam, mi):
    code = compile(ast.Expression(body=lam), mi.relpath, "eval")
    return eval(code, {})  # the lambda itself, compiled from the real source text


def _string_shape(lam):
    """(Q, A, B, C, D) if the lambda is  x[1:-1].replace(A,B) if x[0]==Q else x[1:-1].replace(C,D)"""
    b = lam.body
    if not isinstance(b, ast.IfExp):
        return None
    t = b.test
    if not (isinstance(t, ast.Compare) and len(t.ops) == 1 and isinstance(t.ops[0], ast.Eq)
            and ast.unparse(t.left) == "x[0]" and isinstance(t.comparators[0], ast.Constant)):
        return None

    def rep(e):
        if (isinstance(e, ast.Call) and isinstance(e.func, ast.Attribute) and e.func.attr == "replace"
                and ast.unparse(e.func.value) == "x[1:-1]" and len(e.args) == 2
                and all(isinstance(a, ast.Constant) and isinstance(a.value, str) for a in e.args)):
            return e.args[0].value, e.args[1].value
        return None

    r1, r2 = rep(b.body), rep(b.orelse)
    if r1 is None or r2 is None:
        return None
    return t.comparators[0].value, r1[0], r1[1], r2[0], r2[1]


def _native_string_search(fn, maxlen):
    """bounded stand-in when the FST back end does not apply: run the real lambda on every string up to maxlen"""
    import itertools

    for q in "\"'":
        for n in range(maxlen + 1):
            for tup in itertools.product("\"'\\ax", repeat=n):
                s = "".join(tup)
                lit = q + s.replace(q, "\\" + q) + q
                try:
                    got = fn(lit)
                except Exception as e:  # noqa: BLE001
                    got = f"<{type(e).__name__}>"
                if got != s:
                    return f"STRING processor on the literal {lit!r} gives {got!r}, the string written is {s!r}"
    return None


@extra("C04")
def string_processor_fst(tier, seed):
    from txvc import fst

    mi, lams = _processor_lambdas()
    res = {"name": "metamodel.STRING-processor.unescape-roundtrip", "backend": "FST (exhaustive exploration of the "
           "composed transducer; complete for all strings)", "obligations": 0, "discharged": 0, "violations": [],
           "unknown": [], "errors": []}
    lam = lams.get("STRING")
    shape = _string_shape(lam) if lam is not None else None
    if shape is None:
        # the code no longer fits the fragment: bounded native search instead (never counted as proved)
        res["bounded"] = True
        res["bound"] = "all strings up to length 5 over {\", ', \\, a, x}"
        bad = _native_string_search(_native(lam, mi), 5) if lam is not None else "no STRING processor found"
        if bad:
            res["violations"].append({"unit": res["name"], "kind": "BOUNDED", "label": "roundtrip", "prop": "C04",
                                      "result": "refuted", "text": bad, "where": "native search", "path": [],
                                      "model": {"failure": bad}, "native": True, "time": 0, "reason": ""})
        else:
            res["unknown"].append({"unit": res["name"], "kind": "FST", "label": "shape", "reason":
                                   "STRING processor is not of the form x[1:-1].replace(A,B) if x[0]==Q else ..."})
        return res
    q1, a, b, c, d = shape
    q2 = "'" if q1 == '"' else '"'
    for q, (pat, rep) in ((q1, (a, b)), (q2, (c, d))):
        chain = [fst.Replace(q, "\\" + q), fst.Replace(pat, rep)]
        for label, fn in (("A-REPLACE-cross-check", lambda ch=chain: fst.cross_check(ch, 5, extra="\"'\\")),
                          ("unescape-after-escape-is-identity", lambda ch=chain: fst.identity(ch, extra="\"'\\"))):
            res["obligations"] += 1
            cex = fn()
            if cex is None:
                res["discharged"] += 1
            else:
                s = fst.concretise(cex)
                lit = q + s.replace(q, "\\" + q) + q
                got = _native(lam, mi)(lit)
                res["violations"].append({
                    "unit": res["name"], "kind": "FST", "label": f"{label}[{q}]", "prop": "C04", "result": "refuted",
                    "text": f"for the string {s!r} written as {lit!r} the real processor returns {got!r}",
                    "where": "fst", "path": [], "model": {"s": s, "literal": lit, "got": got},
                    "native": got != s, "time": 0, "reason": ""})
    res["detail"] = f"quotes {q1!r}: replace({a!r},{b!r}); {q2!r}: replace({c!r},{d!r})"
    return res


@extra("C04")
def bool_int_float_fin(tier, seed):
    import re

    mi, lams = _processor_lambdas()
    res = {"name": "metamodel.BOOL-INT-FLOAT-processors", "backend": "FIN (complete enumeration of the BOOL "
           "spellings) + shape check of int()/float()", "obligations": 0, "discharged": 0, "violations": []}

    def fail(label, text):
        res["violations"].append({"unit": res["name"], "kind": "FIN", "label": label, "prop": "C04",
                                  "result": "refuted", "text": text, "where": "fin", "path": [],
                                  "model": {"failure": text}, "native": True, "time": 0, "reason": ""})

    # BOOL: every spelling of the regex in lang.py
    from textx.lang import BOOL

    m = re.fullmatch(r"\((.*)\)\\b", BOOL.to_match)
    spellings = m.group(1).split("|") if m else ["True", "true", "False", "false", "0", "1"]
    fb = _native(lams["BOOL"], mi)
    for sp in spellings:
        res["obligations"] += 1
        want = sp in ("True", "true", "1")
        if sp not in ("True", "true", "1", "False", "false", "0"):
            fail(f"BOOL[{sp}]", f"unknown BOOL spelling {sp!r} in the regex")
            continue
        got = fb(sp)
        if got is want:
            res["discharged"] += 1
        else:
            fail(f"BOOL[{sp}]", f"BOOL processor maps {sp!r} to {got!r}, expected {want!r}")
    for name, fn in (("INT", "int"), ("FLOAT", "float"), ("STRICTFLOAT", "float")):
        res["obligations"] += 1
        if ast.unparse(lams[name].body) == f"{fn}(x)":
            res["discharged"] += 1
        else:
            fail(f"{name}-is-{fn}", f"{name} processor is {ast.unparse(lams[name].body)!r}, expected {fn}(x)")
    return res


def _c04_battery(maxlen=4):
    import itertools

    from textx import metamodel_from_str

    bad = []
    mm = metamodel_from_str("Model: v*=STRING;")
    alpha = "\"'\\a \n#1"
    n = 0
    for ln in range(maxlen + 1):
        for tup in itertools.product(alpha, repeat=ln):
            s = "".join(tup)
            if s.endswith("\\"):
                continue
            for q in "\"'":
                lit = q + s.replace(q, "\\" + q) + q
                n += 1
                try:
                    got = mm.model_from_str(f"{lit} {lit} 'z'").v
                except Exception as e:  # noqa: BLE001
                    bad.append(f"STRING {lit!r} (twice, another string following): {type(e).__name__}")
                    continue
                if got != [s, s, "z"]:
                    bad.append(f"STRING {lit!r} followed by further strings parsed as {got!r}, written {[s, s, 'z']!r}")
            if len(bad) > 3:
                return n, bad
    # every literal form: sign x mantissa shape x exponent shape (both letter cases, both exponent signs)
    signs = ("", "+", "-")
    ints = ("0", "7", "12", "00012", "123456789012345678901234567890")
    dotted = ("1.5", "0.25", "3.", ".5", "00.25", "10.0")
    exps = ("e3", "E3", "e+2", "E+2", "e-2", "E-2", "e0", "E00")
    int_texts = [sg + m for sg in signs for m in ints]
    float_texts = [sg + m + ex for sg in signs for m in dotted for ex in ("",) + exps] \
        + [sg + m + ex for sg in signs for m in ints[:4] for ex in exps]
    for rule, texts in (("INT", int_texts),
                        ("NUMBER", int_texts + float_texts),
                        ("FLOAT", float_texts + ["10"]),
                        ("STRICTFLOAT", float_texts),
                        ("BOOL", ["true", "True", "false", "False", "0", "1"])):
        mmr = metamodel_from_str(f"Model: v+={rule};")
        for t in texts:
            n += 1
            try:
                got = mmr.model_from_str(f"{t} {t}").v
            except Exception as e:  # noqa: BLE001
                bad.append(f"{rule} {t!r}: {type(e).__name__}: {e}")
                continue
            if rule == "BOOL":
                want = t in ("true", "True", "1")
            elif rule == "INT" or (rule == "NUMBER" and all(c in "+-0123456789" for c in t)):
                want = int(t)
            else:
                want = float(t)
            if got != [want, want] or type(got[0]) is not type(want):
                bad.append(f"{rule} {t!r} parsed as {got!r}, expected {[want, want]!r}")
    return n, bad


@extra("C04")
def basetype_regex_battery(tier, seed):
    n, bad = _c04_battery(3 if tier == "quick" else 4)
    res = {"name": "lang.basetype-regexes.battery", "backend": "native run of the real parser (bounded stand-in)",
           "obligations": 0, "discharged": 0, "bounded": True,
           "bound": "every string up to length 3 (thorough: 4) over 8 symbols as STRING literal in both quotes, "
                    "followed by further strings; the grid sign x mantissa shape (5 integer, 6 dotted) x exponent shape (none, e/E, "
                    "signed and unsigned) through INT, NUMBER, FLOAT, STRICTFLOAT, and all BOOL spellings",
           "cases": n, "violations": [], "detail": "literal text parses back to the written value"}
    if bad:
        res["violations"].append({"unit": "lang.basetype-regexes.battery", "kind": "BOUNDED",
                                  "label": "literals-parse-back-to-the-written-value", "prop": "C04",
                                  "result": "refuted", "text": "; ".join(bad[:3]), "where": "battery", "path": [],
                                  "model": {"failures": bad[:6]}, "native": True, "time": 0, "reason": ""})
    return res


def _replay_c04(model, rec):
    n, bad = _c04_battery(3)
    return bool(bad), "; ".join(bad[:3]) or f"all {n} literals parse back to the written value"


for _u in ("lang.basetype-regexes.battery", "metamodel.STRING-processor.unescape-roundtrip",
           "metamodel.BOOL-INT-FLOAT-processors"):
    replay_for(_u)(_replay_c04)
