"""C09 - postponed resolution reaches the right fixpoint and terminates.

Deductive part (units in orchestrate.py, resolve.py, c28.py):
  * the resolution rounds of the main-model phase terminate: variant pending() (cross-references
    still to resolve) strictly decreases whenever another round follows, given the contract of
    resolve_one_step "the returned count of resolved references leaves the pending lists";
  * loading succeeds only if the last round left nothing postponed, otherwise the
    'Unresolvable cross references' error is raised (and every model of the load is removed);
  * one step of resolve_one_step (the loop body): a reference is counted as resolved exactly when
    it is not postponed, is then removed from the pending list and stored; a postponed one stays
    pending, is recorded as delayed and its attribute is left alone;
  * the error report visits every model and every delayed reference of it (per-model unit).
NOT decided deductively: that the set of resolved references is the least fixpoint of the
providers' dependency relation ("succeeds exactly when some order exists", "independent of the
order").  That needs a monotonicity contract on providers and an invariant over rounds; it is
covered by the bounded battery below only (all dependency graphs over <= 3 references in <= 2
files, both file orders), reported as bounded and never counted as proved.
"""

from txvc.props import ASSUME, extra, replay_for

from . import c18, c28, orchestrate, resolve  # noqa: F401

ASSUME.setdefault("C09", []).extend([
    "A-PENDING: resolve_one_step removes exactly the references it counts as resolved from the pending "
    "cross-references of the load (ghost measure pending()); per reference this is the proved clause "
    "C09-count-and-queues of the loop body, the sum over the loop is the modular structure, not a solver obligation",
    "scope providers terminate and do not add cross-references to models of the load",
])


def _c09_battery(max_refs=3):
    """Every dependency graph over n <= max_refs references: reference i resolves once all references in
    deps[i] are resolved (the provider returns Postponed until then).  Expected: loading succeeds iff the
    graph is acyclic; on failure the error names exactly the references on or behind a cycle."""
    import itertools
    import os
    import shutil
    import tempfile

    import textx.scoping.providers as sp
    from textx import metamodel_from_str
    from textx.exceptions import TextXSemanticError
    from textx.scoping import Postponed

    grammar = ("Model: imports*=Import items*=Item uses*=Use; Import: 'import' importURI=STRING;"
               " Item: 'item' name=ID; Use: 'use' name=ID '->' ref=[Item];")
    bad = []
    d = tempfile.mkdtemp(prefix="txvc-c09-")
    try:
        for n in range(1, max_refs + 1):
            pairs = [(i, j) for i in range(n) for j in range(n) if i != j]
            for mask in range(1 << len(pairs)):
                deps = {i: set() for i in range(n)}
                for b, (i, j) in enumerate(pairs):
                    if mask >> b & 1:
                        deps[i].add(j)
                # expected fixpoint
                done = set()
                changed = True
                while changed:
                    changed = False
                    for i in range(n):
                        if i not in done and deps[i] <= done:
                            done.add(i)
                            changed = True
                stuck = sorted(set(range(n)) - done)
                for split in ((0,), (1,)) if n > 1 else ((0,),):
                    # split: how many leading uses live in the imported file
                    k = split[0]
                    lib_uses = list(range(k))
                    main_uses = list(range(k, n))
                    lib = "item t\n" + "".join(f"use u{i} -> t\n" for i in lib_uses)
                    main = 'import "lib.m"\n' + "".join(f"use u{i} -> t\n" for i in main_uses)
                    with open(os.path.join(d, "lib.m"), "w") as f:
                        f.write(lib)
                    with open(os.path.join(d, "main.m"), "w") as f:
                        f.write(main)
                    resolved = set()
                    base = sp.FQNImportURI()

                    def provider(obj, attr, ref, _deps=deps, _res=resolved, _base=base):
                        i = int(obj.name[1:])
                        if not _deps[i] <= _res:
                            return Postponed()
                        r = _base(obj, attr, ref)
                        if r is not None:
                            _res.add(i)
                        return r

                    mm = metamodel_from_str(grammar)
                    mm.register_scope_providers({"*.*": base, "Use.ref": provider})
                    label = f"n={n} deps={ {i: sorted(v) for i, v in deps.items()} } lib has {lib_uses}"
                    try:
                        m = mm.model_from_file(os.path.join(d, "main.m"))
                        if stuck:
                            bad.append(f"{label}: loaded although {stuck} can never resolve")
                        elif any(u.ref.name != "t" for u in m.uses):
                            bad.append(f"{label}: wrong targets")
                    except TextXSemanticError as e:
                        if not stuck:
                            bad.append(f"{label}: failed although the order {sorted(done)} resolves everything: {e}")
                        elif "Unresolvable cross references" not in str(e):
                            bad.append(f"{label}: unexpected error {e}")
                        else:
                            # the report lists one entry per stuck reference (all references are named "t")
                            cnt = str(e).count('"t" of class "Item"')
                            if cnt != len(stuck):
                                bad.append(f"{label}: report lists {cnt} references, {len(stuck)} are stuck: {e}")
                    if len(bad) > 5:
                        return bad
    finally:
        shutil.rmtree(d, ignore_errors=True)
    return bad


@extra("C09")
def fixpoint_battery(tier, seed):
    bad = _c09_battery(3)
    res = {"name": "model.postponed-resolution.battery", "backend": "native run of the real loader (bounded stand-in)",
           "obligations": 0, "discharged": 0, "bounded": True,
           "bound": "all dependency graphs over <= 3 postponable references, in one or two files",
           "cases": 1 + 4 * 2 + 64 * 2, "violations": [],
           "detail": "loading succeeds iff the dependency graph is acyclic; the error lists exactly the stuck references"}
    if bad:
        res["violations"].append({"unit": "model.postponed-resolution.battery", "kind": "BOUNDED",
                                  "label": "succeeds-iff-some-order-resolves-everything", "prop": "C09",
                                  "result": "refuted", "text": "; ".join(bad[:3]), "where": "battery", "path": [],
                                  "model": {"failures": bad[:6]}, "native": True, "time": 0, "reason": ""})
    return res


@replay_for("model.postponed-resolution.battery")
def _replay_c09(model, rec):
    bad = _c09_battery(3)
    return bool(bad), "; ".join(bad[:4]) or "postponed-resolution battery passes"
