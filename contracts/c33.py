"""C33 - errors raised by processors carry the location of the processed text."""

from txvc.contracts import Ext, Unit

from . import common  # noqa: F401

_LOC = lambda f, arg: (  # noqa: E731
    f,
    f"exc.{f} == (after(ev(-1), exc.{f}) if after(ev(-1), exc.{f}) is not None else {arg})",
    "C33",
)

Unit(
    "metamodel.process",
    target="textx/metamodel.py::TextXMetaModel.process",
    props=["C33"],
    params={
        "self": "obj:TextXMetaModel",
        "value": "any",
        "_type": "any",
        "filename": "str|none",
        "col": "int|none",
        "line": "int|none",
        "nchar": "int|none",
    },
    calls={
        "self._obj_processors.get(_type, lambda x: x)": Ext(
            "processor",
            note="registered object/match processor: returns anything, raises anything",
        )
    },
    modifies=["*"],  # the processor is arbitrary user code
    ensures=[
        ("processor-result-unchanged", "implies(n_calls('processor') == 1, result == ev(-1).result)"),
        ("default-is-identity", "implies(n_calls('processor') == 0, result == value)"),
    ],
    raises={
        "TextXError": [
            ("same-error-object", "exc == ev(-1).exc"),
            _LOC("line", "line"),
            _LOC("col", "col"),
            _LOC("filename", "filename"),
            _LOC("nchar", "nchar"),
        ],
        "*": [("passes-through", "exc == ev(-1).exc")],
    },
    canary="result is None",
    ghost={"model_exprs": {
        # what the processor's own error carried when it was raised
        "raised_line": "after(ev(-1), exc.line)", "raised_col": "after(ev(-1), exc.col)",
        "raised_filename": "after(ev(-1), exc.filename)", "raised_nchar": "after(ev(-1), exc.nchar)",
    }},
)


# --------------------------------------------------------------------------
# native replay: the counter-model against the real TextXMetaModel.process and
# an end-to-end load with a failing object processor
# --------------------------------------------------------------------------
from txvc.props import replay_for  # noqa: E402


@replay_for("metamodel.process")
def _replay_process(model, rec):
    from textx import metamodel_from_str
    from textx.exceptions import TextXError
    from textx.metamodel import TextXMetaModel

    def prim(x, default):
        return x if isinstance(x, (int, str)) or x is None else default

    line, col = prim(model.get("line"), 3), prim(model.get("col"), 4)
    filename, nchar = prim(model.get("filename"), "f.m"), prim(model.get("nchar"), 7)

    given = {f: prim(model.get("raised_" + f), None) for f in ("line", "col", "filename", "nchar")}

    def proc(_):
        raise TextXError("boom", **given)

    mm = TextXMetaModel.__new__(TextXMetaModel)
    mm._obj_processors = {"T": proc}
    bad = []
    try:
        mm.process(object(), "T", filename=filename, col=col, line=line, nchar=nchar)
    except TextXError as e:
        for f, sup in (("line", line), ("col", col), ("filename", filename), ("nchar", nchar)):
            want = given[f] if given[f] is not None else sup
            if getattr(e, f) != want:
                bad.append(f"unit level: processor raised TextXError({given}); error.{f} == "
                           f"{getattr(e, f)!r}, expected {want!r} (supplied location {sup!r})")
    # end to end (property statement: nchar equals the object's text length)
    mm2 = metamodel_from_str("Model: items+=Item; Item: 'item' name=ID;")

    def failing(item):
        if item.name == "b":
            raise TextXError("bad item")

    mm2.register_obj_processors({"Item": failing})
    try:
        mm2.model_from_str("item a\n  item b")
    except TextXError as e:
        if (e.line, e.col) != (2, 3):
            bad.append(f"end to end: located at {(e.line, e.col)}, object starts at (2, 3)")
        if e.nchar != len("item b"):
            bad.append(f"end to end: nchar == {e.nchar!r}, object text has {len('item b')} characters")
    return bool(bad), "; ".join(bad) or "location fields all as supplied"


# --------------------------------------------------------------------------
# get_location: the location handed to process() for object processors
# --------------------------------------------------------------------------
from . import c05  # noqa: E402,F401  (root_of / depth spec functions, get_model contract)

from txvc.contracts import SpecFn  # noqa: E402

# Arpeggio's Parser.pos_to_linecol as a pure function of (bound method, position) (T-ARP)
SpecFn("linecol", [("method", "any"), ("pos", "any")], "tuple")

GET_LOCATION_KEYS = ["line", "col", "nchar", "filename"]

Unit(
    "model.get_location",
    target="textx/model.py::get_location",
    props=["C33", "C06"],
    params={"model_obj": "obj"},
    requires=["depth(model_obj) >= 0"],
    calls={
        "the_model._tx_parser.pos_to_linecol": Ext(
            "pos_to_linecol", returns="tuple", raises=None, pure=True,
            ensures=["result == linecol(callee, a0)"],
            note="Arpeggio Parser.pos_to_linecol (T-ARP): pure function returning a (line, col) pair"),
    },
    returns="dict",
    returns_keys=GET_LOCATION_KEYS,
    ensures=[
        ("line-col-of-start-by-root-parser",
         "(result['line'], result['col']) == "
         "linecol(root_of(model_obj)._tx_parser.pos_to_linecol, model_obj._tx_position)"),
        ("nchar-is-span-length",
         "result['nchar'] == model_obj._tx_position_end - model_obj._tx_position"),
        ("filename-of-root-model", "result['filename'] == root_of(model_obj)._tx_filename"),
        ("exactly-four-keys", "len(result) == 4 and 'line' in result and 'col' in result"
                              " and 'nchar' in result and 'filename' in result"),
    ],
    canary="result['nchar'] == 0",
)

Unit(
    "model.textxerror_wrap.wrapper",
    target="textx/model.py::textxerror_wrap.wrapper",
    props=["C33"],
    params={"obj": "any"},
    captured={"obj_processor": "callable"},
    requires=["implies(is_ref(obj), depth(obj) >= 0)"],
    calls={"obj_processor": Ext("obj_processor", note="the wrapped object processor")},
    modifies=["*"],  # the wrapped processor is arbitrary user code
    ensures=[("value-unchanged", "result == ev(0).result")],
    raises={
        "Exception": [
            ("always-textx-error", "is_instance(exc, 'TextXError')"),
            ("textx-error-passes-unchanged",
             "implies(is_instance(ev(0).exc, 'TextXError'), exc == ev(0).exc)"),
            ("located-at-the-object",
             "implies(not is_instance(ev(0).exc, 'TextXError')"
             " and hasattr(obj, '_tx_position') and hasattr(obj, '_tx_filename'),"
             " exc.nchar == obj._tx_position_end - obj._tx_position"
             " and exc.filename == after(ev(0), root_of(obj)._tx_filename)"
             " and (exc.line, exc.col) == "
             "after(ev(0), linecol(root_of(obj)._tx_parser.pos_to_linecol, obj._tx_position)))"),
        ],
    },
    canary="result is None",
)
