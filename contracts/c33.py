"""C33 - errors raised by processors carry the location of the processed text."""

from txvc.contracts import Ext, Unit

from . import common  # noqa: F401

_LOC = lambda f, arg: (  # noqa: E731
    f,
    f"exc.{f} == (after(ev(-1), exc.{f}) if after(ev(-1), exc.{f}) is not None else {arg})",
    "C33",
)

Unit(
    "metamodel.process",
    target="textx/metamodel.py::TextXMetaModel.process",
    props=["C33"],
    params={
        "self": "obj:TextXMetaModel",
        "value": "any",
        "_type": "any",
        "filename": "str|none",
        "col": "int|none",
        "line": "int|none",
        "nchar": "int|none",
    },
    calls={
        "self._obj_processors.get(_type, lambda x: x)": Ext(
            "processor",
            note="registered object/match processor: returns anything, raises anything",
        )
    },
    ensures=[
        ("processor-result-unchanged", "implies(n_calls('processor') == 1, result == ev(-1).result)"),
        ("default-is-identity", "implies(n_calls('processor') == 0, result == value)"),
    ],
    raises={
        "TextXError": [
            ("same-error-object", "exc == ev(-1).exc"),
            _LOC("line", "line"),
            _LOC("col", "col"),
            _LOC("filename", "filename"),
            _LOC("nchar", "nchar"),
        ],
        "*": [("passes-through", "exc == ev(-1).exc")],
    },
    canary="result is None",
)


# --------------------------------------------------------------------------
# native replay: the counter-model against the real TextXMetaModel.process and
# an end-to-end load with a failing object processor
# --------------------------------------------------------------------------
from txvc.props import replay_for  # noqa: E402


@replay_for("metamodel.process")
def _replay_process(model, rec):
    from textx import metamodel_from_str
    from textx.exceptions import TextXError
    from textx.metamodel import TextXMetaModel

    def prim(x, default):
        return x if isinstance(x, (int, str)) or x is None else default

    line, col = prim(model.get("line"), 3), prim(model.get("col"), 4)
    filename, nchar = prim(model.get("filename"), "f.m"), prim(model.get("nchar"), 7)

    def proc(_):
        raise TextXError("boom")

    mm = TextXMetaModel.__new__(TextXMetaModel)
    mm._obj_processors = {"T": proc}
    bad = []
    try:
        mm.process(object(), "T", filename=filename, col=col, line=line, nchar=nchar)
    except TextXError as e:
        for f, want in (("line", line), ("col", col), ("filename", filename), ("nchar", nchar)):
            if getattr(e, f) != want:
                bad.append(f"unit level: error.{f} == {getattr(e, f)!r}, supplied {want!r}")
    # end to end (property statement: nchar equals the object's text length)
    mm2 = metamodel_from_str("Model: items+=Item; Item: 'item' name=ID;")

    def failing(item):
        if item.name == "b":
            raise TextXError("bad item")

    mm2.register_obj_processors({"Item": failing})
    try:
        mm2.model_from_str("item a\n  item b")
    except TextXError as e:
        if (e.line, e.col) != (2, 3):
            bad.append(f"end to end: located at {(e.line, e.col)}, object starts at (2, 3)")
        if e.nchar != len("item b"):
            bad.append(f"end to end: nchar == {e.nchar!r}, object text has {len('item b')} characters")
    return bool(bad), "; ".join(bad) or "location fields all as supplied"
