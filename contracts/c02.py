"""C02 - an attribute is a list exactly when one object can collect more than one value for it.

Grammar side: visit_textx_rule.<locals>._update_attr_multiplicities(rule, oc_branch_set, mult), the recursive
walk over the Arpeggio expression of ONE rule that promotes attribute multiplicities.  (Model side: the
assignment units of contracts/process_node.py, tagged C02.)

The statement is pointwise in the attribute name, so the contract is written for ONE arbitrary name A() - an
uninterpreted constant nothing is assumed about; what is proved for it holds for every name, and the recursive
call is used through the same contract at the same A() (instantiation of the universally quantified contract).

Spec functions, from the statement ("how many values can one object collect for A() from this expression"):
  c1(r, m, root)   in {0, 1, 2}: the largest number (saturated at 2) of assignments to A() that are NOT inside a
                   repetition, along one way through r: a sequence adds its parts up, an ordered choice takes
                   the largest branch, a reference to another rule (RuleCrossRef, or a node that is the root of
                   another rule) contributes nothing - its assignments belong to another object;
  rep(r, m, root)  an assignment to A() below r is inside a repetition (`m` = the multiplicity inherited from
                   the enclosing repetitions; OneOrMore / ZeroOrMore nodes make it many).
One object can collect more than one value  <=>  rep or c1 >= 2.
"""

from txvc.contracts import Ext, Loop, Schema, SpecFn, Unit

from . import common  # noqa: F401

# Arpeggio class hierarchy (T-ARP; arpeggio/__init__.py)
Schema("Sequence", bases=("ParsingExpression",), fields={})
Schema("OrderedChoice", bases=("Sequence",), fields={})
Schema("Repetition", bases=("ParsingExpression",), fields={})
Schema("Optional", bases=("Repetition",), fields={})
Schema("ZeroOrMore", bases=("Repetition",), fields={})
Schema("OneOrMore", bases=("Repetition",), fields={})

READS = ["nodes", "rule_name", "_attr_name", "root", "[]"]

SpecFn("A", [], "str")


def many(m):
    return f"({m} == '0..*' or {m} == '1..*')"


def is_asg(r):
    return f"(as_str({r}.rule_name).startswith('__asgn') and {r}._attr_name == A())"


# the multiplicity in force at a node that is not an ordered choice
SpecFn("eff", [("r", "any"), ("m", "str")], "str", reads=READS, unfold=3,
       defn="('1..*' if is_instance(r, 'OneOrMore') else"
            " ('0..*' if is_instance(r, 'ZeroOrMore') and m != '1..*' else m))")
SpecFn("sat2", [("n", "int")], "int", defn="2 if n >= 2 else n", unfold=9)
SpecFn("max2", [("a", "int"), ("b", "int")], "int", defn="a if a >= b else b", unfold=9)
DESC = "(r == root or not truthy(r.root))"

SpecFn("c1", [("r", "any"), ("m", "str"), ("root", "any")], "int", reads=READS,
       defn="0 if is_instance(r, 'RuleCrossRef') else"
            " (cmax(r, len(as_list(r.nodes)), m, root) if is_instance(r, 'OrderedChoice') else"
            f" sat2((1 if {is_asg('r')} and not {many('eff(r, m)')} else 0)"
            f" + (csum(r, len(as_list(r.nodes)), eff(r, m), root) if {DESC} else 0)))",
       facts=["0 <= c1(r, m, root) and c1(r, m, root) <= 2"])
SpecFn("cmax", [("r", "any"), ("i", "int"), ("m", "str"), ("root", "any")], "int", reads=READS,
       defn="0 if i <= 0 else max2(cmax(r, i - 1, m, root), c1(as_list(r.nodes)[i - 1], m, root))",
       facts=["0 <= cmax(r, i, m, root) and cmax(r, i, m, root) <= 2"])
SpecFn("csum", [("r", "any"), ("i", "int"), ("m", "str"), ("root", "any")], "int", reads=READS,
       defn="0 if i <= 0 else sat2(csum(r, i - 1, m, root) + c1(as_list(r.nodes)[i - 1], m, root))",
       facts=["0 <= csum(r, i, m, root) and csum(r, i, m, root) <= 2"])

SpecFn("rep", [("r", "any"), ("m", "str"), ("root", "any")], "bool", reads=READS,
       defn="False if is_instance(r, 'RuleCrossRef') else"
            " (rany(r, len(as_list(r.nodes)), m, root) if is_instance(r, 'OrderedChoice') else"
            f" (({is_asg('r')} and {many('eff(r, m)')})"
            f" or ({DESC} and rany(r, len(as_list(r.nodes)), eff(r, m), root))))")
SpecFn("rany", [("r", "any"), ("i", "int"), ("m", "str"), ("root", "any")], "bool", reads=READS,
       defn="False if i <= 0 else (rany(r, i - 1, m, root) or rep(as_list(r.nodes)[i - 1], m, root))")

SpecFn("prio", [("m", "str")], "int", unfold=9,
       defn="0 if m == '0..1' else (1 if m == '1' else (2 if m == '0..*' else 3))")
IS_MULT = "({m} == '0..1' or {m} == '1' or {m} == '0..*' or {m} == '1..*')"
MULT_LT = Ext(
    "mult_lt", returns="bool", pure=True, raises=None,
    requires=[IS_MULT.format(m="a0"), IS_MULT.format(m="a1")],
    ensures=["result == (prio(a0) < prio(a1))"],
    note="textx.const.mult_lt: order 0..1 < 1 < 0..* < 1..* (priority.index); discharged by FIN: the real function "
         "is evaluated on all 16 pairs of multiplicities on every run (contracts/c02.py: mult_lt_fin)")

# is the attribute A() of the rule's class many-valued
ISMANY = "(A() in cls._tx_attrs and " + many("cls._tx_attrs[A()].mult") + ")"
IN_S = "(A() in oc_branch_set)"
# every attribute is registered under its own name (distinct names are distinct MetaAttr objects) and carries
# one of the four multiplicities
KEYED = ("forall_val(lambda k: implies(k in cls._tx_attrs, is_ref(cls._tx_attrs[k]) and cls._tx_attrs[k].name == k"
         " and " + IS_MULT.format(m="cls._tx_attrs[k].mult") + "))")

MODS = ["dict(oc_branch_set)", "ATTR:mult"]
KEEP = READS + ["name", "_tx_attrs", "{}"]
C1 = "c1(rule, mult, root_rule)"
REP = "rep(rule, mult, root_rule)"
O1 = "(1 if " + is_asg("rule") + " and not " + many("mult") + " else 0)"
OR_ = "(" + is_asg("rule") + " and " + many("mult") + ")"
SEQ_I = f"sat2({O1} + csum(rule, _i, mult, root_rule))"
CMAX_I = "cmax(rule, _i, mult, root_rule)"

Schema("RuleNode", bases=("ParsingExpression",), fields={"_attr_name": "any"})

Unit(
    "lang.update_attr_multiplicities",
    target="textx/lang.py::TextXVisitor.visit_textx_rule._update_attr_multiplicities",
    props=["C02"],
    params={"rule": "obj:ParsingExpression", "oc_branch_set": "set", "mult": "str"},
    captured={"cls": "obj", "root_rule": "obj", "rule_name": "str", "self": "obj", "node": "obj"},
    requires=[("attributes-registered-under-their-own-name", KEYED), IS_MULT.format(m="mult"),
              "cls._tx_attrs != oc_branch_set"],
    calls={"_update_attr_multiplicities": "lang.update_attr_multiplicities",
           "mult_lt": MULT_LT,
           "self.grammar_parser.pos_to_linecol": Ext("pos_to_linecol", pure=True, raises=None, returns="tuple")},
    modifies=MODS,
    preserves=READS + ["name", "_tx_attrs"],
    loops={
        # ordered choice: every branch starts from the assignments seen before the choice
        "for:rule.nodes#1": Loop(
            modifies=["dict(seen_in_branches)", "ATTR:mult"], preserves=READS + ["name", "_tx_attrs"],
            inv=[f"(A() in seen_in_branches) == (_i > 0 and ({IN_S} or {CMAX_I} >= 1))",
                 f"{ISMANY} == (old({ISMANY}) or rany(rule, _i, mult, root_rule)"
                 f" or {CMAX_I} >= 2 or ({CMAX_I} >= 1 and {IN_S}))",
                 KEYED, "seen_in_branches != oc_branch_set and seen_in_branches != cls._tx_attrs"]),
        # any other expression: the parts one after the other, sharing the set
        "for:rule.nodes#2": Loop(
            modifies=MODS, preserves=READS + ["name", "_tx_attrs"],
            inv=[f"{IN_S} == (old({IN_S}) or {SEQ_I} >= 1)",
                 f"{ISMANY} == (old({ISMANY}) or {OR_} or rany(rule, _i, mult, root_rule)"
                 f" or {SEQ_I} >= 2 or ({SEQ_I} >= 1 and old({IN_S})))",
                 KEYED]),
    },
    ensures=[
        ("C02-seen-set-gains-exactly-the-single-assignments", f"{IN_S} == (old({IN_S}) or old({C1}) >= 1)"),
        ("C02-list-exactly-when-more-than-one-value-can-be-collected",
         f"{ISMANY} == old({ISMANY} or {REP} or {C1} >= 2 or ({C1} >= 1 and {IN_S}))"),
        ("attributes-registered-under-their-own-name", KEYED),
    ],
    raises={"TextXSemanticError": []},
    canary=f"{ISMANY}",
)


from txvc.props import extra  # noqa: E402


@extra("C02")
def mult_lt_fin(tier, seed):
    """FIN: the assumed contract of mult_lt, decided by complete enumeration of its (finite) domain"""
    from textx.const import mult_lt

    res = {"name": "const.mult_lt", "backend": "FIN (complete enumeration of the 16 pairs of multiplicities)",
           "obligations": 0, "discharged": 0, "violations": []}
    prio = {"0..1": 0, "1": 1, "0..*": 2, "1..*": 3}
    for a in prio:
        for b in prio:
            res["obligations"] += 1
            try:
                got = mult_lt(a, b)
            except Exception as e:  # noqa: BLE001
                got = repr(e)
            if got is (prio[a] < prio[b]):
                res["discharged"] += 1
            else:
                text = f"mult_lt({a!r}, {b!r}) is {got!r}, expected {prio[a] < prio[b]!r}"
                res["violations"].append({"unit": res["name"], "kind": "FIN", "label": f"mult_lt[{a},{b}]", "prop": "C02",
                                          "result": "refuted", "text": text, "where": "fin", "path": [],
                                          "model": {"failure": text}, "native": True, "time": 0, "reason": ""})
    return res
