"""C02 - an attribute is a list exactly when one object can collect more than one value for it.

Grammar side: visit_textx_rule.<locals>._update_attr_multiplicities(rule, oc_branch_set, mult), the recursive
walk over the Arpeggio expression of ONE rule that promotes attribute multiplicities.  (Model side: the
assignment units of contracts/process_node.py, tagged C02.)

The statement is pointwise in the attribute name, so the contract is written for ONE arbitrary name A() - an
uninterpreted constant nothing is assumed about; what is proved for it holds for every name, and the recursive
call is used through the same contract at the same A() (instantiation of the universally quantified contract).

Spec functions, from the statement ("how many values can one object collect for A() from this expression"):
  c1(r, m, root)   in {0, 1, 2}: the largest number (saturated at 2) of assignments to A() that are NOT inside a
                   repetition, along one way through r: a sequence adds its parts up, an ordered choice takes
                   the largest branch, a reference to another rule (RuleCrossRef, or a node that is the root of
                   another rule) contributes nothing - its assignments belong to another object;
  rep(r, m, root)  an assignment to A() below r is inside a repetition (`m` = the multiplicity inherited from
                   the enclosing repetitions; OneOrMore / ZeroOrMore nodes make it many).
One object can collect more than one value  <=>  rep or c1 >= 2.
"""

from txvc.contracts import Ext, Loop, Schema, SpecFn, Unit

from . import common  # noqa: F401

# Arpeggio class hierarchy (T-ARP; arpeggio/__init__.py)
Schema("Sequence", bases=("ParsingExpression",), fields={})
Schema("OrderedChoice", bases=("Sequence",), fields={})
Schema("Repetition", bases=("ParsingExpression",), fields={})
Schema("Optional", bases=("Repetition",), fields={})
Schema("ZeroOrMore", bases=("Repetition",), fields={})
Schema("OneOrMore", bases=("Repetition",), fields={})

READS = ["nodes", "rule_name", "_attr_name", "root", "[]"]

SpecFn("A", [], "str")


def many(m):
    return f"({m} == '0..*' or {m} == '1..*')"


def is_asg(r):
    return f"(as_str({r}.rule_name).startswith('__asgn') and {r}._attr_name == A())"


# the multiplicity in force at a node that is not an ordered choice
SpecFn("eff", [("r", "any"), ("m", "str")], "str", reads=READS, unfold=3,
       defn="('1..*' if is_instance(r, 'OneOrMore') else"
            " ('0..*' if is_instance(r, 'ZeroOrMore') and m != '1..*' else m))")
SpecFn("sat2", [("n", "int")], "int", defn="2 if n >= 2 else n", unfold=9)
SpecFn("max2", [("a", "int"), ("b", "int")], "int", defn="a if a >= b else b", unfold=9)
DESC = "(r == root or not truthy(r.root))"

SpecFn("c1", [("r", "any"), ("m", "str"), ("root", "any")], "int", reads=READS,
       defn="0 if is_instance(r, 'RuleCrossRef') else"
            " (cmax(r, len(as_list(r.nodes)), m, root) if is_instance(r, 'OrderedChoice') else"
            f" sat2((1 if {is_asg('r')} and not {many('eff(r, m)')} else 0)"
            f" + (csum(r, len(as_list(r.nodes)), eff(r, m), root) if {DESC} else 0)))",
       facts=["0 <= c1(r, m, root) and c1(r, m, root) <= 2"])
SpecFn("cmax", [("r", "any"), ("i", "int"), ("m", "str"), ("root", "any")], "int", reads=READS,
       defn="0 if i <= 0 else max2(cmax(r, i - 1, m, root), c1(as_list(r.nodes)[i - 1], m, root))",
       facts=["0 <= cmax(r, i, m, root) and cmax(r, i, m, root) <= 2"])
SpecFn("csum", [("r", "any"), ("i", "int"), ("m", "str"), ("root", "any")], "int", reads=READS,
       defn="0 if i <= 0 else sat2(csum(r, i - 1, m, root) + c1(as_list(r.nodes)[i - 1], m, root))",
       facts=["0 <= csum(r, i, m, root) and csum(r, i, m, root) <= 2"])

SpecFn("rep", [("r", "any"), ("m", "str"), ("root", "any")], "bool", reads=READS,
       defn="False if is_instance(r, 'RuleCrossRef') else"
            " (rany(r, len(as_list(r.nodes)), m, root) if is_instance(r, 'OrderedChoice') else"
            f" (({is_asg('r')} and {many('eff(r, m)')})"
            f" or ({DESC} and rany(r, len(as_list(r.nodes)), eff(r, m), root))))")
SpecFn("rany", [("r", "any"), ("i", "int"), ("m", "str"), ("root", "any")], "bool", reads=READS,
       defn="False if i <= 0 else (rany(r, i - 1, m, root) or rep(as_list(r.nodes)[i - 1], m, root))")

SpecFn("prio", [("m", "str")], "int", unfold=9,
       defn="0 if m == '0..1' else (1 if m == '1' else (2 if m == '0..*' else 3))")
IS_MULT = "({m} == '0..1' or {m} == '1' or {m} == '0..*' or {m} == '1..*')"
MULT_LT = Ext(
    "mult_lt", returns="bool", pure=True, raises=None,
    requires=[IS_MULT.format(m="a0"), IS_MULT.format(m="a1")],
    ensures=["result == (prio(a0) < prio(a1))"],
    note="textx.const.mult_lt: order 0..1 < 1 < 0..* < 1..* (priority.index); discharged by FIN: the real function "
         "is evaluated on all 16 pairs of multiplicities on every run (contracts/c02.py: mult_lt_fin)")

# is the attribute A() of the rule's class many-valued
ISMANY = "(A() in cls._tx_attrs and " + many("cls._tx_attrs[A()].mult") + ")"
IN_S = "(A() in oc_branch_set)"
# every attribute is registered under its own name (distinct names are distinct MetaAttr objects) and carries
# one of the four multiplicities
KEYED = ("forall_val(lambda k: implies(k in cls._tx_attrs, is_ref(cls._tx_attrs[k])"
         " and cls(cls._tx_attrs[k]) == MetaAttr and cls._tx_attrs[k] != MetaAttr and cls._tx_attrs[k].name == k"
         " and " + IS_MULT.format(m="cls._tx_attrs[k].mult") + "))")

MODS = ["dict(oc_branch_set)", "ATTR:mult"]
KEEP = READS + ["name", "_tx_attrs", "{}"]
C1 = "c1(rule, mult, root_rule)"
REP = "rep(rule, mult, root_rule)"
O1 = "(1 if " + is_asg("rule") + " and not " + many("mult") + " else 0)"
OR_ = "(" + is_asg("rule") + " and " + many("mult") + ")"
SEQ_I = f"sat2({O1} + csum(rule, _i, mult, root_rule))"
CMAX_I = "cmax(rule, _i, mult, root_rule)"

TGT = "textx/lang.py::TextXVisitor.visit_textx_rule._update_attr_multiplicities"
CAPT = {"cls": "obj", "root_rule": "obj", "rule_name": "str", "self": "obj", "node": "obj"}
OWN_REGION = "if:rule.rule_name.startswith('__asgn')"
POS = Ext("pos_to_linecol", pure=True, raises=None, returns="tuple")

EFF_REGION = "if:isinstance(rule, OneOrMore)"
# the multiplicity in force at and below this node (the statement `if isinstance(rule, OneOrMore): ... elif ...`)
Unit(
    "lang.update_attr_multiplicities.multiplicity-in-force",
    target=TGT,
    region=EFF_REGION,
    props=["C02"],
    params={"rule": "obj:ParsingExpression", "mult": "str"},
    captured=CAPT,
    requires=[IS_MULT.format(m="mult")],
    modifies=[],
    preserves=READS,
    ensures=[("C02-repetitions-make-everything-below-many-valued", "final_mult == eff(rule, mult)"),
             ("still-a-multiplicity", IS_MULT.format(m="final_mult"))],
    raises=None,
    canary="final_mult == '1'",
)

# the node's own assignment (the statement `if rule.rule_name.startswith("__asgn"):`); `mult` is the multiplicity
# in force at this node (already updated for OneOrMore / ZeroOrMore)
Unit(
    "lang.update_attr_multiplicities.own-assignment",
    target=TGT,
    region=OWN_REGION,
    props=["C02"],
    params={"rule": "obj:ParsingExpression", "oc_branch_set": "set", "mult": "str"},
    captured=CAPT,
    requires=[("attributes-registered-under-their-own-name", KEYED), IS_MULT.format(m="mult"),
              "cls._tx_attrs != oc_branch_set"],
    calls={"mult_lt": MULT_LT, "self.grammar_parser.pos_to_linecol": POS},
    modifies=MODS,
    preserves=KEEP[:-1],
    ensures=[
        ("C02-a-single-assignment-is-recorded-in-the-seen-set", f"{IN_S} == (old({IN_S}) or {O1} == 1)"),
        ("C02-many-valued-in-a-repetition-or-when-seen-before",
         f"{ISMANY} == (old({ISMANY}) or {OR_} or ({O1} == 1 and old({IN_S})))"),
        ("attributes-registered-under-their-own-name", KEYED),
    ],
    raises={"TextXSemanticError": []},
    canary=f"{ISMANY}",
)

Unit(
    "lang.update_attr_multiplicities",
    target=TGT,
    props=["C02"],
    params={"rule": "obj:ParsingExpression", "oc_branch_set": "set", "mult": "str"},
    captured=CAPT,
    requires=[("attributes-registered-under-their-own-name", KEYED), IS_MULT.format(m="mult"),
              "cls._tx_attrs != oc_branch_set"],
    calls={"_update_attr_multiplicities": "lang.update_attr_multiplicities"},
    regions={OWN_REGION: "lang.update_attr_multiplicities.own-assignment",
             EFF_REGION: "lang.update_attr_multiplicities.multiplicity-in-force"},
    modifies=MODS,
    preserves=READS + ["name", "_tx_attrs"],
    loops={
        # ordered choice: every branch starts from the assignments seen before the choice
        "for:rule.nodes#1": Loop(
            modifies=["dict(seen_in_branches)", "ATTR:mult"], preserves=READS + ["name", "_tx_attrs"],
            inv=[f"(A() in seen_in_branches) == (_i > 0 and ({IN_S} or {CMAX_I} >= 1))",
                 f"{ISMANY} == (old({ISMANY}) or rany(rule, _i, mult, root_rule)"
                 f" or {CMAX_I} >= 2 or ({CMAX_I} >= 1 and {IN_S}))",
                 KEYED, "seen_in_branches != oc_branch_set and seen_in_branches != cls._tx_attrs"]),
        # any other expression: the parts one after the other, sharing the set
        "for:rule.nodes#2": Loop(
            modifies=MODS, preserves=READS + ["name", "_tx_attrs"],
            inv=[f"{IN_S} == (old({IN_S}) or {SEQ_I} >= 1)",
                 f"{ISMANY} == (old({ISMANY}) or {OR_} or rany(rule, _i, mult, root_rule)"
                 f" or {SEQ_I} >= 2 or ({SEQ_I} >= 1 and old({IN_S})))",
                 KEYED]),
    },
    ensures=[
        ("C02-seen-set-gains-exactly-the-single-assignments", f"{IN_S} == (old({IN_S}) or old({C1}) >= 1)"),
        ("C02-list-exactly-when-more-than-one-value-can-be-collected",
         f"{ISMANY} == old({ISMANY} or {REP} or {C1} >= 2 or ({C1} >= 1 and {IN_S}))"),
        ("attributes-registered-under-their-own-name", KEYED),
    ],
    raises={"TextXSemanticError": []},
    canary=f"{ISMANY}",
)


from txvc.props import extra  # noqa: E402


@extra("C02")
def mult_lt_fin(tier, seed):
    """FIN: the assumed contract of mult_lt, decided by complete enumeration of its (finite) domain"""
    from textx.const import mult_lt

    res = {"name": "const.mult_lt", "backend": "FIN (complete enumeration of the 16 pairs of multiplicities)",
           "obligations": 0, "discharged": 0, "violations": []}
    prio = {"0..1": 0, "1": 1, "0..*": 2, "1..*": 3}
    for a in prio:
        for b in prio:
            res["obligations"] += 1
            try:
                got = mult_lt(a, b)
            except Exception as e:  # noqa: BLE001
                got = repr(e)
            if got is (prio[a] < prio[b]):
                res["discharged"] += 1
            else:
                text = f"mult_lt({a!r}, {b!r}) is {got!r}, expected {prio[a] < prio[b]!r}"
                res["violations"].append({"unit": res["name"], "kind": "FIN", "label": f"mult_lt[{a},{b}]", "prop": "C02",
                                          "result": "refuted", "text": text, "where": "fin", "path": [],
                                          "model": {"failure": text}, "native": True, "time": 0, "reason": ""})
    return res


# --------------------------------------------------------------------------
# Bounded battery (never counted as proved): the statement itself, read natively.  Small rule bodies over the
# attributes a, b are enumerated; every assignment occurrence gets its own keyword, so a sentence of the
# expression is parsed the way it was generated.  The oracle does not look at textX's code: the sentences of the
# expression (repetitions unrolled 0..2 times) say how many values one object can collect and in which order.
# --------------------------------------------------------------------------
def _c02_exprs(depth3):
    leaf = [("asg", "a", "="), ("asg", "b", "=")]
    e0 = leaf + [("asg", "a", "+=")]
    e1 = list(e0)
    for x in leaf:
        e1 += [("opt", x), ("star", x), ("plus", x)]
    for x in leaf:
        for y in leaf:
            e1 += [("seq", [x, y]), ("alt", [x, y])]
    out = list(e1)
    for x in e1:
        for y in e1:
            out += [("seq", [x, y]), ("alt", [x, y])]
    for x in leaf:
        for y in leaf:
            for z in leaf:
                for w in leaf:
                    out.append(("seq", [x, ("alt", [y, z]), w]))
                    out.append(("seq", [("alt", [x, y]), ("alt", [z, w])]))
                out.append(("seq", [("opt", ("alt", [x, y])), z]))
                out.append(("seq", [x, ("star", ("alt", [y, z]))]))
    if depth3:
        for x in e1:
            for y in leaf:
                for z in leaf:
                    out.append(("seq", [y, ("alt", [x, z]), y]))
                    out.append(("alt", [("seq", [x, y]), ("seq", [z, x])]))
    return out


def _c02_text(e, counter):
    k = e[0]
    if k == "asg":
        counter[0] += 1
        return f"'k{counter[0]}' {e[1]}{e[2]}INT"
    if k in ("seq", "alt"):
        parts = [_c02_text(x, counter) for x in e[1]]
        return "(" + (" | " if k == "alt" else " ").join(parts) + ")"
    return "(" + _c02_text(e[1], counter) + ")" + {"opt": "?", "star": "*", "plus": "+"}[k]


def _c02_sentences(e, counter):
    """list of sentences; a sentence is a list of (keyword, attribute)"""
    k = e[0]
    if k == "asg":
        counter[0] += 1
        one = [(f"k{counter[0]}", e[1])]
        # `+=` matches one or more values after its keyword
        return [one, one + [(None, e[1])]] if e[2] == "+=" else [one]
    if k == "seq":
        acc = [[]]
        for x in e[1]:
            s = _c02_sentences(x, counter)
            acc = [p + q for p in acc for q in s][:400]
        return acc
    if k == "alt":
        out = []
        for x in e[1]:
            out += _c02_sentences(x, counter)
        return out
    s = _c02_sentences(e[1], counter)
    twice = [p + q for p in s for q in s][:100]
    return {"opt": [[]] + s, "star": [[]] + s + twice, "plus": s + twice}[k]


def _c02_nullable(e):
    k = e[0]
    if k == "asg":
        return False
    if k == "seq":
        return all(_c02_nullable(x) for x in e[1])
    if k == "alt":
        return any(_c02_nullable(x) for x in e[1])
    return k in ("opt", "star") or _c02_nullable(e[1])


def _c02_peg_shadowed(e):
    """an ordered choice with an alternative that matches the empty input hides its later alternatives (PEG):
    the sentences of the expression would no longer be the inputs the grammar accepts"""
    k = e[0]
    if k == "asg":
        return False
    if k == "alt":
        return any(_c02_nullable(x) or _c02_peg_shadowed(x) for x in e[1])
    if k == "seq":
        return any(_c02_peg_shadowed(x) for x in e[1])
    return _c02_peg_shadowed(e[1])


def _c02_battery(tier, seed, limit=None):
    import random

    from textx import metamodel_from_str

    rnd = random.Random(1000 + seed)
    exprs = [e for e in _c02_exprs(tier == "thorough") if not _c02_peg_shadowed(e)]
    if tier != "thorough":
        fixed = [e for e in exprs if e[0] == "seq" and len(e[1]) == 3][:48]
        rest = [e for e in exprs if e not in fixed]
        exprs = fixed + rnd.sample(rest, min(len(rest), limit or 260))
    bad = []
    n_g = n_s = 0
    for e in exprs:
        body = _c02_text(e, [0])
        grammar = f"Model: {body};"
        sents = [s for s in _c02_sentences(e, [0]) if s]
        n_g += 1
        try:
            mm = metamodel_from_str(grammar)
        except Exception as ex:  # noqa: BLE001
            bad.append(f"{grammar!r}: metamodel: {type(ex).__name__}: {ex}")
            continue
        attrs = mm["Model"]._tx_attrs
        for a in ("a", "b"):
            if a not in attrs:
                continue
            can_multi = any(sum(1 for _, x in s if x == a) >= 2 for s in sents)
            is_list = attrs[a].mult in ("0..*", "1..*")
            if can_multi != is_list:
                bad.append(f"{grammar!r}: attribute {a} {'is' if is_list else 'is not'} a list but one object can "
                           f"collect {'more than one value' if can_multi else 'at most one value'}")
        if len(sents) > 12:
            sents = rnd.sample(sents, 12)
        for s in sents:
            n_s += 1
            text = " ".join(f"{kw} {i}" if kw else str(i) for i, (kw, _) in enumerate(s))
            want = {}
            for i, (_, a) in enumerate(s):
                want.setdefault(a, []).append(i)
            try:
                m = mm.model_from_str(text)
            except Exception as ex:  # noqa: BLE001
                bad.append(f"{grammar!r} on {text!r}: {type(ex).__name__}: {ex}")
                continue
            for a in attrs:
                got = getattr(m, a)
                vals = want.get(a, [])
                if isinstance(got, list):
                    ok = got == vals
                else:
                    ok = len(vals) <= 1 and got == (vals[0] if vals else 0)
                if not ok:
                    bad.append(f"{grammar!r} on {text!r}: {a} == {got!r}, matched values in input order {vals!r}")
    return n_g, n_s, bad


@extra("C02")
def assignment_battery(tier, seed):
    n_g, n_s, bad = _c02_battery(tier, seed)
    res = {"name": "lang.assignment-multiplicities.battery", "backend": "native run of the real parser (bounded stand-in)",
           "obligations": 0, "discharged": 0, "bounded": True,
           "bound": f"{n_g} generated rule bodies over 2 attributes (nesting depth <= {3 if tier == 'thorough' else 2}), "
                    f"{n_s} sentences, repetitions unrolled 0..2 times",
           "cases": n_g + n_s, "violations": [],
           "detail": "list-ness against the sentences of the rule body; every matched value once and in input order; "
                     "no error on a sentence of the rule body"}
    if bad:
        res["violations"].append({"unit": res["name"], "kind": "BOUNDED", "label": "values-once-in-order-and-list-iff-many",
                                  "prop": "C02", "result": "refuted", "text": "; ".join(bad[:3]), "where": "battery",
                                  "path": [], "model": {"failures": bad[:10], "count": len(bad)}, "native": True,
                                  "time": 0, "reason": ""})
    return res


def _replay_c02(model, rec):
    n_g, n_s, bad = _c02_battery("thorough", 0)
    return bool(bad), "; ".join(bad[:3]) or f"all {n_g} rule bodies / {n_s} sentences as stated"


from txvc.props import replay_for  # noqa: E402

for _u in ("lang.assignment-multiplicities.battery", "lang.update_attr_multiplicities"):
    replay_for(_u)(_replay_c02)


from txvc.props import ASSUME, T_ARP, TRUSTED  # noqa: E402

TRUSTED["C02"] = [T_ARP]
ASSUME["C02"] = [
    "den-C02: one object is handed at most c1(root) assignment nodes outside repetitions for an attribute, in input order "
    "(Arpeggio's parse tree follows the expression: a sequence matches its parts once each, an ordered choice one "
    "alternative); this links the grammar-side proof to the model-side units and is what makes the 'Multiple "
    "assignments' raise and the overwrite of a falsy earlier value unreachable (bounded battery only)",
    "arpeggio class hierarchy: OrderedChoice is a Sequence; OneOrMore / ZeroOrMore / Optional are Repetitions; none of "
    "them has subclasses among the expressions textX builds",
    "A-ARB: the contract is proved for one arbitrary attribute name (uninterpreted constant A()); the statement for "
    "every name is the universal generalisation of that proof",
    "KEYED (precondition, established by _new_cls_attr, not proved here): every entry of cls._tx_attrs is a MetaAttr "
    "registered under its own name with one of the four multiplicities",
    "termination of the recursion over the expression tree is not proved (partial correctness)",
]
