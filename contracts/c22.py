"""C22 - whitespace and comments between tokens (partial: the /repo side).

Skipping itself (which characters are skipped where, comments matched by the Comment rule) is Arpeggio's
parser loop (T-ARP, assumed; bounded battery).  What /repo decides, and what is proved here:
  * visit_rule_param: `name` -> (name, True), `noname` -> (name, False), `name=value` -> (name, value);
  * visit_rule_params (per parameter): only skipws / ws / split are accepted (TextXSyntaxError otherwise), a
    ws value written with escapes denotes exactly the characters \\n \\r \\t and space it mentions;
  * visit_textx_rule: the parameters of a rule end up on the ROOT expression of that rule - also when the
    body is a single match or a single rule reference (then the body is wrapped in a Sequence carrying them);
  * visit_textx_model: the model parser is created with the metamodel's skipws / ws and the grammar's Comment
    rule as comments model (contracts/c20.py, tagged C22 too).
"""

from txvc.contracts import Ext, Loop, Schema, Unit
from txvc.props import ASSUME, T_ARP, TRUSTED, extra, replay_for

from . import c20, common  # noqa: F401

TRUSTED["C22"] = [T_ARP]
ASSUME["C22"] = [
    "T-ARP: Arpeggio skips exactly the characters of parser.ws (when parser.skipws) and text matched by the comments "
    "model before every match; a ParsingExpression's own ws / skipws attributes replace the parser's inside that "
    "expression. Bounded battery only.",
]

Unit(
    "lang.TextXVisitor.visit_rule_param",
    target="textx/lang.py::TextXVisitor.visit_rule_param",
    props=["C22"],
    params={"self": "obj:TextXVisitor", "node": "any", "children": "list"},
    requires=["len(children) >= 1", "implies(len(children) == 1, is_str(children[0]))"],
    calls={"self.dprint": Ext("dprint", pure=True, raises=None, returns="none")},
    locals={"param_name": "str"},  # the grammar's rule_param yields the parameter name first (an identifier)
    modifies=[],
    ensures=[
        ("C22-name-value-pair-is-passed-on", "implies(len(children) > 1, result == (children[0], children[1]))"),
        ("C22-bare-name-means-True",
         "implies(len(children) == 1 and not as_str(children[0]).startswith('no'), result == (children[0], True))"),
        ("C22-no-prefix-means-False",
         "implies(len(children) == 1 and as_str(children[0]).startswith('no'),"
         " result == (as_str(children[0])[2:], False))"),
    ],
    canary="result == (children[0], True)",
)

PARAMS_TGT = "textx/lang.py::TextXVisitor.visit_rule_params"
DECODED = ("((chr10() if '\\\\n' in value else '') + (chr13() if '\\\\r' in value else '')"
           " + (chr9() if '\\\\t' in value else '') + (' ' if ' ' in value else ''))")

Unit(
    "lang.TextXVisitor.visit_rule_params.per-param",
    target=PARAMS_TGT,
    region="body:for:children",
    props=["C22"],
    params={"self": "obj:TextXVisitor", "node": "obj:ParseTreeNode", "name": "str", "value": "any", "params": "dict"},
    requires=["implies(name == 'ws', is_str(value))"],
    calls={"self.grammar_parser.pos_to_linecol": Ext("pos_to_linecol", returns="tuple", raises=None, pure=True)},
    ensures=[
        ("C22-only-known-parameters-are-accepted", "name == 'skipws' or name == 'ws' or name == 'split'"),
        ("C22-parameter-recorded-under-its-name",
         "name in params and forall_val(lambda k: implies(k != name, (k in params) == old(k in params)"
         " and implies(k in params, params[k] == old(params[k]))))"),
        ("C22-plain-value-recorded-unchanged",
         "implies(not (name == 'ws' and '\\\\' in as_str(value)), params[name] == value)"),
        ("C22-escaped-ws-value-denotes-exactly-the-characters-it-mentions",
         "implies(name == 'ws' and '\\\\' in as_str(value), params[name] == "
         "(('\\n' if '\\\\n' in as_str(value) else '') + ('\\r' if '\\\\r' in as_str(value) else '')"
         " + ('\\t' if '\\\\t' in as_str(value) else '') + (' ' if ' ' in as_str(value) else '')))"),
    ],
    raises={
        "TextXSyntaxError": [("C22-unknown-parameter-is-a-syntax-error",
                              "implies(created_here(exc), not (name == 'skipws' or name == 'ws' or name == 'split'))")],
        "TextXError": [("split-needs-a-non-empty-string", "implies(created_here(exc) and not is_instance(exc, 'TextXSyntaxError'), name == 'split')")],
    },
    canary="name == 'ws'",
)


# --------------------------------------------------------------------------
# visit_textx_rule, first statement: where the rule parameters go
# --------------------------------------------------------------------------
Schema("RuleCrossRef", fields={"rule_name": "any", "cls": "any", "position": "any", "suppress": "any"})
# what visit_textx_rule gets as the rule's body: an Arpeggio expression or a RuleCrossRef; both carry rule_name
Schema("RuleBody", fields={"rule_name": "str"})
RULE_TGT = "textx/lang.py::TextXVisitor.visit_textx_rule"
WRAP = "(old(as_str(root_rule.rule_name).startswith('__asgn')) or (IS_MATCH_OR_REF and old(truthy(rule_params))))"
IS_REF = "is_instance(root_rule, 'RuleCrossRef')"

Unit(
    "lang.TextXVisitor.visit_textx_rule.params-to-root",
    target=RULE_TGT,
    # (addressed by the beginning of its test, so that a change of the test's second half is judged by the
    # clauses below instead of making the region unfindable)
    region="if:root_rule.rule_name.startswith('__asgn')*",
    props=["C22"],
    params={"rule_name": "str", "rule_params": "dict", "root_rule": "obj:RuleBody"},
    requires=["distinct(root_rule, rule_params)",
              # the keys of the parameter dict are the names accepted by visit_rule_params
              "forall(lambda j: implies(0 <= j and j < nkeys(rule_params), is_str(key_at(rule_params, j))"
              " and key_at(rule_params, j) in rule_params and (key_at(rule_params, j) == 'skipws'"
              " or key_at(rule_params, j) == 'ws' or key_at(rule_params, j) == 'split')))"],
    calls={"Sequence": Ext("Sequence", returns="obj", raises=None,
                           note="arpeggio.Sequence(nodes=, rule_name=, root=, **rule_params) (T-ARP): the keyword "
                                "arguments become attributes of the expression")},
    loops={"for:rule_params": Loop(modifies=["root_rule.*"], inv=[
        "forall(lambda j: implies(0 <= j and j < _i, getattr(root_rule, as_str(key_at(rule_params, j)))"
        " == rule_params[key_at(rule_params, j)]))",
        "root_rule.root == True and root_rule.rule_name == rule_name"])},
    ensures=[
        ("C22-a-single-match-or-reference-with-parameters-is-wrapped-in-a-sequence-carrying-them",
         "implies((is_instance(root_rule, 'RuleCrossRef') or is_instance(root_rule, 'Match')) and old(truthy(rule_params)),"
         " n_calls('Sequence') == 1 and final_root_rule == evn('Sequence', 0).result"
         " and evn('Sequence', 0).star == rule_params and evn('Sequence', 0).kwargs['root'] == True"
         " and evn('Sequence', 0).kwargs['rule_name'] == rule_name"
         " and len(as_list(evn('Sequence', 0).kwargs['nodes'])) == 1"
         " and as_list(evn('Sequence', 0).kwargs['nodes'])[0] == root_rule)"),
        ("C22-otherwise-the-body-itself-becomes-the-root-and-gets-every-parameter",
         "implies(n_calls('Sequence') == 0 and not is_instance(root_rule, 'RuleCrossRef'),"
         " final_root_rule == root_rule and root_rule.root == True and root_rule.rule_name == rule_name"
         " and forall(lambda j: implies(0 <= j and j < nkeys(rule_params),"
         " getattr(root_rule, as_str(key_at(rule_params, j))) == rule_params[key_at(rule_params, j)])))"),
        ("C22-a-bare-rule-reference-without-parameters-is-left-for-the-second-pass",
         "implies(is_instance(root_rule, 'RuleCrossRef') and not old(truthy(rule_params))"
         " and not old(as_str(root_rule.rule_name).startswith('__asgn')), n_calls('Sequence') == 0"
         " and final_root_rule == root_rule)"),
    ],
    canary="n_calls('Sequence') == 1",
)


# --------------------------------------------------------------------------
# bounded battery (never counted as proved): inserting whitespace of the ACTIVE set / comments wherever
# skipping is active leaves acceptance and the model unchanged; characters outside the active set are not
# skipped.  Rule modifiers on a sequence, on a single match and on a single rule reference.
# --------------------------------------------------------------------------
def _dump(o):
    if isinstance(o, list):
        return [_dump(x) for x in o]
    if hasattr(type(o), "_tx_attrs"):
        return (type(o).__name__, {k: _dump(getattr(o, k)) for k in type(o)._tx_attrs})
    return o


def _c22_battery():
    from textx import metamodel_from_str
    from textx.exceptions import TextXSyntaxError

    bad = []

    def accepts(mm, text):
        try:
            return ("ok", _dump(mm.model_from_str(text)))
        except TextXSyntaxError:
            return ("rejected", None)

    # 1. default skipping + Comment rule
    g1 = r"Model: 'begin' items+=Item[','] 'end'; Item: name=ID '=' value=INT; Comment: /#.*$/;"
    mm = metamodel_from_str(g1)
    base = ["begin", "a", "=", "1", ",", "b", "=", "22", "end"]
    ref = accepts(mm, " ".join(base))
    for filler in (" ", "\n", "\t", "  \n\t ", " # note\n", "\n# c1\n# c2\n"):
        for k in range(len(base) + 1):
            toks = list(base)
            text = " ".join(toks[:k]) + filler + " ".join(toks[k:])
            if k not in (0, len(base)):
                text = " ".join(toks[:k]) + " " + filler + " ".join(toks[k:])
            got = accepts(mm, text)
            if got != ref:
                bad.append(f"default skipping: inserting {filler!r} before token {k} changed the outcome to {got[0]}")
    # 2. rule modifiers: ws replaced / skipping disabled; on a sequence, a single match, a single reference
    g2 = r"""
    Model: 'm' blocks+=Block tight=Tight? word=Word? line=Line?;
    Block[ws=' \n']: Pair;
    Pair: '(' left=ID right=ID ')';
    Tight[noskipws]: TightBody;
    TightBody: '<' a=ID '>';
    Word[noskipws]: /w+/;
    Line[ws=' ']: 'line' x=INT y=INT;
    """
    mm2 = metamodel_from_str(g2, ws=" \t")
    ok = lambda t: accepts(mm2, t)[0]  # noqa: E731
    checks = [
        ("m ( a b )", "ok", "baseline"),
        ("m (\na\nb\n)", "ok", "newline is in Block's own set (modifier on a rule that is a single reference)"),
        ("m (\ta b )", "rejected", "tab is not in Block's set"),
        ("m ( a b )<x>", "ok", "Tight baseline (a noskipws rule starts right after the previous token)"),
        ("m ( a b )< x>", "rejected", "noskipws on a single-reference rule: nothing may be skipped inside"),
        ("m ( a b )<x >", "rejected", "noskipws on a single-reference rule: nothing may be skipped inside"),
        ("m ( a b )<x>www", "ok", "Word baseline (noskipws on a single match)"),
        ("m ( a b )<x> www", "rejected", "noskipws on a single match: the blank before it is not skipped"),
        ("m ( a b ) line 1 2", "ok", "Line baseline"),
        ("m ( a b ) line 1\t2", "rejected", "tab is not in Line's set (modifier on a sequence)"),
        ("m ( a b ) line  1   2", "ok", "extra blanks of Line's set"),
    ]
    for text, want, why in checks:
        got = ok(text)
        if got != want:
            bad.append(f"rule modifiers: {text!r} is {got}, expected {want} ({why})")
    # 3. global noskipws / custom ws
    mm3 = metamodel_from_str("Model: 'a' 'b';", skipws=False)
    if accepts(mm3, "a b")[0] != "rejected" or accepts(mm3, "ab")[0] != "ok":
        bad.append("skipws=False: whitespace between tokens was skipped")
    mm4 = metamodel_from_str("Model: 'a' 'b';", ws="_")
    if accepts(mm4, "a__b")[0] != "ok" or accepts(mm4, "a b")[0] != "rejected":
        bad.append("ws='_': only the characters of the active set may be skipped")
    return bad


@extra("C22")
def ws_battery(tier, seed):
    bad = _c22_battery()
    res = {"name": "lang.whitespace.battery", "backend": "native run of the real parser (bounded stand-in)",
           "obligations": 0, "discharged": 0, "bounded": True,
           "bound": "6 fillers x 10 insertion points on one grammar with a Comment rule; 10 modifier cases; 4 global cases",
           "cases": 74, "violations": [],
           "detail": "insertion of active whitespace / comments is invisible; inactive characters are not skipped; "
                     "modifiers reach the rule's root expression"}
    if bad:
        res["violations"].append({"unit": "lang.whitespace.battery", "kind": "BOUNDED",
                                  "label": "active-whitespace-and-comments-are-invisible", "prop": "C22",
                                  "result": "refuted", "text": "; ".join(bad[:3]), "where": "battery", "path": [],
                                  "model": {"failures": bad[:6]}, "native": True, "time": 0, "reason": ""})
    return res


def _replay_c22(model, rec):
    bad = _c22_battery()
    return bool(bad), "; ".join(bad[:4]) or "whitespace battery passes"


for _u in ("lang.whitespace.battery", "lang.TextXVisitor.visit_rule_param", "lang.TextXVisitor.visit_rule_params.per-param",
           "lang.TextXVisitor.visit_textx_rule.params-to-root"):
    replay_for(_u)(_replay_c22)
