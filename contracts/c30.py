"""C30 - the textx CLI passes generator arguments faithfully and reports outcomes."""

from txvc.contracts import Ext, Unit

from . import common  # noqa: F401

M0 = "old(arguments[0])"
KEY = f"{M0}[2:].replace('-', '_')"
BARE = "(old(len(arguments)) == 1 or old(arguments[1]).startswith('--'))"
OTHERS_UNCHANGED = (
    "forall_val(lambda k: implies(k != {key}, (k in custom_args) == old(k in custom_args)"
    " and implies(k in custom_args, custom_args[k] == old(custom_args[k]))))"
)

Unit(
    "cli.generate.custom-args-loop-body",
    target="textx/cli/generate.py::generate.generate",
    region="body:while:arguments",
    props=["C30"],
    params={
        "arguments": "list[str]",
        "custom_args": "dict",
        "model_files_without_args": "list",
    },
    requires=["arguments != model_files_without_args"],
    decorators_dropped=["textx.command", "click.argument", "click.option x6", "click.pass_context"],
    ensures=[
        # a token --name contributes the key name[2:] with dashes turned into underscores ...
        ("flag-key-has-underscores", f"implies({M0}.startswith('--'), {KEY} in custom_args)"),
        # ... True when bare (last token or followed by another --token), else the next token unquoted
        ("flag-value",
         f"implies({M0}.startswith('--'), custom_args[{KEY}] == "
         f"(True if {BARE} else old(arguments[1]).strip('\"\\'')))"),
        ("flag-no-other-key-touched",
         f"implies({M0}.startswith('--'), " + OTHERS_UNCHANGED.format(key=KEY) + ")"),
        ("flag-consumes-one-or-two-tokens",
         f"implies({M0}.startswith('--'), len(arguments) == old(len(arguments)) - (1 if {BARE} else 2)"
         f" and forall(lambda j: implies(0 <= j and j < len(arguments), "
         f"arguments[j] == old(arguments[j + (1 if {BARE} else 2)]))))"),
        ("flag-is-not-a-model-file",
         f"implies({M0}.startswith('--'), len(model_files_without_args) == old(len(model_files_without_args)))"),
        # other tokens are model files
        ("file-appended",
         f"implies(not {M0}.startswith('--'), len(model_files_without_args) == old(len(model_files_without_args)) + 1"
         f" and model_files_without_args[-1] == {M0}"
         " and forall(lambda j: implies(0 <= j and j < old(len(model_files_without_args)),"
         " model_files_without_args[j] == old(model_files_without_args[j]))))"),
        ("file-leaves-custom-args-alone",
         f"implies(not {M0}.startswith('--'), forall_val(lambda k: (k in custom_args) == old(k in custom_args)"
         " and implies(k in custom_args, custom_args[k] == old(custom_args[k]))))"),
        ("file-consumes-one-token",
         f"implies(not {M0}.startswith('--'), len(arguments) == old(len(arguments)) - 1"
         " and forall(lambda j: implies(0 <= j and j < len(arguments), arguments[j] == old(arguments[j + 1]))))"),
    ],
    canary="len(arguments) == old(len(arguments)) - 1",
)


from txvc.props import replay_for  # noqa: E402


def run_generate_cli(tokens):
    """Run the real `textx generate` command on a scratch grammar/model with the
    given extra tokens; returns (exit_code, kwargs seen by the generator)."""
    import os
    import shutil
    import tempfile

    import click
    from click.testing import CliRunner

    from textx import GeneratorDesc, clear_generator_registrations, register_generator
    from textx.cli.generate import generate as add_generate

    d = tempfile.mkdtemp(prefix="txvc-c30-")
    seen = {}
    try:
        g = os.path.join(d, "g.tx")
        m = os.path.join(d, "m.mod")
        open(g, "w").write("Model: 'x';")
        open(m, "w").write("x")

        def gen(metamodel, model, output_path, overwrite, debug, **custom):
            seen.update(custom)

        clear_generator_registrations()
        register_generator(GeneratorDesc("any", "txvct", "replay target", gen))
        grp = click.Group()

        @grp.group()
        @click.pass_context
        def textx(ctx):
            ctx.obj = {"debug": False}

        add_generate(textx)
        res = CliRunner().invoke(grp, ["textx", "generate", "--target", "txvct", "--grammar", g, m] + tokens)
        return res.exit_code, dict(seen), res.output
    finally:
        clear_generator_registrations()
        shutil.rmtree(d, ignore_errors=True)


@replay_for("cli.generate.custom-args-loop-body")
def _replay(model, rec):
    toks = (model.get("arguments") or {}).get("list") if isinstance(model.get("arguments"), dict) else None
    toks = [t for t in (toks or []) if isinstance(t, str)][:2] or ["--my-flag"]
    # the loop consumes one flag (+ value); keep tokens printable for the CLI
    if not toks[0].startswith("--"):
        toks = ["--my-flag"]
    name = toks[0][2:]
    if not name or any(c.isspace() or ord(c) < 33 for c in name):
        toks[0] = "--my-flag" if "-" in name or not name else toks[0]
        name = toks[0][2:]
    # the counter-model's tokens first, then the token shapes the statement distinguishes: bare flag,
    # flag with value, value that itself starts with a dash, quoted value, flag followed by a flag
    candidates = [toks, ["--my-flag"], ["--out-dir", "v"], ["--line-offset", "-5"], ["--title", "'q r'"],
                  ["--first", "--second-one"]]
    details = []
    for toks in candidates:
        name = toks[0][2:]
        bare = len(toks) == 1 or toks[1].startswith("--")
        want = {name.replace("-", "_"): True if bare else toks[1].strip("\"'")}
        if bare and len(toks) == 2:
            want[toks[1][2:].replace("-", "_")] = True
        code, seen, out = run_generate_cli(toks)
        if not (code == 0 and seen == want):
            details.append(f"textx generate ... {' '.join(toks)} -> exit {code}, generator received {seen!r}; "
                           f"the property demands {want!r}")
    return bool(details), "; ".join(details) or "custom arguments reach the generator as the statement says"


# --------------------------------------------------------------------------
# inner generate(...): validation of declared / mandatory generator arguments
# and forwarding of ALL custom arguments to the generator
# --------------------------------------------------------------------------
from txvc.contracts import Loop, Schema  # noqa: E402


GEN = "evn('generator_description', 0).result"
GARGS = f"as_list({GEN}.custom_args)"

Unit(
    "cli.generate.inner-generate",
    target="textx/cli/generate.py::generate.generate.generate",
    props=["C30"],
    params={"language": "any", "target": "any", "any_permitted": "any", "metamodel": "any",
            "model": "any", "custom_args": "dict"},
    captured={"output_path": "any", "overwrite": "any", "debug": "any"},
    calls={
        "generator_description": Ext("generator_description", returns="obj:GeneratorDesc", pure=True,
                                     raises=["TextXRegistrationError"]),
        "generator.generator": Ext("generator", protect=["dict(custom_args)"],
                                   note="the registered generator callable (does not modify the custom_args dict)"),
    },
    modifies=["*"],
    locals={"generator_args": "list[obj:GeneratorParam]|none"},
    loops={
        "for:generator_args": Loop(
            pure=True,
            inv=["forall(lambda j: implies(0 <= j and j < _i, implies(as_list(generator_args)[j].mandatory,"
                 " as_list(generator_args)[j].name in given_args)))"]),
        "for:given_args": Loop(
            pure=True,
            inv=["forall(lambda j: implies(0 <= j and j < _i, key_at(given_args, j) in generator_arg_names))"]),
    },
    requires=[
        # ghost key order of the custom_args dict covers exactly its keys
        "forall_val(lambda k: implies(k in custom_args, exists_in(0, nkeys(custom_args),"
        " lambda j: key_at(custom_args, j) == k)))",
    ],
    ensures=[
        ("generator-called-once-with-every-custom-argument",
         "n_calls('generator') == 1 and evn('generator', 0).star == custom_args"
         " and forall_val(lambda k: (k in custom_args) == old(k in custom_args)"
         " and implies(k in custom_args, before(evn('generator', 0), custom_args[k]) == old(custom_args[k])))"),
        ("generator-positional-arguments",
         "evn('generator', 0).args[0] == metamodel and evn('generator', 0).args[1] == model"
         " and evn('generator', 0).args[2] == output_path and evn('generator', 0).args[3] == overwrite"
         " and evn('generator', 0).args[4] == debug"),
        ("mandatory-arguments-present",
         f"before(evn('generator', 0), implies({GEN}.custom_args is not None,"
         f" forall(lambda j: implies(0 <= j and j < len({GARGS}),"
         f" implies({GARGS}[j].mandatory, {GARGS}[j].name in custom_args)))))"),
        ("given-arguments-declared",
         f"before(evn('generator', 0), implies(nkeys(custom_args) > 0 and {GEN}.custom_args is not None"
         f" and len({GARGS}) > 0, forall(lambda i: implies(0 <= i and i < nkeys(custom_args),"
         f" exists_in(0, len({GARGS}), lambda j: {GARGS}[j].name == key_at(custom_args, i))))))"),
    ],
    canary="n_calls('generator') == 0",
)


# --------------------------------------------------------------------------
# the per-model-file step: every custom argument reaches generate(...)
# --------------------------------------------------------------------------
INNER = "evn('call:cli.generate.inner-generate', 0)"

Unit(
    "cli.generate.per-file-body",
    target="textx/cli/generate.py::generate.generate",
    region="body:for:model_files_without_args",
    props=["C30"],
    params={"model_file": "str", "no_explicit_language": "bool", "language": "any", "metamodel": "any",
            "custom_args": "dict", "target": "any", "output_path": "any", "overwrite": "any", "debug": "any"},
    calls={
        "logger.info": Ext("logger.info", pure=True, raises=None, returns="none"),
        "language_for_file": Ext("language_for_file", pure=True, raises=["TextXRegistrationError"], returns="obj"),
        "metamodel_for_file": Ext("metamodel_for_file", raises=["TextXError"], returns="obj",
                                  protect=["dict(custom_args)"]),
        "metamodel.model_from_file": Ext("model_from_file", raises=["TextXError"],
                                         protect=["dict(custom_args)"],
                                         note="loading the model does not modify the custom_args dict"),
    },
    requires=[
        "forall_val(lambda k: implies(k in custom_args, exists_in(0, nkeys(custom_args),"
        " lambda j: key_at(custom_args, j) == k)))",
    ],
    ensures=[
        ("generate-gets-the-whole-custom-args-dict",
         f"n_calls('call:cli.generate.inner-generate') == 1 and {INNER}.args['custom_args'] == custom_args"
         f" and forall_val(lambda k: before({INNER}, k in custom_args) == old(k in custom_args)"
         f" and implies(old(k in custom_args), before({INNER}, custom_args[k]) == old(custom_args[k])))"),
        ("model-loaded-from-the-file", "evn('model_from_file', 0).args[0] == model_file"),
    ],
    canary="n_calls('model_from_file') == 0",
)


@replay_for("cli.generate.per-file-body")
def _replay_per_file(model, rec):
    """End-to-end: one ordinary custom argument plus one custom argument for every
    model parameter the meta-model declares (the situation in which the per-file
    step treats arguments differently); the generator must receive all of them."""
    from textx import metamodel_from_str

    names = ["foo_bar"] + list(metamodel_from_str("Model: 'x';").model_param_defs)
    toks = []
    want = {}
    for i, nm in enumerate(names):
        toks += ["--" + nm.replace("_", "-"), f"v{i}"]
        want[nm] = f"v{i}"
    code, seen, out = run_generate_cli(toks)
    ok = code == 0 and seen == want
    return (not ok), (f"textx generate ... {' '.join(toks)} -> exit {code}; generator received {seen!r}, "
                      f"the property demands {want!r}")
