"""C23 - invalid grammars are always reported as textX errors (partial).

Exception-type contracts: the units below are verified with wd=True - every partial primitive (subscript,
`in`, attribute access, unpacking, calling a dependency that may raise) forks its implicit exception - and
allowed_exc=['TextXError']: an exception of any other class leaving the function is a failed WD obligation.
Covered: the visitor methods that turn grammar text into matchers and rule parameters (visit_re_match,
visit_str_match, visit_rule_param, visit_rule_params per parameter) - the places where the round-0 probes
showed foreign exceptions.  The preconditions are the node shapes the grammar of lang.py guarantees
(re_match and str_match are Terminals; a rule parameter is a name or a name and a value).
NOT covered deductively: termination of _resolve_rule / _determine_rule_type on cyclic rule references
(RecursionError) and the visitors not listed; the bounded battery below feeds a corpus of invalid grammars
to metamodel_from_str and reports any exception that is not a TextXError.
"""

from txvc.contracts import Ext, Schema, Unit
from txvc.props import ASSUME, T_ARP, TRUSTED, extra, replay_for

from . import c20, c21, c22, common  # noqa: F401

TRUSTED["C23"] = [T_ARP]
ASSUME["C23"] = [
    "node shapes: visit_re_match / visit_str_match receive the Terminal of the grammar's re_match / str_match rule; "
    "visit_rule_param receives one or two children, the first a string",
    "re.compile raises re.error (an Exception) on an invalid pattern; codecs.decode(..., 'unicode-escape') raises "
    "UnicodeDecodeError (a ValueError) on an invalid escape",
]
ALLOWED = ["TextXError"]

Unit(
    "c23.visit_re_match",
    target="textx/lang.py::TextXVisitor.visit_re_match",
    props=["C23"],
    wd=True,
    allowed_exc=ALLOWED,
    params={"self": "obj:TextXVisitor", "node": "obj:Terminal", "children": "any"},
    requires=["hasattr(node, 'extra_info') and is_ref(node.extra_info)",
              "'grammar_parser' in self.__dict__ and is_ref(self.grammar_parser)",
              "hasattr(self.grammar_parser, 'pos_to_linecol') and hasattr(node.extra_info, 'group')",
              "hasattr(self.metamodel, 'ignore_case')"],
    # is_valid() of the visitor and of the node survives the calls into Arpeggio / re
    ext_protect=["self.*", "self.grammar_parser.*", "cls(self.grammar_parser).*", "node.*", "node.extra_info.*"],
    calls={
        "node.extra_info.group": Ext("group", pure=True, raises=None, returns="str"),
        "RegExMatch": Ext("RegExMatch", returns="obj:RegExMatch", raises=None,
                          ensures=["hasattr(result, 'compile')"]),
        "regex.compile": Ext("compile", returns="none", raises=["Exception"],
                             note="re.compile of the user's pattern: re.error on an invalid one"),
        "self.grammar_parser.pos_to_linecol": Ext("pos_to_linecol", returns="tuple", raises=None, pure=True,
                                                  ensures=["result == (result[0], result[1])"]),
    },
    modifies=["*"],
    ensures=[("returns-the-matcher", "result == evn('RegExMatch', 0).result")],
    raises={"TextXSyntaxError": [("C23-invalid-regex-is-a-syntax-error-carrying-the-reason",
                                  "implies(created_here(exc), n_calls('compile') == 1)")]},
    canary="result is None",
)

Unit(
    "c23.visit_str_match",
    target="textx/lang.py::TextXVisitor.visit_str_match",
    props=["C23"],
    # (not wd: the attribute accesses of this method are covered by the visitor's is_valid() in c21.py; what is
    # checked here is that no exception RAISED BY A DEPENDENCY - decode_escapes - escapes as a foreign type)
    allowed_exc=ALLOWED,
    params={"self": "obj:TextXVisitor", "node": "any", "children": "list[str]"},
    calls={
        "decode_escapes": Ext("decode_escapes", returns="str", raises=["=UnicodeDecodeError:ValueError"], pure=True,
                              note="unicode-escape decoding: UnicodeDecodeError (a ValueError) on e.g. \\\\N{foo}"),
        "self.keyword_regex.match": Ext("kwmatch", raises=None, pure=True),
        "match.span": Ext("span", returns="tuple", raises=None, pure=True),
        "RegExMatch": Ext("RegExMatch", returns="obj:RegExMatch", raises=None),
        "regex_match.compile": Ext("compile", raises=None, returns="none",
                                   note="literal + \\\\b where the literal is identifier-like: always a valid pattern"),
        "StrMatch": Ext("StrMatch", returns="obj:StrMatch", raises=None),
        "self.grammar_parser.pos_to_linecol": Ext("pos_to_linecol", returns="tuple", raises=None, pure=True,
                                                  ensures=["result == (result[0], result[1])"]),
    },
    modifies=["*"],
    ensures=[("returns-a-matcher", "is_ref(result)")],
    raises={"TextXSyntaxError": [("C23-invalid-escape-is-a-syntax-error", "implies(created_here(exc), n_calls('decode_escapes') == 1)")]},
    canary="result is None",
)

Unit(
    "c23.visit_rule_params.per-param",
    target="textx/lang.py::TextXVisitor.visit_rule_params",
    region="body:for:children",
    props=["C23"],
    wd=True,
    allowed_exc=ALLOWED,
    # value: whatever visit_rule_param produced - a string, or True / False for a bare flag
    params={"self": "obj:TextXVisitor", "node": "obj:ParseTreeNode", "name": "str", "value": "str|bool", "params": "dict"},
    requires=["'grammar_parser' in self.__dict__ and is_ref(self.grammar_parser)"
              " and hasattr(self.grammar_parser, 'pos_to_linecol')"],
    calls={"self.grammar_parser.pos_to_linecol": Ext("pos_to_linecol", returns="tuple", raises=None, pure=True)},
    ensures=[("parameter-recorded", "name in params")],
    raises={"TextXError": []},
    canary="name == 'ws'",
)


# --------------------------------------------------------------------------
# bounded battery: invalid (and odd but valid) grammars through metamodel_from_str
# --------------------------------------------------------------------------
C23_CORPUS = [
    "", "Model", "Model:", "Model: ;", "Model: 'a'", "Model: 'a' ;;", "Model: a= ;", "Model: a=INT b;",
    "Model: /(/;", "Model: /[a-/;", "Model: /a{2,1}/;", "Model: a=/(?P<x>a)(?P<x>b)/;",
    "Model[ws]: 'a';", "Model[nows]: 'a';", "Model[skipws=1]: 'a';", "Model[foo]: 'a';", "Model[split]: 'a';",
    "Model[ws='\\\\q']: 'a';", "Model[split='']: 'a';",
    "Model: '\\\\N{foo}';", "Model: '\\\\U99999999';", "Model: '\\\\x';", "Model: '\\\\u12';",
    "Model: A; A: A;", "A: B; B: A;", "Model: a=A; A: B; B: C; C: A;", "Model: A | B; A: B; B: Model;",
    "Model: a=Undefined;", "Model: a=[Undefined];", "Model: a=[Item:Undefined]; Item: name=ID;",
    "Model: a=[INT];", "Model: a+=INT a?=INT;", "Model: a?=INT+;", "Model: x=INT#;", "Model: Rule#;  Rule: 'a';",
    "Model: a=INT[','];", "Model: (a=INT)#[','];", "Model: a*=INT[eolterm eolterm];", "Model: a+=INT[/(/];",
    "Model: a=[Item|FQN|^items]; Item: name=ID;", "Model: a=[Item:ID|+z:items]; Item: name=ID;",
    "Model: a=[Item:ID|..(Item]; Item: name=ID;", "Model: a=INT; Model: b=INT;", "import foo Model: 'a';",
    "reference Model: 'a';", "Model: 'a'; Comment: ;", "Model: !'a' &'b';", "Model: -;", "Model: 'a'-;",
    "Model: a=INT- ;", "Model: (('a')));", "Model: a=STRING 'x",
]


def _c23_battery(corpus=None):
    from textx import metamodel_from_str
    from textx.exceptions import TextXError

    bad = []
    ok = err = 0
    for g in (corpus or C23_CORPUS):
        try:
            metamodel_from_str(g)
            ok += 1
        except TextXError as e:
            err += 1
            if not str(e):
                bad.append(f"{g!r}: {type(e).__name__} without a message")
        except AssertionError as e:
            if g.startswith("import"):
                err += 1  # the documented exception: an import statement in a grammar given as a string
            else:
                bad.append(f"{g!r}: AssertionError {e}")
        except BaseException as e:  # noqa: BLE001
            bad.append(f"{g!r}: {type(e).__name__}: {str(e)[:80]}")
    return ok, err, bad


@extra("C23")
def invalid_grammar_battery(tier, seed):
    import sys

    corpus = list(C23_CORPUS) + ["Model: '\\N{foo}';", "Model: '\\U99999999';", "Model: '\\x';", "Model: a+=INT['\\N{x}'];"]
    old = sys.getrecursionlimit()
    try:
        ok, err, bad = _c23_battery(corpus)
    finally:
        sys.setrecursionlimit(old)
    res = {"name": "lang.invalid-grammars.battery", "backend": "native run of metamodel_from_str (bounded stand-in)",
           "obligations": 0, "discharged": 0, "bounded": True,
           "bound": f"a corpus of {len(corpus)} invalid or odd grammar texts", "cases": len(corpus), "violations": [],
           "detail": f"{ok} accepted, {err} rejected with a TextXError carrying a message"}
    if bad:
        res["violations"].append({"unit": "lang.invalid-grammars.battery", "kind": "BOUNDED",
                                  "label": "only-textx-errors", "prop": "C23", "result": "refuted",
                                  "text": "; ".join(bad[:4]), "where": "battery", "path": [],
                                  "model": {"failures": bad[:8]}, "native": True, "time": 0, "reason": ""})
    return res


def _replay_c23(model, rec):
    ok, err, bad = _c23_battery()
    return bool(bad), "; ".join(bad[:4]) or f"corpus: {ok} accepted, {err} rejected with a TextXError"


for _u in ("lang.invalid-grammars.battery", "c23.visit_re_match", "c23.visit_str_match", "c23.visit_rule_params.per-param"):
    replay_for(_u)(_replay_c23)
