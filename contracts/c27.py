"""C27 - model parameters are validated and reach every loaded model."""

from txvc.contracts import Ext, Loop, Schema, SpecFn, Unit

from . import common  # noqa: F401


Unit(
    "model_params.check_params",
    target="textx/model_params.py::ModelParamDefinitions.check_params",
    props=["C27"],
    params={"self": "obj:ModelParamDefinitions", "source": "any", "kwargs": "dict"},
    requires=["self.store != kwargs"],
    loops={"for:kwargs": Loop(pure=True, inv=[
        "forall(lambda j: implies(0 <= j and j < _i, key_at(kwargs, j) in self.store))"])},
    ensures=[("accepts-only-declared-parameters",
              "forall(lambda j: implies(0 <= j and j < nkeys(kwargs), key_at(kwargs, j) in self.store))")],
    raises={"TextXError": [("rejects-only-an-undeclared-parameter",
                            "implies(created_here(exc), exists_in(0, nkeys(kwargs),"
                            " lambda j: not (key_at(kwargs, j) in self.store)))")]},
    canary="nkeys(kwargs) == 0",
)

CHECK = Ext("check_params", pure=True, raises=["TextXError"], returns="none",
            note="ModelParamDefinitions.check_params (verified above)")
SAME_PARAMS = ("forall_val(lambda k: (k in {mp}.store) == (k in kwargs) and implies(k in kwargs, {mp}.store[k] == kwargs[k]))")

Unit(
    "metamodel.model_from_file",
    target="textx/metamodel.py::TextXMetaModel.model_from_file",
    props=["C27"],
    params={"self": "obj:TextXMetaModel", "file_name": "any", "encoding": "any", "debug": "any", "kwargs": "dict"},
    calls={
        "self.model_param_defs.check_params": CHECK,
        "self.internal_model_from_file": Ext("internal_model_from_file", protect=["dict(kwargs)"]),
    },
    modifies=["*"],
    ensures=[
        ("parameters-checked-before-loading",
         "ev(0).name == 'check_params' and ev(0).star == kwargs and n_calls('internal_model_from_file') == 1"),
        ("the-given-parameters-are-forwarded",
         "before(evn('internal_model_from_file', 0), "
         + SAME_PARAMS.format(mp="as_obj(evn('internal_model_from_file', 0).kwargs['model_params'], 'ModelParams')") + ")"),
        ("result-is-the-loaded-model", "result == evn('internal_model_from_file', 0).result"),
    ],
    raises={"TextXError": [("nothing-loaded-when-the-check-fails",
                            "implies(n_calls('internal_model_from_file') == 0, exc == ev(0).exc)")]},
    canary="n_calls('internal_model_from_file') == 0",
)


Unit(
    "metamodel.model_from_str",
    target="textx/metamodel.py::TextXMetaModel.model_from_str",
    props=["C27"],
    params={"self": "obj:TextXMetaModel", "model_str": "any", "file_name": "any", "debug": "any",
            "pre_ref_resolution_callback": "any", "encoding": "any", "kwargs": "dict"},
    calls={
        "self.model_param_defs.check_params": CHECK,
        "self.internal_model_from_file": Ext("internal_model_from_file", protect=["dict(kwargs)"]),
        "self._parser_blueprint.clone": Ext("clone", pure=True, raises=None, returns="obj:TextXModelParser"),
        "self._parser_blueprint.clone().get_model_from_str": Ext("get_model_from_str", protect=["dict(kwargs)"]),
        "p": Ext("model_processor"),
    },
    modifies=["*"],
    loops={"for:self._model_processors": Loop(modifies=["*"], inv=[])},
    ensures=[
        ("parameters-checked-first", "ev(0).name == 'check_params' and ev(0).star == kwargs"),
        ("file-route-forwards-the-parameters",
         "implies(file_name is not None, n_calls('internal_model_from_file') == 1 and "
         "before(evn('internal_model_from_file', 0), "
         + SAME_PARAMS.format(mp="as_obj(evn('internal_model_from_file', 0).kwargs['model_params'], 'ModelParams')")
         + "))"),
        ("string-route-installs-the-parameter-callback",
         "implies(file_name is None, n_calls('get_model_from_str') == 1 and "
         "is_ref(evn('get_model_from_str', 0).kwargs['pre_ref_resolution_callback']))"),
    ],
    canary="file_name is None",
)

# the callback that gives every model created by a string load its parameters
Unit(
    "metamodel.model_from_str.kwargs_callback",
    target="textx/metamodel.py::TextXMetaModel.model_from_str.kwargs_callback",
    props=["C27"],
    params={"other_model": "any"},
    captured={"kwargs": "dict", "pre_ref_resolution_callback": "any"},
    calls={"pre_ref_resolution_callback": Ext("user_callback", protect=["other_model._tx_model_params", "dict(kwargs)"],
                                              note="a user callback does not replace the parameters just installed")},
    ext_protect=["other_model._tx_model_params.*", "dict(other_model._tx_model_params.store)"],
    modifies=["*"],
    ensures=[
        ("model-gets-exactly-the-given-parameters",
         "implies(old(hasattr(other_model, '_tx_metamodel')), "
         + SAME_PARAMS.format(mp="as_obj(other_model._tx_model_params, 'ModelParams')") + ")"),
        ("user-callback-still-called",
         "implies(truthy(pre_ref_resolution_callback), n_calls('user_callback') == 1 and "
         "evn('user_callback', 0).args[0] == other_model)"),
    ],
    canary="n_calls('user_callback') == 1",
)

Unit(
    "metamodel.internal_model_from_file.kwargs_callback",
    target="textx/metamodel.py::TextXMetaModel.internal_model_from_file.kwargs_callback",
    props=["C27"],
    params={"other_model": "any"},
    captured={"model_params": "any", "callback": "any"},
    calls={"callback": Ext("callback", protect=["other_model._tx_model_params"],
                           note="repository callbacks do not overwrite the parameters just installed")},
    modifies=["*"],
    ensures=[
        ("every-model-of-the-load-gets-the-load's-parameters",
         "implies(old(hasattr(other_model, '_tx_metamodel')), other_model._tx_model_params == model_params)"),
        ("repository-callback-still-called",
         "implies(truthy(callback), n_calls('callback') == 1 and evn('callback', 0).args[0] == other_model)"),
    ],
    canary="n_calls('callback') == 1",
)

AM = "self.all_models.filename_to_model"
LM = "self.local_models.filename_to_model"

Unit(
    "scoping.GlobalModelRepository.load_model",
    target="textx/scoping/__init__.py::GlobalModelRepository.load_model",
    props=["C27", "C17"],
    params={"self": "obj:GlobalModelRepository", "the_metamodel": "any", "filename": "str",
            "is_main_model": "any", "encoding": "any", "add_to_local_models": "any", "model_params": "any"},
    calls={
        "the_metamodel.internal_model_from_file": Ext("internal_model_from_file"),
    },
    modifies=["*"],
    ensures=[
        ("imported-model-loaded-with-the-importers-parameters",
         "implies(n_calls('internal_model_from_file') == 1, "
         "evn('internal_model_from_file', 0).kwargs['model_params'] == model_params"
         " and evn('internal_model_from_file', 0).args[0] == abspath(filename))"),
        # C17: a file is parsed only if it is known neither locally nor globally
        ("C17-file-parsed-at-most-once",
         f"(n_calls('internal_model_from_file') == 1) == (not old(abspath(filename) in {LM})"
         f" and not old(abspath(filename) in {AM}))", "C17"),
        ("C17-cached-model-reused-with-its-identity",
         f"implies(old(abspath(filename) in {AM}) and not old(abspath(filename) in {LM}),"
         f" result == old({AM}[abspath(filename)]))", "C17"),
        ("C17-result-is-the-globally-registered-model",
         f"abspath(filename) in {AM} and result == {AM}[abspath(filename)]", "C17"),
        ("C17-visible-locally-iff-requested",
         f"implies(not old(abspath(filename) in {LM}) and truthy(add_to_local_models),"
         f" abspath(filename) in {LM} and {LM}[abspath(filename)] == result)", "C17"),
    ],
    ext_protect=["self.*", "self.all_models.*", "self.local_models.*"],
    canary="n_calls('internal_model_from_file') == 1",
)


LOAD_MODEL = Ext("load_model", note="GlobalModelRepository.load_model (verified above)")

Unit(
    "scoping.load_models_using_filepattern",
    target="textx/scoping/__init__.py::GlobalModelRepository.load_models_using_filepattern",
    props=["C27", "C17"],
    params={"self": "obj:GlobalModelRepository", "filename_pattern": "any", "model": "any", "glob_args": "dict",
            "is_main_model": "any", "encoding": "any", "add_to_local_models": "any", "model_params": "any"},
    calls={
        "self.update_model_in_repo_based_on_filename": Ext("update_model_in_repo", raises=None),
        "get_metamodel": Ext("get_metamodel", pure=True, raises=None),
        "glob.glob": Ext("glob", pure=True, raises=None, returns="list[str]"),
        "metamodel_for_file_or_default_metamodel": Ext("metamodel_for_file_or_default", pure=True, raises=None),
        "self.load_model": LOAD_MODEL,
        "os.strerror": Ext("strerror", pure=True, raises=None, returns="str"),
    },
    modifies=["*"],
    loops={"for:filenames": Loop(modifies=["*"], inv=[], body_unit="scoping.load_models_using_filepattern.step")},
    ensures=[
        ("C17-importer-registered-before-any-import-is-loaded",
         "implies(model is not None, n_calls('update_model_in_repo') == 1 and "
         "evn('update_model_in_repo', 0).args[0] == model and evpos('update_model_in_repo', 0) == 0)", "C17"),
    ],
    canary="len(result) == 0",
)

Unit(
    "scoping.load_models_using_filepattern.step",
    target="textx/scoping/__init__.py::GlobalModelRepository.load_models_using_filepattern",
    region="body:for:filenames",
    props=["C27", "C17"],
    params={"self": "obj:GlobalModelRepository", "filename": "str", "the_metamodel": "any", "loaded_models": "list",
            "is_main_model": "any", "encoding": "any", "add_to_local_models": "any", "model_params": "any"},
    calls={
        "metamodel_for_file_or_default_metamodel": Ext("metamodel_for_file_or_default", pure=True, raises=None),
        "self.load_model": LOAD_MODEL,
    },
    ext_protect=["list(loaded_models)"],
    ensures=[
        ("every-matched-file-loaded-with-the-given-parameters",
         "n_calls('load_model') == 1 and evn('load_model', 0).args[1] == filename"
         " and evn('load_model', 0).kwargs['model_params'] == model_params"
         " and len(loaded_models) == old(len(loaded_models)) + 1 and loaded_models[-1] == evn('load_model', 0).result"),
    ],
    canary="n_calls('load_model') == 0",
)

Unit(
    "scoping.load_model_using_search_path",
    target="textx/scoping/__init__.py::GlobalModelRepository.load_model_using_search_path",
    props=["C27", "C17"],
    params={"self": "obj:GlobalModelRepository", "filename": "str", "model": "any", "search_path": "list[str]",
            "is_main_model": "any", "encoding": "any", "add_to_local_models": "any", "model_params": "any"},
    calls={
        "self.update_model_in_repo_based_on_filename": Ext("update_model_in_repo", raises=None),
        "get_metamodel": Ext("get_metamodel", pure=True, raises=None),
        "metamodel_for_file_or_default_metamodel": Ext("metamodel_for_file_or_default", pure=True, raises=None),
        "self.load_model": LOAD_MODEL,
        "os.strerror": Ext("strerror", pure=True, raises=None, returns="str"),
    },
    modifies=["*"],
    loops={"for:search_path": Loop(modifies=[], pure=True, inv=[
        "forall(lambda j: implies(0 <= j and j < _i, not path_exists(join(search_path[j], filename))))"])},
    ensures=[
        ("first-existing-candidate-loaded-with-the-given-parameters",
         "n_calls('load_model') == 1 and evn('load_model', 0).kwargs['model_params'] == model_params"
         " and result == evn('load_model', 0).result"),
        # C17: the importing model is registered in the shared repository BEFORE its import is
        # loaded - an import cycle back to it then finds it instead of parsing the file again
        ("C17-importer-registered-before-the-import-is-loaded",
         "implies(old(truthy(model)), n_calls('update_model_in_repo') == 1 and "
         "evn('update_model_in_repo', 0).args[0] == model and "
         "evpos('update_model_in_repo', 0) < evpos('load_model', 0))", "C17"),
    ],
    canary="n_calls('load_model') == 0",
)


# ownership: each definitions registry owns its dict (a parameter declared on one
# meta-model is not thereby declared on another)
Unit(
    "model_params.ModelParamDefinitions.__init__",
    target="textx/model_params.py::ModelParamDefinitions.__init__",
    props=["C27"],
    params={"self": "obj"},
    modifies=["self.*"],
    ensures=[("fresh-empty-registry", "created_here(self.store) and is_ref(self.store) and nkeys(self.store) == 0"
                                      " and forall_val(lambda k: not (k in as_dict(self.store)))")],
    canary="nkeys(self.store) == 1",
)

Unit(
    "model_params.ModelParamDefinitions.add",
    target="textx/model_params.py::ModelParamDefinitions.add",
    props=["C27"],
    params={"self": "obj:ModelParamDefinitions", "name": "any", "description": "any"},
    calls={"ModelParamDefinition": Ext("ModelParamDefinition", pure=True, raises=None, returns="any")},
    modifies=["dict(self.store)"],
    ensures=[("declares-exactly-that-parameter",
              "name in self.store and forall_val(lambda k: implies(k != name, (k in self.store) == old(k in self.store)))")],
    canary="nkeys(self.store) == 0",
)


from txvc.props import loop_key  # noqa: E402

_IMPORT_LOOP = loop_key("textx/scoping/providers.py::ImportURI._load_referenced_models", 1)

Unit(
    "providers.ImportURI._load_referenced_models.step",
    target="textx/scoping/providers.py::ImportURI._load_referenced_models",
    region="body:" + _IMPORT_LOOP,
    props=["C27", "C17"],
    params={"self": "obj", "obj": "obj", "model": "obj", "encoding": "any", "visited": "list"},
    calls={
        "self.importURI_to_scope_name": Ext("importURI_to_scope_name", protect=["model.*"]),
        "self.importURI_converter": Ext("importURI_converter", protect=["model.*"]),
        "model._tx_model_repository.load_model_using_search_path": Ext("load_model_using_search_path"),
        "model._tx_model_repository.load_models_using_filepattern": Ext("load_models_using_filepattern"),
        "dirname": Ext("dirname", pure=True, raises=None, returns="str"),
    },
    ensures=[
        ("imports-load-through-the-importing-models-repository-with-its-parameters",
         "(n_calls('load_model_using_search_path') + n_calls('load_models_using_filepattern') == 1) and "
         "implies(n_calls('load_model_using_search_path') == 1, "
         "evn('load_model_using_search_path', 0).kwargs['model_params'] == "
         "before(evn('load_model_using_search_path', 0), model._tx_model_params)"
         " and evn('load_model_using_search_path', 0).kwargs['model'] == model) and "
         "implies(n_calls('load_models_using_filepattern') == 1, "
         "evn('load_models_using_filepattern', 0).kwargs['model_params'] == "
         "before(evn('load_models_using_filepattern', 0), model._tx_model_params)"
         " and evn('load_models_using_filepattern', 0).kwargs['model'] == model)"),
    ],
    canary="n_calls('load_models_using_filepattern') == 1",
)

_GLOBAL_LOOP = loop_key("textx/scoping/providers.py::GlobalRepo._load_referenced_models", 1)

Unit(
    "providers.GlobalRepo._load_referenced_models.step",
    target="textx/scoping/providers.py::GlobalRepo._load_referenced_models",
    region="body:" + _GLOBAL_LOOP,
    props=["C27", "C17"],
    params={"self": "obj", "filename_pattern": "str", "model": "obj", "encoding": "any"},
    calls={
        "model._tx_model_repository.load_models_using_filepattern": Ext("load_models_using_filepattern"),
        "isabs": Ext("isabs", pure=True, raises=None, returns="bool"),
        "join": Ext("join", pure=True, raises=None, returns="str"),
    },
    ensures=[
        ("registered-patterns-load-with-the-models-parameters",
         "n_calls('load_models_using_filepattern') == 1 and "
         "evn('load_models_using_filepattern', 0).kwargs['model_params'] == "
         "before(evn('load_models_using_filepattern', 0), model._tx_model_params)"
         " and evn('load_models_using_filepattern', 0).kwargs['model'] == model"),
    ],
    canary="n_calls('load_models_using_filepattern') == 0",
)


# ---------------------------------------------------------------------------------------------
# native replay: model parameters through the real API (validation against the loading metamodel's own
# definitions, forwarding to the model, to imported models and to files loaded by repository)
from txvc.props import replay_for  # noqa: E402


def _params_battery():
    import os
    import shutil
    import tempfile

    from textx import metamodel_from_str
    from textx.exceptions import TextXError

    bad = []
    mm_b = metamodel_from_str("Model: 'b' items+=ID;")
    mm_a = metamodel_from_str("Model: 'a' items+=ID;")
    mm_a.model_param_defs.add("strict", "only declared for language A")
    mm_c = metamodel_from_str("Model: 'b' items+=ID;")
    m = mm_a.model_from_str("a x y", strict=True)
    if dict(m._tx_model_params) != {"strict": True}:
        bad.append(f"declared parameter not forwarded unchanged: {dict(m._tx_model_params)}")
    try:
        mm_a.model_from_str("a x", other=1)
        bad.append("an undeclared parameter was accepted by model_from_str")
    except TextXError:
        pass
    d = tempfile.mkdtemp(prefix="txvc-c27-")
    try:
        fn = os.path.join(d, "model.b")
        open(fn, "w").write("b x y")
        for name, mm in (("created before", mm_b), ("created after", mm_c)):
            if "strict" in mm.model_param_defs:
                bad.append(f"a parameter declared on one metamodel shows up in another one ({name})")
            for how, load in (("model_from_str", lambda: mm.model_from_str("b x y", strict=True)),
                              ("model_from_file", lambda: mm.model_from_file(fn, strict=True))):
                try:
                    load()
                    bad.append(f"{how} of a metamodel ({name}) that never declared 'strict' accepted it")
                except TextXError:
                    pass
        # a string load that names a file goes through the file route: parameters are checked all the same
        try:
            mm_a.model_from_str("a x", file_name=os.path.join(d, "named.a"), other=1)
            bad.append("an undeclared parameter was accepted by model_from_str(file_name=...)")
        except TextXError:
            pass
        mn = mm_a.model_from_str("a x", file_name=os.path.join(d, "named2.a"), strict=3)
        if dict(mn._tx_model_params) != {"strict": 3}:
            bad.append(f"model_from_str(file_name=...) did not forward the parameter: {dict(mn._tx_model_params)}")
        fa = os.path.join(d, "model.a")
        open(fa, "w").write("a x y")
        mf = mm_a.model_from_file(fa, strict=5)
        if dict(mf._tx_model_params) != {"strict": 5}:
            bad.append(f"model_from_file did not forward the parameter: {dict(mf._tx_model_params)}")
        if "project_root" not in mm_b.model_param_defs:
            bad.append("the built-in parameter project_root is not declared")
    finally:
        shutil.rmtree(d, ignore_errors=True)
    return bad


def _replay_params(model, rec):
    bad = _params_battery()
    if bad:
        return True, "model-parameter battery on the real code:\n  " + "\n  ".join(bad)
    return False, "model-parameter battery: parameters are validated and forwarded as stated on the battery"


for _u in ("model_params.check_params", "metamodel.model_from_file", "metamodel.model_from_str",
           "model_params.ModelParamDefinitions.__init__", "model_params.ModelParamDefinitions.add"):
    replay_for(_u)(_replay_params)
