"""C28 - model loading errors point at the offending text.  The unknown-object
error is in resolve.py, the non-unique error in c07.py, the cross-ref positions
in process_node.py; here: the syntax error and the unresolvable-references error."""

from txvc.contracts import Ext, Loop, Schema, SpecFn, Unit

from . import c05, c33, common  # noqa: F401

Schema("NoMatch", bases=("Exception",), fields={})

Unit(
    "model.TextXModelParser._parse",
    target="textx/model.py::get_model_parser.TextXModelParser._parse",
    props=["C28"],
    params={"self": "obj:TextXModelParser"},
    calls={
        "self.parser_model.parse": Ext("arpeggio.parse", raises="any",
                                       note="Arpeggio's PEG interpreter; raises NoMatch at the failing position (T-ARP)"),
        "e.eval_attrs": Ext("NoMatch.eval_attrs", raises=None, returns="none",
                            note="fills message/line/col/context of the NoMatch (T-ARP)"),
    },
    modifies=["*"],
    ensures=[("parse-tree-returned-unchanged", "result == ev(0).result")],
    raises={
        "TextXSyntaxError": [
            ("C28-syntax-error-carries-the-no-match-location",
             "implies(created_here(exc), is_instance(ev(0).exc, 'NoMatch')"
             " and exc.line == ev(0).exc.line and exc.col == ev(0).exc.col"
             " and exc.filename == ev(0).exc.parser.file_name and exc.message == ev(0).exc.message)"),
        ],
        "*": [("other-exceptions-pass-through", "implies(not created_here(exc), exc == ev(0).exc)")],
    },
    canary="result is None",
)

# Building the 'Unresolvable cross references' error.  One unit per model visited (the body
# of the error loop over `models`): a model that owns postponed references sets the location
# to its LAST one, computed by its own parser, and the file name to its own; a model without
# postponed references leaves the recorded location alone.  (The region is the whole body of
# the outer loop, so hoisting statements between the two loops stays inside the unit.)
DELAYED = "m._tx_reference_resolver.delayed_crossrefs"

Unit(
    "model.unresolvable-error.per-model",
    target="textx/model.py::parse_tree_to_objgraph",
    region="body:for:models#2",
    props=["C28", "C09"],
    params={"m": "obj", "error_text": "str", "line": "any", "col": "any", "filename": "any"},
    requires=[
        "is_instance(m._tx_reference_resolver, 'ReferenceResolver')",
        # entries of the delayed list are (obj, attr, crossref) triples (resolve_one_step appends exactly those)
        f"forall(lambda j: implies(0 <= j and j < len({DELAYED}), {DELAYED}[j] == ({DELAYED}[j][0], {DELAYED}[j][1],"
        f" {DELAYED}[j][2]) and is_instance({DELAYED}[j][2], 'ObjCrossRef') and is_str({DELAYED}[j][2].obj_name)))",
    ],
    calls={
        "m._tx_parser.pos_to_linecol": Ext("pos_to_linecol", returns="tuple", raises=None, pure=True,
                                           ensures=["result == linecol(callee, a0)"]),
        # any other run-time callable in this region can only be a parser's pos_to_linecol reached
        # through a local alias
        "*": Ext("pos_to_linecol", returns="tuple", raises=None, pure=True,
                 ensures=["result == linecol(callee, a0)"]),
    },
    loops={f"for:{DELAYED}": Loop(pure=True, inv=[
        "implies(_i == 0, line == entry_line and col == entry_col and filename == entry_filename"
        " and error_text == entry_error_text)",
        f"implies(_i > 0, (line, col) == linecol(m._tx_parser.pos_to_linecol, {DELAYED}[_i - 1][2].position)"
        " and filename == m._tx_filename)",
        "error_text.startswith(entry_error_text)",
    ])},
    ensures=[
        ("C28-location-by-the-owning-models-parser",
         f"implies(len({DELAYED}) > 0, (final_line, final_col) == "
         f"linecol(m._tx_parser.pos_to_linecol, {DELAYED}[len({DELAYED}) - 1][2].position)"
         " and final_filename == m._tx_filename)"),
        ("C28-model-without-postponed-references-leaves-the-location-alone",
         f"implies(len({DELAYED}) == 0, final_line == line and final_col == col and final_filename == filename"
         " and final_error_text == error_text)"),
        ("C09-error-text-only-grows", "final_error_text.startswith(error_text)"),
        # (that the text CONTAINS the name of every postponed reference was tried as a quantified string
        # invariant; z3 and cvc5 leave its preservation undecided, so it is not claimed - the bounded
        # battery of C09 checks the names end to end)
    ],
    canary=f"len({DELAYED}) == 0",
)

Unit(
    "model.unresolvable-error.raise",
    target="textx/model.py::parse_tree_to_objgraph",
    region="if:unresolved_count > 0",
    props=["C28", "C09"],
    params={"unresolved_count": "int", "models": "list"},
    loops={"for:models": Loop(modifies=["*"], inv=[], body_unit="model.unresolvable-error.per-model")},
    ensures=[("no-error-when-everything-resolved", "unresolved_count <= 0")],
    raises={"TextXSemanticError": [
        ("C28-error-carries-the-recorded-location",
         "implies(created_here(exc), unresolved_count > 0 and exc.line == final_line and exc.col == final_col"
         " and exc.filename == final_filename and exc.message == final_error_text)")]},
    canary="unresolved_count > 0",
)


# --------------------------------------------------------------------------
# native replay: 'Unresolvable cross references' through the public API, the
# never-resolvable reference placed in each file of a three-file load in turn
# --------------------------------------------------------------------------
from txvc.props import replay_for  # noqa: E402


@replay_for("model.unresolvable-error.per-model")
@replay_for("model.unresolvable-error.raise")
def _replay_unresolvable(model, rec):
    import os
    import shutil
    import tempfile

    from textx import metamodel_from_str
    from textx.exceptions import TextXSemanticError
    from textx.scoping import Postponed
    from textx.scoping.providers import FQNImportURI

    grammar = ("Model: imports*=Import items*=Item uses*=Use; Import: 'import' importURI=STRING;"
               " Item: 'item' name=ID; Use: 'use' ref=[Item];")

    def make():
        fqn = FQNImportURI()

        def use_ref(obj, attr, obj_ref):
            found = fqn(obj, attr, obj_ref)
            if found is None and obj_ref.obj_name.startswith("ghost"):
                return Postponed()
            return found

        mm = metamodel_from_str(grammar)
        mm.register_scope_providers({"*.*": fqn, "Use.ref": use_ref})
        return mm

    files = {"main.m": 'import "a.m"\nimport "b.m"\nitem m\nuse x\n', "a.m": "item x\nuse x\n", "b.m": "item y\n\nuse y\n"}
    bad = []
    d = tempfile.mkdtemp(prefix="txvc-c28-")
    try:
        for victim in files:
            texts = dict(files)
            texts[victim] += "\n\n    use ghost1\n"
            for fn, t in texts.items():
                with open(os.path.join(d, fn), "w") as f:
                    f.write(t)
            t = texts[victim]
            pos = t.index("ghost1")
            want = (os.path.join(d, victim), t.count("\n", 0, pos) + 1, pos - t.rfind("\n", 0, pos))
            try:
                make().model_from_file(os.path.join(d, "main.m"))
                bad.append(f"ghost in {victim}: no error")
            except TextXSemanticError as e:
                got = (e.filename, e.line, e.col)
                if got != want:
                    bad.append(f"never-resolvable reference is in {victim} at line {want[1]} col {want[2]}; "
                               f"the error names {os.path.basename(str(e.filename))} {e.line}:{e.col}")
        try:
            make().model_from_str("item q\n use ghost2")
        except TextXSemanticError as e:
            if (e.filename, e.line, e.col) != (None, 2, 6):
                bad.append(f"string model: error at {(e.filename, e.line, e.col)}, expected (None, 2, 6)")
    finally:
        shutil.rmtree(d, ignore_errors=True)
    return bool(bad), "; ".join(bad) or "unresolvable-reference errors name the owning file and position"
