"""C28 - model loading errors point at the offending text.  The unknown-object
error is in resolve.py, the non-unique error in c07.py, the cross-ref positions
in process_node.py; here: the syntax error and the unresolvable-references error."""

from txvc.contracts import Ext, Loop, Schema, SpecFn, Unit

from . import c05, c33, common  # noqa: F401

Schema("NoMatch", bases=("Exception",), fields={})

Unit(
    "model.TextXModelParser._parse",
    target="textx/model.py::get_model_parser.TextXModelParser._parse",
    props=["C28"],
    params={"self": "obj:TextXModelParser"},
    calls={
        "self.parser_model.parse": Ext("arpeggio.parse", raises="any",
                                       note="Arpeggio's PEG interpreter; raises NoMatch at the failing position (T-ARP)"),
        "e.eval_attrs": Ext("NoMatch.eval_attrs", raises=None, returns="none",
                            note="fills message/line/col/context of the NoMatch (T-ARP)"),
    },
    modifies=["*"],
    ensures=[("parse-tree-returned-unchanged", "result == ev(0).result")],
    raises={
        "TextXSyntaxError": [
            ("C28-syntax-error-carries-the-no-match-location",
             "implies(created_here(exc), is_instance(ev(0).exc, 'NoMatch')"
             " and exc.line == ev(0).exc.line and exc.col == ev(0).exc.col"
             " and exc.filename == ev(0).exc.parser.file_name and exc.message == ev(0).exc.message)"),
        ],
        "*": [("other-exceptions-pass-through", "implies(not created_here(exc), exc == ev(0).exc)")],
    },
    canary="result is None",
)

# the inner step of building the 'Unresolvable cross references' error: the location
# recorded for a postponed reference is computed by the parser of the model that owns it
Unit(
    "model.unresolvable-error.step",
    target="textx/model.py::parse_tree_to_objgraph",
    region="body:for:m._tx_reference_resolver.delayed_crossrefs",
    props=["C28", "C09"],
    params={"m": "obj", "delayed": "obj:ObjCrossRef", "error_text": "str"},
    calls={
        "m._tx_parser.pos_to_linecol": Ext("pos_to_linecol", returns="tuple", raises=None, pure=True,
                                           ensures=["result == linecol(callee, a0)"]),
    },
    ensures=[
        ("C28-location-by-the-owning-models-parser",
         "(final_line, final_col) == linecol(m._tx_parser.pos_to_linecol, delayed.position)"
         " and final_filename == m._tx_filename"),
        ("C09-error-text-names-the-reference",
         "final_error_text.startswith(error_text) and str(delayed.obj_name) in final_error_text"),
    ],
    canary="final_filename is None",
)

Unit(
    "model.unresolvable-error.raise",
    target="textx/model.py::parse_tree_to_objgraph",
    region="if:unresolved_count > 0",
    props=["C28", "C09"],
    params={"unresolved_count": "int", "models": "list"},
    loops={"for:models": Loop(modifies=["*"], inv=[], body_unit="model.unresolvable-error.step")},
    ensures=[("no-error-when-everything-resolved", "unresolved_count <= 0")],
    raises={"TextXSemanticError": [
        ("C28-error-carries-the-recorded-location",
         "implies(created_here(exc), unresolved_count > 0 and exc.line == final_line and exc.col == final_col"
         " and exc.filename == final_filename and exc.message == final_error_text)")]},
    canary="unresolved_count > 0",
)
