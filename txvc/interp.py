"""Interp = Run + all mixins; unit set-up, obligation solving, exploration."""

from __future__ import annotations

import ast
import os
import time
import traceback

import z3

from . import core
from .contracts import BY_TARGET, REGISTRY, SCHEMAS, named
from .core import CLASSES, NIL, NONE, Val, cls_of, fresh, mk_ref, subclass
from .interp_builtins import BuiltinMixin
from .interp_call import CallMixin
from .interp_expr import ExprMixin
from .interp_loop import LoopMixin
from .interp_stmt import StmtMixin
from .spec import SpecMixin
from .symex import (
    TV, BreakSig, ContinueSig, Frame, Obligation, PathEnd, PyClass, PyFunc, PyRaise,
    ReturnSig, Run, Unsupported, const_tv, py, tv_none,
)
from .world import strip_docstring


class Interp(Run, StmtMixin, ExprMixin, CallMixin, BuiltinMixin, LoopMixin, SpecMixin):
    def __init__(self, world, unit, script, opts):
        Run.__init__(self, world, unit, script, opts)
        # classes that have a schema are known classes (declared base-first)
        pending = [s for s in SCHEMAS.values() if s.name != "*" and s.name not in CLASSES.by_name]
        for _ in range(len(pending) + 1):
            for s in list(pending):
                if all(b in CLASSES.by_name or b not in SCHEMAS for b in s.bases):
                    CLASSES.declare(s.name, s.bases)
                    pending.remove(s)
        self.exact_class = {}
        self.elem_hints = {}
        self.key_hints = {}
        self.ctor_args = {}
        self.spec_side = None
        self.cur_frame = None
        self.root_frame = None
        self.bounded_used = False
        self.iter_trace_mark = 0
        self.cur_line = 0
        self.outcome = None

    # spec-mode switches ------------------------------------------------
    def ex_IfExp(self, n, frame):
        if self.in_spec:
            return self.spec_ifexp(n, frame)
        return ExprMixin.ex_IfExp(self, n, frame)

    def ex_BoolOp(self, n, frame):
        if self.in_spec:
            return self.spec_boolop(n, frame)
        return ExprMixin.ex_BoolOp(self, n, frame)

    def ex_Call(self, n, frame):
        if self.in_spec:
            r = self.spec_call(n, frame)
            if r is not None:
                return r
        saved = self.cur_frame
        self.cur_frame = frame
        try:
            return CallMixin.ex_Call(self, n, frame)
        finally:
            self.cur_frame = saved

    def get_attr(self, obj, name, n=None, frame=None):
        if obj.k == "py" and isinstance(obj.r, tuple) and obj.r and obj.r[0] == "event":
            ev = obj.r[1]
            if name == "name":
                return TV("str", z3.StringVal(ev.get("name", "?")))
            if name == "star":
                v = ev.get("star")
                return TV("val", v, "dict") if v is not None else tv_none()
            if name == "kwargs":
                return py({k: TV("val", v) for k, v in ev.get("kwargs", {}).items() if v is not None}, "cdict")
            if name in ("result", "exc", "callee"):
                v = ev.get(name)
                if v is None:
                    return tv_none()
                return TV("val", v, "obj" if name == "exc" else None)
            if name == "args":
                return py([TV("val", a) if a is not None else tv_none() for a in ev["args"]], "ctuple") \
                    if isinstance(ev["args"], list) else py(ev["args"], "cdict")
            if name == "raised":
                return TV("bool", z3.BoolVal("exc" in ev))
            raise Unsupported("event attribute " + name)
        return ExprMixin.get_attr(self, obj, name, n, frame)

    # shapes carry their address ---------------------------------------
    def new_list(self, items):
        tv = Run.new_list(self, items)
        a = self.as_addr(tv)
        self.shape[str(z3.simplify(a))] = ("list", list(items), a)
        return tv

    def ex_Dict(self, n, frame):
        pairs = []
        for k, v in zip(n.keys, n.values):
            if k is None:
                raise Unsupported("dict ** display")
            pairs.append((self.eval(k, frame), self.eval(v, frame)))
        d = self.new_dict(pairs)
        a = self.as_addr(d)
        self.shape[str(z3.simplify(a))] = ("dict", list(pairs), a)
        return d

    def invalidate_shapes(self, cond):
        for k in list(self.shape):
            sh = self.shape[k]
            fld = "lelem" if sh[0] == "list" else "dhas"
            c = cond(fld, (sh[2],))
            if c is None or not z3.is_true(z3.simplify(c)):
                del self.shape[k]

    def dict_set(self, d, k, v):
        Run.dict_set(self, d, k, v)
        key = str(z3.simplify(self.as_addr(d)))
        sh = self.shape.get(key)
        if sh is not None and sh[0] == "dict":
            ks = z3.simplify(self.to_val(k))
            concrete = all(z3.is_string_value(z3.simplify(self.as_str(x))) if self.tag(x) == "str" else False
                           for x, _ in sh[1]) and self.tag(k) == "str" and z3.is_string_value(z3.simplify(self.as_str(k)))
            if concrete:
                new = [(x, y) for x, y in sh[1]
                       if z3.simplify(self.as_str(x)).as_string() != z3.simplify(self.as_str(k)).as_string()]
                new.append((k, v))
                self.shape[key] = ("dict", new, sh[2])
            else:
                del self.shape[key]

    # ------------------------------------------------------------ solving
    def solve(self, ob):
        if ob.kind == "CANARY":
            # a canary only has to be NOT provable: short budget, no fallbacks
            s = self.solver(2000)
            s.add(z3.Not(ob.goal))
            t0 = time.time()
            r = s.check()
            ob.time = time.time() - t0
            self.solver_time += ob.time
            ob.result = "proved" if r == z3.unsat else ("refuted" if r == z3.sat else "unknown")
            return ob
        s = self.solver(self.opts.get("timeout_ms", 10000))
        s.add(z3.Not(ob.goal))
        t0 = time.time()
        r = s.check()
        ob.time = time.time() - t0
        self.solver_time += ob.time
        if r == z3.unsat:
            ob.result = "proved"
        elif r == z3.sat:
            ob.result = "refuted"
            ob.model = self.extract_model(s.model())
            self._last_model = s.model()
        else:
            ob.result = "unknown"
            ob.reason = s.reason_unknown()
            if self.opts.get("cvc5", True):
                from .solve import cvc5_check

                r2 = cvc5_check(s, self.opts.get("timeout_ms", 10000))
                if r2 == "unsat":
                    ob.result = "proved"
                    ob.reason = "cvc5"
            if ob.result == "unknown":
                # quantified assumptions (list shifts, membership) often make z3
                # answer `unknown` on satisfiable queries.  Retry on the
                # quantifier-free part of the path condition: unsat there is
                # still a proof; sat there is only a CANDIDATE counterexample
                # (weak), which counts as a violation only if it replays natively.
                from .qinst import solve_by_instantiation

                try:
                    r3, m3 = solve_by_instantiation(self.class_axioms(), self.pc, ob.goal,
                                                    self.opts.get("timeout_ms", 10000))
                except z3.Z3Exception as e:  # pragma: no cover
                    r3, m3 = "unknown", None
                    ob.reason += f" / qinst: {e}"
                if r3 == "unsat":
                    ob.result = "proved"
                    ob.reason = "ground instantiation"
                elif r3 == "sat":
                    ob.result = "refuted"
                    ob.reason = "weak: counter-model of a ground instantiation of the quantified facts"
                    ob.model = self.extract_model(m3)
                    self._last_model = m3
                    ob.model["__weak__"] = True
                    ob.model["__skolems__"] = skolem_values(m3)
                else:
                    # last resort: the quantifier-free part of the path condition alone.
                    # sat is only a candidate (weak); it becomes a violation only if the
                    # unit's native replay reproduces a failure of the property.
                    from .qinst import _skolemize_neg

                    try:
                        neg, _sks = _skolemize_neg(ob.goal)
                        s4 = z3.Solver()
                        s4.set("timeout", self.opts.get("timeout_ms", 10000))
                        for a in self.class_axioms():
                            s4.add(a)
                        for p in self.pc:
                            if not has_quantifier(p):
                                s4.add(p)
                        if not has_quantifier(neg):
                            s4.add(neg)
                            if s4.check() == z3.sat:
                                ob.result = "refuted"
                                ob.reason = "weak: counter-model of the quantifier-free part of the path condition"
                                ob.model = self.extract_model(s4.model())
                                ob.model["__weak__"] = True
                    except z3.Z3Exception:
                        pass
        return ob

    def extract_model(self, m):
        out = {}
        if self.root_frame is None:
            return out
        for name, tv in list(self.entry_params.items()):
            try:
                if tv.k == "py":
                    continue
                v = m.eval(self.to_val(tv), model_completion=True)
                out[name] = model_value(v)
                if tv.hint == "dict":
                    a = Val.a(tv.r)
                    h0 = self.entry_heap
                    ln = m.eval(z3.Select(h0.cur["dklen"], a), model_completion=True)
                    if z3.is_int_value(ln) and 0 <= ln.as_long() <= 8:
                        krow = z3.Select(h0.cur["dkey"], a)
                        vrow = z3.Select(h0.cur["dval"], a)
                        items = []
                        for i in range(ln.as_long()):
                            k = m.eval(z3.Select(krow, i), model_completion=True)
                            items.append([model_value(k),
                                          model_value(m.eval(z3.Select(vrow, k), model_completion=True))])
                        out[name] = {"dict": items}
                if tv.hint == "list":
                    # contents of a list parameter in the pre-state
                    a = Val.a(tv.r)
                    h0 = self.entry_heap
                    ln = m.eval(z3.Select(h0.cur["llen"], a), model_completion=True)
                    if z3.is_int_value(ln) and 0 <= ln.as_long() <= 8:
                        row = z3.Select(h0.cur["lelem"], a)
                        out[name] = {"list": [model_value(m.eval(z3.Select(row, i), model_completion=True))
                                              for i in range(ln.as_long())]}
            except Exception as e:  # pragma: no cover
                out[name] = f"<{e}>"
        env = getattr(self, "last_post_env", None)
        if env is not None and self.unit is not None:
            # extra witness values the unit's replay driver asks for
            for nm, text in (self.unit.ghost.get("model_exprs") or {}).items():
                try:
                    from .spec import SpecEval

                    tv = SpecEval(self, env, self.entry_heap, self.heap, {}).expr(text)
                    out[nm] = model_value(m.eval(self.to_val(tv), model_completion=True))
                except Exception as e:  # noqa: BLE001
                    out[nm] = f"<unavailable: {type(e).__name__}>"
        out["__path__"] = [f"{l}={d}" for l, d in self.branch_log]
        self.last_z3_model = m
        return out

    # ------------------------------------------------------------- set-up
    def sym_param(self, name, t):
        v = fresh("p_" + name, Val)
        hint = t if t and "|" not in t and t != "any" else None
        if hint and "[" in hint:
            self.elem_hints[str(v)] = hint[hint.index("[") + 1:-1]
            hint = hint[: hint.index("[")]
        tv = TV("val", v, hint)
        self.assume(z3.Implies(Val.is_ref(v), Val.a(v) < self.A0))
        if t and t != "any":
            self.assume(self.type_fact(v, t))
            self.schema_facts(tv, t)
        return tv

    def schema_facts(self, tv, t):
        """is_valid() of a parameter of a class with a Schema"""
        if not t.startswith("obj:") or "|" in t:
            return
        sch = SCHEMAS.get(t[4:])
        a = Val.a(tv.r)
        seen = set()
        while sch is not None and sch.name not in seen:
            seen.add(sch.name)
            for fname, ft in sch.fields.items():
                nm = z3.StringVal(fname)
                if ft.endswith("?"):
                    continue
                self.assume(self.obj_has(a, nm))
                fv = self.hread("fld", (a, nm))
                self.assume(z3.Implies(Val.is_ref(fv), Val.a(fv) < self.A0))
                if ft != "any":
                    self.assume(self.type_fact(fv, ft))
            nxt = None
            for b in sch.bases:
                if b in SCHEMAS:
                    nxt = SCHEMAS[b]
            sch = nxt

    def execute(self):
        unit = self.unit
        mi, node, chain = self.world.locate(unit.target)
        self.mi = mi
        qual = unit.target.split("::")[1]
        root = Frame()
        pf = PyFunc(node, None, mi, qual)
        for c in chain:
            if isinstance(c, ast.ClassDef):
                pf.cls = c.name
        root.func = pf
        self.root_func = pf
        self.root_frame = root
        self.entry_params = {}
        for cname, ct in unit.captured.items():
            root.vars[cname] = self.sym_param(cname, ct)
            self.entry_params[cname] = root.vars[cname]
        fr = Frame(parent=root, func=pf)
        if isinstance(node, ast.FunctionDef) and "." in qual and getattr(unit, "region", None) is None:
            # a nested function sees its own name (bound in the enclosing function): recursion
            # goes through the unit's own contract
            root.vars.setdefault(node.name, py(pf, "func"))
        region = getattr(unit, "region", None)
        region_node = None
        if region is not None:
            # the unit is a statement region of the function (a loop or its
            # body); its parameters are the live-in variables the contract names
            rkind, _, rkey = region.partition(":")
            want = 0
            if "#" in rkey:  # '<key>#k': the k-th region with that key (source order)
                rkey, _, k = rkey.rpartition("#")
                want = int(k)
            matches = []
            for nd in ast.walk(node):
                if (isinstance(nd, ast.For) and "for:" + ast.unparse(nd.iter) == rkey) or \
                        (isinstance(nd, ast.While) and "while:" + ast.unparse(nd.test) == rkey) or \
                        (isinstance(nd, ast.Assign) and rkind == "assign" and ast.unparse(nd.targets[0]) == rkey) or \
                        (isinstance(nd, ast.If) and rkind == "if" and (
                            ast.unparse(nd.test) == rkey
                            or (rkey.endswith("*") and ast.unparse(nd.test).startswith(rkey[:-1])))):
                    matches.append(nd)
            matches.sort(key=lambda x: (x.lineno, x.col_offset))
            if want and len(matches) >= want:
                region_node = matches[want - 1]
            for nd in (ast.walk(node) if not want else ()):
                if isinstance(nd, ast.For) and "for:" + ast.unparse(nd.iter) == rkey:
                    region_node = nd
                elif isinstance(nd, ast.While) and "while:" + ast.unparse(nd.test) == rkey:
                    region_node = nd
                elif isinstance(nd, ast.Assign) and rkind == "assign" and ast.unparse(nd.targets[0]) == rkey:
                    region_node = nd
                elif isinstance(nd, ast.If) and rkind == "if" and (
                        ast.unparse(nd.test) == rkey
                        or (rkey.endswith("*") and ast.unparse(nd.test).startswith(rkey[:-1]))):
                    region_node = nd
            if region_node is None:
                raise LookupError(f"region {region} not found in {unit.target}")
            pnames = list(unit.params)
        elif isinstance(node, ast.Lambda):
            pnames = [a.arg for a in node.args.args]
        else:
            a = node.args
            pnames = [x.arg for x in a.posonlyargs + a.args + a.kwonlyargs]
            if a.vararg:
                pnames.append(a.vararg.arg)
            if a.kwarg:
                pnames.append(a.kwarg.arg)
        for p in pnames:
            t = unit.params.get(p, "any")
            if not isinstance(node, ast.Lambda) and node.args.kwarg and p == node.args.kwarg.arg and t == "any":
                t = "dict"
            fr.vars[p] = self.sym_param(p, t)
            self.entry_params[p] = fr.vars[p]
        for gname, gt in (unit.locals or {}).items():
            if gname.startswith("global:"):
                pass
        if pf.cls is not None:
            fr.vars["__class__"] = py(self.pyclass(pf.cls), "class")
        env = self.loop_env(fr)
        self.entry_env = env
        self.assume_clauses(unit.requires, env, old_heap=self.entry_heap)
        if not self.feasible():
            raise PathEnd("precondition unsatisfiable")
        self.cur_frame = fr
        try:
            if region_node is not None:
                val = tv_none()
                # nested function definitions of the enclosing function are visible in the region
                skip = set()
                for nd in ast.walk(node):
                    if isinstance(nd, (ast.FunctionDef, ast.Lambda)) and nd is not node:
                        for sub in ast.walk(nd):
                            if sub is not nd and isinstance(sub, ast.FunctionDef):
                                skip.add(id(sub))
                for nd in ast.walk(node):
                    if isinstance(nd, ast.FunctionDef) and nd is not node and id(nd) not in skip \
                            and nd.name not in fr.vars:
                        fr.vars[nd.name] = py(PyFunc(nd, fr, mi, qual + "." + nd.name), "func")
                # the function itself and the functions defined next to it in the
                # enclosing function(s) are visible too (closures of the same scope)
                segs = qual.split(".")
                for depth, encl in enumerate(chain):
                    if not isinstance(encl, ast.FunctionDef):
                        continue
                    prefix = ".".join(segs[: depth])
                    for st in ast.walk(encl):
                        if isinstance(st, ast.FunctionDef) and st is not encl and st.name not in fr.vars:
                            direct = any(st is b for b in ast.walk(encl)
                                         if isinstance(b, ast.FunctionDef)) and st in _direct_defs(encl)
                            if direct:
                                fr.vars[st.name] = py(PyFunc(st, fr, mi, (prefix + "." if prefix else "") + st.name),
                                                      "func")
                try:
                    if rkind == "body":
                        if isinstance(region_node, ast.While):
                            c = self.eval(region_node.test, fr)
                            self.assume(self.truthy(c))
                            if not self.feasible():
                                raise PathEnd("loop test unsatisfiable")
                        try:
                            self.exec_block(region_node.body, fr)
                        except (BreakSig, ContinueSig):
                            pass
                    else:
                        self.exec_stmt(region_node, fr)
                except ReturnSig as r:
                    val = r.value
                self.final_frame = fr
            elif isinstance(node, ast.Lambda):
                val = self.eval(node.body, fr)
            else:
                try:
                    self.exec_block(strip_docstring(node.body), fr)
                    val = tv_none()
                except ReturnSig as r:
                    val = r.value
            self.outcome = ("ret", val)
        except PyRaise as pr:
            self.outcome = ("exc", pr)
        self.post_obligations(fr)

    def protect_obligation(self):
        """FRAME for a unit that may modify anything except `protects`: each
        protected location is unchanged at exit (one arbitrary index per array)."""
        from .heap import sel

        unit = self.unit
        locs = []
        h0, h1 = self.entry_heap, self.heap
        saved_next = self.next_addr
        self.heap = h0  # the protected locations are named in the entry state
        self.next_addr = self.A0
        try:
            for m in unit.protects:
                locs.extend(self.eval_locs(m, env=dict(self.entry_env)))
        finally:
            self.heap = h1
            self.next_addr = saved_next
        a = fresh("pr_a", core.IntS)
        for field, sort in core.HEAP_FIELDS.items():
            if h0.cur[field].get_id() == h1.cur[field].get_id():
                continue
            idx = (a, fresh("pr_k", sort.range().domain())) if field in core.NESTED else (a,)
            cs = [c for c in (self.loc_match(p, field, idx) for p in locs) if c is not None]
            if not cs:
                continue
            facts = []
            v1 = h1.read(field, idx, facts)
            v0 = h0.read(field, idx, facts)
            goal = z3.Implies(z3.And(z3.Or(*cs), *facts), v1 == v0)
            self.oblige("FRAME", f"protects.{field}", goal, f"{unit.protects} unchanged ({field})", None,
                        where="exit")

    def frame_obligation(self, env):
        """FRAME: every location that existed at entry and is not listed in
        `modifies` is unchanged (skolemised: one arbitrary location per array)."""
        unit = self.unit
        mods = []
        for m in (unit.modifies or []):
            mods.extend(self.eval_locs(m, env=dict(self.entry_env)))
        from .heap import sel

        h0, h1 = self.entry_heap, self.heap
        a = fresh("fr_a", core.IntS)
        for field, sort in core.HEAP_FIELDS.items():
            if h0.cur[field].get_id() == h1.cur[field].get_id():
                continue  # syntactically untouched
            if field in core.NESTED:
                k = fresh("fr_k", sort.range().domain())
                idx = (a, k)
            else:
                idx = (a,)
            facts = []
            v1 = h1.read(field, idx, facts)
            v0 = h0.read(field, idx, facts)
            cs = []
            for p in mods:
                c = self.loc_match(p, field, idx)
                if c is not None:
                    cs.append(c)
            pre = z3.And(a >= 0, a < self.A0, *([z3.Not(z3.Or(*cs))] if cs else []))
            goal = z3.Implies(z3.And(pre, *facts), v1 == v0)
            self.oblige("FRAME", f"{field}", goal,
                        f"only {unit.modifies or 'nothing'} is modified ({field})", None, where="exit")

    def post_obligations(self, fr):
        unit = self.unit
        env = dict(self.entry_env)
        for k, v in fr.vars.items():
            env["final_" + k] = v  # value of a local / parameter at exit
            if getattr(unit, "region", None):
                env.setdefault(k, v)
        kind, payload = self.outcome
        if not self.feasible():
            # assumptions made after the last branch contradict the path: nothing to prove
            raise PathEnd("path condition became inconsistent")
        self.last_post_env = dict(env)
        if kind == "ret":
            self.last_post_env["result"] = payload
        else:
            self.last_post_env["exc"] = payload.exc
        if not (kind == "exc" and payload.implicit and not unit.wd):
            self.check_preserved(unit.preserves, self.entry_heap.ver, "FRAME", "unit")
            if (not getattr(unit, "region", None) or unit.modifies is not None) and unit.modifies != ["*"] \
                    and not unit.ghost.get("no_frame_check"):
                # (a region unit that declares `modifies` gets the FRAME obligation too: its callers
                # - loops and enclosing units that use it by contract - rely on that frame)
                self.frame_obligation(env)
            elif unit.protects:
                self.protect_obligation()
        if kind == "ret":
            env["result"] = payload
            for i, cl in enumerate(unit.ensures):
                lab, text, prop = named(cl)
                only = self.opts.get("prop")
                if only is not None and prop is not None and only not in prop.split("|"):
                    continue
                t, side = self.spec(text, env)
                self.assume_all(side)
                self.oblige("POST", lab or str(i), t, text, prop, where="return")
            if unit.canary:
                t, side = self.spec(unit.canary, env)
                self.assume_all(side)
                ob = Obligation(unit.name, "CANARY", "canary", unit.props[0], list(self.pc), t,
                                list(self.branch_log), text=unit.canary)
                self.solve(ob)
                self.obligs.append(ob)
        else:
            pr = payload
            env["exc"] = pr.exc
            if pr.implicit and not unit.wd:
                return
            a = self.as_addr(pr.exc)
            c = cls_of(a)
            self.note_class_term(c)
            matched_any = []
            for k, clauses in unit.raises.items():
                if k == "*":
                    cond = z3.BoolVal(True)
                else:
                    if k not in CLASSES.by_name:
                        CLASSES.declare(k, ("Exception",))
                    if pr.known_cls is not None:
                        cond = z3.BoolVal(CLASSES.is_sub(pr.known_cls, k))
                    else:
                        cond = subclass(c, CLASSES.addr(k))
                if z3.is_false(z3.simplify(cond)):
                    continue
                matched_any.append(cond)
                for i, cl in enumerate(clauses):
                    lab, text, prop = named(cl)
                    only = self.opts.get("prop")
                    if only is not None and prop is not None and only not in prop.split("|"):
                        continue
                    t, side = self.spec(text, env)
                    self.assume_all(side)
                    ob = Obligation(unit.name, "EXC", f"{k}.{lab or i}", prop,
                                    list(self.pc), z3.Implies(cond, t), list(self.branch_log),
                                    text=text, where=f"raise ({pr.origin})")
                    self.solve(ob)
                    self.obligs.append(ob)
            if unit.allowed_exc is not None:
                names = list(unit.allowed_exc)
                for nm in names:
                    if nm not in CLASSES.by_name:
                        CLASSES.declare(nm, ("Exception",))
                if pr.known_cls is not None:
                    goal = z3.BoolVal(any(CLASSES.is_sub(pr.known_cls, nm) for nm in names))
                else:
                    goal = z3.Or(*[subclass(c, CLASSES.addr(nm)) for nm in names]) if names else z3.BoolVal(False)
                ob = Obligation(unit.name, "WD", "allowed-exceptions", None, list(self.pc),
                                goal, list(self.branch_log),
                                text=f"raises only {names}", where=f"raise ({pr.origin})")
                self.solve(ob)
                self.obligs.append(ob)


def _direct_defs(fn):
    """FunctionDefs defined directly in fn's body (not inside nested defs)"""
    out = []
    stack = list(fn.body)
    while stack:
        st = stack.pop()
        if isinstance(st, ast.FunctionDef):
            out.append(st)
            continue
        if isinstance(st, ast.ClassDef):
            continue
        for fld in ("body", "orelse", "finalbody"):
            stack.extend(getattr(st, fld, []) or [])
        for h in getattr(st, "handlers", []) or []:
            stack.extend(h.body)
    return out


def skolem_values(m):
    out = {}
    for d in m.decls():
        nm = d.name()
        if d.arity() == 0 and (nm.startswith("sk!") or nm.startswith("sk")):
            try:
                out[nm] = str(m[d])
            except Exception:
                pass
    return out


def has_quantifier(t):
    seen = set()
    stack = [t]
    while stack:
        x = stack.pop()
        i = x.get_id()
        if i in seen:
            continue
        seen.add(i)
        if z3.is_quantifier(x):
            return True
        stack.extend(x.children())
    return False


def model_value(v):
    v = z3.simplify(v)
    if not z3.is_app(v):
        return str(v)
    n = v.decl().name()
    if n == "none":
        return None
    if n == "bool":
        return z3.is_true(v.arg(0))
    if n == "int":
        return v.arg(0).as_long() if z3.is_int_value(v.arg(0)) else str(v.arg(0))
    if n == "str":
        return v.arg(0).as_string() if z3.is_string_value(v.arg(0)) else str(v.arg(0))
    if n == "ref":
        return {"ref": v.arg(0).as_long() if z3.is_int_value(v.arg(0)) else str(v.arg(0))}
    if n == "nil":
        return []
    if n == "cons":
        tl = model_value(v.arg(1))
        return [model_value(v.arg(0))] + (tl if isinstance(tl, list) else [tl])
    return str(v)


class UnitResult:
    def __init__(self, unit):
        self.unit = unit
        self.obligs = []
        self.paths = 0
        self.ended = 0
        self.errors = []
        self.solver_time = 0.0
        self.wall = 0.0
        self.bounded = False
        self.outcomes = {"ret": 0, "exc": 0}
        self.source_hash = ""


def verify_unit(world, unit, opts, start=None, split=None):
    """Explore all paths of the unit.  `start`: script prefixes to explore
    (default: the empty script = everything); `split`: stop as soon as that
    many unexplored prefixes are pending and return them in res.remaining
    (used to spread one big unit over worker processes)."""
    res = UnitResult(unit)
    t0 = time.time()
    if unit.ghost.get("opts"):
        # per-unit solver budgets stated in the contract (e.g. a longer feasibility budget for a unit whose
        # path conditions carry quantified relations)
        opts = dict(opts)
        opts.update(unit.ghost["opts"])
    try:
        mi, node, _ = world.locate(unit.target)
        res.source_hash = world.source_hash(node, mi)
    except LookupError as e:
        res.errors.append(("locate", str(e)))
        res.wall = time.time() - t0
        return res
    work = [list(s) for s in (start or [[]])]
    res.remaining = []
    max_paths = opts.get("max_paths", 4000)
    while work:
        if split is not None and len(work) >= split:
            res.remaining = work
            break
        script = work.pop(0) if split is not None else work.pop()
        if res.paths + res.ended >= max_paths:
            res.errors.append(("limit", f"more than {max_paths} paths"))
            break
        run = Interp(world, unit, script, opts)
        try:
            run.execute()
            res.paths += 1
            res.outcomes[run.outcome[0]] += 1
        except PathEnd:
            res.ended += 1
        except Unsupported as e:
            res.errors.append(("unsupported", str(e) + (("\n" + traceback.format_exc(limit=14))
                                                       if os.environ.get("TXVC_DEBUG_TRACE") else "")))
        except (BreakSig, ContinueSig) as e:
            res.errors.append(("internal", "stray loop signal"))
        except RecursionError:
            res.errors.append(("internal", "recursion limit in interpreter"))
        except z3.Z3Exception as e:
            res.errors.append(("z3", str(e) + "\n" + traceback.format_exc(limit=6)))
        except Exception as e:  # engine bug: never a verdict
            res.errors.append(("internal", f"{type(e).__name__}: {e}\n" + traceback.format_exc(limit=8)))
        res.obligs.extend(run.obligs)
        res.solver_time += run.solver_time
        res.bounded = res.bounded or run.bounded_used
        work.extend(run.pending)
        if res.errors and not opts.get("keep_going", False):
            break
    res.wall = time.time() - t0
    return res
