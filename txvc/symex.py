"""
txvc symbolic executor: path-wise execution of REAL function bodies (ast) over
the heap model of core/heap, calls replaced by contracts, loops by invariants.

One `Run` executes ONE path; branching is driven by a decision script
(re-execution based exploration), which keeps the interpreter a plain
recursive evaluator.  `explore_unit` enumerates all scripts.
"""

from __future__ import annotations

import ast
import time

import z3

from . import core
from .contracts import BY_TARGET, REGISTRY, SCHEMAS, SPECFNS, Ext, Loop, named
from .core import CLASSES, NIL, NONE, Val, cls_of, fresh, mk_bool, mk_int, mk_ref, mk_str, subclass
from .heap import Heap
from .world import strip_docstring


# --------------------------------------------------------------------------
# signals
# --------------------------------------------------------------------------
class PyRaise(Exception):
    def __init__(self, exc_tv, known_cls=None, origin=None, implicit=False):
        self.exc = exc_tv
        self.known_cls = known_cls
        self.origin = origin
        self.implicit = implicit


class ReturnSig(Exception):
    def __init__(self, value):
        self.value = value


class BreakSig(Exception):
    pass


class ContinueSig(Exception):
    pass


class PathEnd(Exception):
    """This path ends here (infeasible, or finished inside a loop body)."""

    def __init__(self, reason=""):
        self.reason = reason


class Unsupported(Exception):
    pass


# --------------------------------------------------------------------------
# typed values
# --------------------------------------------------------------------------
class TV:
    __slots__ = ("k", "r", "hint", "opt", "full", "elem")

    def __init__(self, k, r, hint=None):
        self.k = k  # 'val' | 'int' | 'bool' | 'str' | 'py'
        self.r = r
        self.elem = None
        if hint and "[" in hint:
            # 'list[T]|none': element / value type T, container type 'list|none'
            i, j = hint.index("["), hint.rindex("]")
            self.elem = hint[i + 1:j]
            hint = hint[:i] + hint[j + 1:]
        # hint: what the value is when it is not None; opt: it may also be None;
        # full: the declared type (used for the type fact)
        self.full = hint
        self.opt = False
        if hint and "|" in hint:
            alts = [x.strip() for x in hint.split("|")]
            rest = [x for x in alts if x != "none"]
            self.opt = "none" in alts
            hint = rest[0] if len(rest) == 1 else None
        self.hint = hint

    def __repr__(self):
        return f"TV({self.k},{self.r},{self.hint})"


class PyFunc:
    def __init__(self, node, frame, mi, qual, bound_self=None, cls=None):
        self.node = node
        self.frame = frame
        self.mi = mi
        self.qual = qual
        self.bound_self = bound_self
        self.cls = cls
        self.addr = None


class PyClass:
    def __init__(self, name, mi=None, node=None):
        self.name = name
        self.mi = mi
        self.node = node

    def addr(self):
        return CLASSES.addr(self.name)


class PyModule:
    def __init__(self, name):
        self.name = name


class Builtin:
    def __init__(self, name):
        self.name = name


class BoundBuiltin:
    """method of a primitive (str/list/dict/set) bound to its receiver"""

    def __init__(self, recv, kind, name):
        self.recv = recv
        self.kind = kind
        self.name = name


class ExtCallable:
    def __init__(self, ext, term=None):
        self.ext = ext
        self.term = term


class ContractCallable:
    def __init__(self, unit, bound_self=None):
        self.unit = unit
        self.bound_self = bound_self


class SuperProxy:
    def __init__(self, cls, self_tv):
        self.cls = cls
        self.self_tv = self_tv


def py(obj, hint=None):
    return TV("py", obj, hint)


def tv_none():
    return TV("val", NONE, "none")


BUILTIN_NAMES = {
    "len", "isinstance", "hasattr", "getattr", "setattr", "delattr", "type", "id",
    "str", "int", "bool", "list", "dict", "set", "tuple", "callable", "super",
    "enumerate", "range", "zip", "sorted", "any", "all", "filter", "map", "next",
    "iter", "print", "abs", "min", "max", "repr", "locals", "float", "hex", "open",
    "frozenset", "reversed", "sum",
}

FUNC_ADDRS = {}  # id(PyFunc) -> concrete negative address
_next_func_addr = [-100000]


_GROUND_CACHE = {}


class Frame:
    def __init__(self, parent=None, func=None):
        self.vars = {}
        self.parent = parent
        self.func = func

    def lookup(self, name):
        f = self
        while f is not None:
            if name in f.vars:
                return f.vars[name]
            f = f.parent
        return None


class Obligation:
    __slots__ = ("unit", "kind", "label", "prop", "pc", "goal", "path", "result",
                 "model", "time", "text", "reason", "where")

    def __init__(self, unit, kind, label, prop, pc, goal, path, text="", where=""):
        self.unit = unit
        self.kind = kind
        self.label = label
        self.prop = prop
        self.pc = pc
        self.goal = goal
        self.path = path
        self.text = text
        self.result = None
        self.model = None
        self.time = 0.0
        self.reason = ""
        self.where = where

    def ident(self):
        return f"{self.unit}/{self.kind}:{self.label}"


# --------------------------------------------------------------------------
class Run:
    def __init__(self, world, unit, script, opts):
        self.world = world
        self.unit = unit
        self.opts = opts
        self.script = list(script)
        self.pos = 0
        self.pending = []
        self.pc = []
        self.fact_ids = set()
        self.heap = Heap.fresh("H0")
        self.entry_heap = self.heap
        self.A0 = fresh("A0", core.IntS)
        self.next_addr = self.A0
        self.pc.append(self.A0 >= 0)
        self.trace = []
        self.obligs = []
        self.class_terms = []
        self.class_axioms_done = set()
        self.cur_exc = []
        self.branch_log = []
        self.shape = {}  # str(addr term) -> ('list', [TV...]) concrete-shape knowledge
        self.mi = None
        self.depth = 0
        self.solver_time = 0.0
        self.checks = 0
        self.labels = {}
        self.ghost = {}
        self.loop_counter = {}
        self.in_spec = 0
        self._ground_axioms = None

    # ------------------------------------------------------------------ pc
    def assume(self, fact):
        if isinstance(fact, bool):
            fact = z3.BoolVal(fact)
        if z3.is_true(fact):
            return
        i = fact.get_id()
        if i in self.fact_ids:
            return
        self.fact_ids.add(i)
        self.pc.append(fact)

    def assume_all(self, facts):
        for f in facts:
            self.assume(f)

    def class_axioms(self):
        n = len(CLASSES.by_name)
        if _GROUND_CACHE.get("n") != n:
            ax = []
            names = list(CLASSES.by_name)
            for a in names:
                for b in names:
                    ax.append(
                        subclass(CLASSES.by_name[a], CLASSES.by_name[b])
                        == z3.BoolVal(CLASSES.is_sub(a, b))
                    )
                ax.append(core.py_id_name(CLASSES.by_name[a]) == z3.StringVal(a))
            _GROUND_CACHE["n"] = n
            _GROUND_CACHE["ax"] = ax
        tc = getattr(self, "_term_ax", None)
        if tc is None or tc[0] != n:
            tc = (n, {})
            self._term_ax = tc
        ax = list(_GROUND_CACHE["ax"])
        for c in self.class_terms:
            k = c.get_id()
            if k not in tc[1]:
                lst = [subclass(c, c), subclass(c, CLASSES.addr("object"))]
                for a in CLASSES.by_name:
                    for b in CLASSES.bases.get(a, ()):
                        lst.append(z3.Implies(subclass(c, CLASSES.by_name[a]),
                                              subclass(c, CLASSES.by_name[b])))
                tc[1][k] = lst
            ax.extend(tc[1][k])
        return ax

    def note_class_term(self, c):
        if z3.is_int_value(c):
            return
        k = c.get_id()
        if k not in self.class_axioms_done:
            self.class_axioms_done.add(k)
            self.class_terms.append(c)
            if z3.is_app(c) and c.decl().name() == "cls_of":
                # a class exists before its instances (addresses are in
                # allocation order, A-ADDR-ORDER); known classes are negative
                a = c.arg(0)
                f = z3.Or(c < 0, c < a)
                if self.in_spec and self.spec_side is not None:
                    self.spec_side.append(f)
                else:
                    self.assume(f)

    def solver(self, timeout_ms):
        s = z3.Solver()
        s.set("timeout", timeout_ms)
        for a in self.class_axioms():
            s.add(a)
        for p in self.pc:
            s.add(p)
        return s

    def inc_solver(self):
        """one incremental solver per path for the many small feasibility queries"""
        if getattr(self, "_inc", None) is None:
            self._inc = z3.Solver()
            self._inc.set("timeout", self.opts.get("feas_timeout", 3000))
            self._inc_pc = 0
            self._inc_ax = 0
        key = (len(CLASSES.by_name), len(self.class_terms))
        if key != self._inc_ax:
            seen = getattr(self, "_inc_ax_ids", set())
            for a in self.class_axioms():
                i = a.get_id()
                if i not in seen:
                    seen.add(i)
                    self._inc.add(a)
            self._inc_ax_ids = seen
            self._inc_ax = key
        for p in self.pc[self._inc_pc:]:
            self._inc.add(p)
        self._inc_pc = len(self.pc)
        return self._inc

    def feasible(self, extra=None):
        s = self.inc_solver()
        t0 = time.time()
        r = s.check() if extra is None else s.check(extra)
        self.solver_time += time.time() - t0
        self.checks += 1
        return r != z3.unsat

    def entails(self, goal):
        s = self.inc_solver()
        t0 = time.time()
        r = s.check(z3.Not(goal))
        self.solver_time += time.time() - t0
        self.checks += 1
        return r == z3.unsat

    # ------------------------------------------------------------ decisions
    def choose(self, n, conds, label=""):
        """Pick one of n alternatives; conds[i] is the z3 condition under
        which alternative i is taken (None = unconstrained)."""
        if self.in_spec:
            raise Unsupported("branching inside a spec clause: " + label)
        if self.pos < len(self.script):
            d = self.script[self.pos]
            self.pos += 1
        else:
            feas = []
            for i in range(n):
                c = conds[i]
                if c is None or self.feasible(c):
                    feas.append(i)
            if not feas:
                raise PathEnd("infeasible at " + label)
            d = feas[0]
            for other in feas[1:]:
                self.pending.append(self.script[: self.pos] + [other])
            self.script.append(d)
            self.pos += 1
        if conds[d] is not None:
            self.assume(conds[d])
        self.branch_log.append((label, d))
        return d

    def decide(self, cond, label=""):
        cond = z3.simplify(cond)
        if z3.is_true(cond):
            return True
        if z3.is_false(cond):
            return False
        return self.choose(2, [cond, z3.Not(cond)], label) == 0

    # ---------------------------------------------------------------- values
    def to_val(self, tv):
        k = tv.k
        if k == "val":
            return tv.r
        if k == "int":
            return mk_int(tv.r)
        if k == "bool":
            return mk_bool(tv.r)
        if k == "str":
            return mk_str(tv.r)
        if k == "py":
            o = tv.r
            if isinstance(o, PyClass):
                return mk_ref(o.addr())
            if isinstance(o, PyFunc):
                if o.addr is None:
                    _next_func_addr[0] -= 1
                    o.addr = _next_func_addr[0]
                    FUNC_ADDRS[o.addr] = o
                return mk_ref(o.addr)
            if isinstance(o, ExtCallable) and o.term is not None:
                return o.term
            if isinstance(o, (list, tuple)):
                return core.mk_tuple([self.to_val(x) for x in o])
            raise Unsupported(f"cannot put python-side entity {o!r} into the heap")
        raise Unsupported("to_val " + k)

    def from_val(self, term, hint=None):
        term = z3.simplify(term) if self.opts.get("simplify", True) else term
        if z3.is_app(term) and term.decl().name() == "ref" and z3.is_int_value(term.arg(0)):
            a = term.arg(0).as_long()
            if a in FUNC_ADDRS:
                return py(FUNC_ADDRS[a], "func")
            if a in CLASSES.by_addr:
                n = CLASSES.by_addr[a]
                return py(self.pyclass(n), "class")
        return TV("val", term, hint)

    def pyclass(self, name):
        for mi in self.world.modules.values():
            if name in mi.classes:
                return PyClass(name, mi, mi.classes[name])
        return PyClass(name)

    def tag(self, tv):
        """Statically known constructor of a value or None."""
        if tv.k in ("int", "bool", "str"):
            return tv.k
        if tv.k == "py":
            return "py"
        t = tv.r
        if z3.is_app(t):
            n = t.decl().name()
            if n in ("none", "bool", "int", "str", "ref", "nil", "cons"):
                return n
        if tv.opt:
            return None
        h = tv.hint
        if h in ("int", "bool", "str", "none"):
            return h
        if h in ("list", "dict", "set") or (h and (h.startswith("obj:") or h == "obj")):
            return "ref"
        if h == "tuple":
            return "tuple"
        return None

    def as_int(self, tv, what="int"):
        if tv.k == "int":
            return tv.r
        if tv.k == "bool":
            return z3.If(tv.r, 1, 0)
        if tv.k == "val":
            tg = self.tag(tv)
            if tg == "int":
                return z3.simplify(Val.i(tv.r))
            if tg == "bool":
                return z3.If(Val.b(tv.r), 1, 0)
            if tg is None:
                self.require(Val.is_int(tv.r), "TypeError", f"{what} expected")
                return Val.i(tv.r)
        raise self.implicit("TypeError", f"{what} expected, got {tv.k}/{self.tag(tv)}")

    def as_str(self, tv, what="str"):
        if tv.k == "str":
            return tv.r
        if tv.k == "val":
            tg = self.tag(tv)
            if tg == "str":
                return z3.simplify(Val.s(tv.r))
            if tg is None:
                self.require(Val.is_str(tv.r), "TypeError", f"{what} expected")
                return Val.s(tv.r)
        raise self.implicit("TypeError", f"{what} expected, got {tv.k}/{self.tag(tv)}")

    def as_addr(self, tv, what="object"):
        if tv.k == "val":
            tg = self.tag(tv)
            if tg == "ref":
                return z3.simplify(Val.a(tv.r))
            if tg is None:
                self.require(Val.is_ref(tv.r), "AttributeError", f"{what} expected")
                return Val.a(tv.r)
        if tv.k == "py":
            return Val.a(self.to_val(tv))
        raise self.implicit("AttributeError", f"{what} expected, got {tv.k}/{self.tag(tv)}")

    def require(self, cond, exc_cls, msg):
        """A partial primitive needs `cond`.  wd units fork the implicit
        exception; other units assume well-definedness (A-WD)."""
        if self.in_spec:
            return
        caught = False
        for names in getattr(self, "try_stack", []):
            # the code itself handles this exception class: the failure is part
            # of its logic, so both outcomes are explored
            if any(nm not in ("*", "Exception", "BaseException") and nm in CLASSES.by_name
                   and CLASSES.is_sub(exc_cls, nm) for nm in names):
                caught = True
        if (self.unit is not None and self.unit.wd) or caught:
            if not self.decide(cond, f"wd:{exc_cls}:{msg}"):
                pr = self.implicit(exc_cls, msg)
                if caught:
                    pr.implicit = False
                raise pr
        else:
            self.assume(cond)
            # vacuity guard: an assumed type fact that contradicts the path
            # silently kills the path; that is fine (infeasible under A-WD).

    def implicit(self, exc_cls, msg):
        e = self.new_exception(exc_cls, msg)
        return PyRaise(e, known_cls=exc_cls, origin=msg, implicit=True)

    def truthy(self, tv):
        """z3 Bool for Python truthiness."""
        if tv.k == "bool":
            return tv.r
        if tv.k == "int":
            return tv.r != 0
        if tv.k == "str":
            return z3.Length(tv.r) > 0
        if tv.k == "py":
            o = tv.r
            if isinstance(o, (list, tuple)):
                return z3.BoolVal(len(o) > 0)
            return z3.BoolVal(True)
        v = tv.r
        tg = self.tag(tv)
        if tg == "none" or tg == "nil":
            return z3.BoolVal(False)
        if tg == "bool":
            return z3.simplify(Val.b(v))
        if tg == "int":
            return Val.i(v) != 0
        if tg == "str":
            return z3.Length(Val.s(v)) > 0
        if tg == "cons":
            return z3.BoolVal(True)
        if tg == "ref":
            return self.ref_truthy(Val.a(v), tv.hint)
        return z3.If(
            Val.is_none(v), False,
            z3.If(Val.is_bool(v), Val.b(v),
            z3.If(Val.is_int(v), Val.i(v) != 0,
            z3.If(Val.is_str(v), z3.Length(Val.s(v)) > 0,
            z3.If(Val.is_nil(v), False,
            z3.If(Val.is_cons(v), True, self.ref_truthy(Val.a(v), tv.hint)))))),
        )

    def ref_truthy(self, a, hint=None):
        a = z3.simplify(a)
        if hint == "list":
            return self.hread("llen", (a,)) > 0
        if hint in ("dict", "set"):
            return self.hread("dklen", (a,)) > 0
        if hint and hint.startswith("obj:"):
            sch = SCHEMAS.get(hint[4:])
            if sch is not None and "__len__" in sch.cls_fields:
                return sch.cls_fields["__len__"](self, a) > 0
            return z3.BoolVal(True)
        if z3.is_int_value(a) and a.as_long() < 0:
            return z3.BoolVal(True)
        c = cls_of(a)
        return z3.If(
            c == CLASSES.addr("list"), self.hread("llen", (a,)) > 0,
            z3.If(z3.Or(c == CLASSES.addr("dict"), c == CLASSES.addr("set")),
                  self.hread("dklen", (a,)) > 0, core.obj_truthy(a)),
        )

    # ------------------------------------------------------------------ heap
    def hread(self, field, idx, heap=None):
        facts = []
        h = heap or self.heap
        t = h.read(field, idx, facts)
        if field in ("llen", "dklen"):
            facts.append(t >= 0)  # lengths are never negative
        if self.in_spec and self.spec_side is not None:
            self.spec_side.extend(facts)
        else:
            self.assume_all(facts)
        return t

    spec_side = None

    def closed(self, v):
        """values read from the heap refer to already allocated objects"""
        f = z3.Implies(Val.is_ref(v), Val.a(v) < self.next_addr)
        if self.in_spec and self.spec_side is not None:
            self.spec_side.append(f)
        else:
            self.assume(f)

    def alloc(self, cls_name=None, cls_term=None):
        a = z3.simplify(self.next_addr)
        self.next_addr = z3.simplify(self.next_addr + 1)
        self.ghost.setdefault("own_allocs", []).append(a)
        if cls_name is not None:
            self.assume(cls_of(a) == CLASSES.addr(cls_name))
        elif cls_term is not None:
            self.assume(cls_of(a) == cls_term)
        return a

    def new_list(self, items):
        a = self.alloc("list")
        h = self.heap.store("llen", (a,), z3.IntVal(len(items)), bump=False)
        for i, it in enumerate(items):
            h = h.store("lelem", (a, z3.IntVal(i)), self.to_val(it), bump=False)
        self.heap = h
        return TV("val", mk_ref(a), "list")

    def new_dict(self, pairs, kind="dict"):
        a = self.alloc(kind)
        h = self.heap
        h = h.store("dklen", (a,), z3.IntVal(0), bump=False)
        h = h.with_array("dhas", z3.Store(h.cur["dhas"], a, z3.K(Val, z3.BoolVal(False))), bump=False)
        self.heap = h
        d = TV("val", mk_ref(a), kind)
        for k, v in pairs:
            self.dict_set(d, k, v)
        return d

    def dict_has(self, d_addr, key_val, heap=None):
        return self.hread("dhas", (d_addr, key_val), heap)

    def dict_set(self, d, k, v):
        a = self.as_addr(d)
        kv = self.to_val(k)
        vv = self.to_val(v)
        had = self.dict_has(a, kv)
        n = self.hread("dklen", (a,))
        h = self.heap
        krow = z3.Select(h.cur["dkey"], a)
        h = h.with_array("dkey", z3.Store(h.cur["dkey"], a,
                                          z3.If(had, krow, z3.Store(krow, n, kv))))
        h = h.store("dklen", (a,), z3.If(had, n, n + 1))
        h = h.store("dhas", (a, kv), z3.BoolVal(True))
        h = h.store("dval", (a, kv), vv)
        self.heap = h

    def new_object(self, cls_name=None, cls_term=None):
        a = self.alloc(cls_name, cls_term)
        h = self.heap
        self.heap = h.with_array(
            "has", z3.Store(h.cur["has"], a, z3.K(core.StrS, z3.BoolVal(False))), bump=False)
        return a

    def obj_has(self, a, name, heap=None):
        return self.hread("has", (a, name), heap)

    def attr_read_term(self, a, name, heap=None):
        """instance attribute, else class namespace (A-MRO1)"""
        inst_has = self.obj_has(a, name, heap)
        inst = self.hread("fld", (a, name), heap)
        c = cls_of(a)
        self.note_class_term(c)
        chas = self.obj_has(c, name, heap)
        cval = self.hread("fld", (c, name), heap)
        return inst_has, inst, chas, cval

    def getattr_val(self, obj_tv, name_term, name_py=None, heap=None):
        a = self.as_addr(obj_tv)
        inst_has, inst, chas, cval = self.attr_read_term(a, name_term, heap)
        if not self.in_spec:
            self.require(z3.Or(inst_has, chas), "AttributeError",
                         f"attribute {name_py or name_term}")
        v = z3.If(inst_has, inst, cval)
        v = z3.simplify(v) if self.opts.get("simplify", True) else v
        self.closed(v)
        hint = None
        if name_py is not None:
            hint = self.field_hint(obj_tv, name_py)
        elem = None
        if hint and "[" in hint:
            # 'list[T]|none' -> container hint 'list|none', element hint T
            i, j = hint.index("["), hint.rindex("]")
            elem = hint[i + 1:j]
            hint = hint[:i] + hint[j + 1:]
        tv = self.from_val(v, hint)
        if elem and tv.k == "val":
            self.elem_hints[str(tv.r)] = elem
        self.apply_hint_facts(tv)
        return tv

    def field_hint(self, obj_tv, name):
        h = obj_tv.hint
        if h and h.startswith("obj:"):
            sch = SCHEMAS.get(h[4:])
            while sch is not None:
                if name in sch.fields:
                    return sch.fields[name]
                nxt = None
                for b in sch.bases:
                    if b in SCHEMAS:
                        nxt = SCHEMAS[b]
                        break
                sch = nxt
        star = SCHEMAS.get("*")
        if star is not None and name in star.fields:
            return star.fields[name]  # textX-wide naming invariant (e.g. _tx_inh_by is a list)
        return None

    def apply_hint_facts(self, tv):
        """a declared field type is an assumption about the value (schema =
        data-structure invariant, stated in the evidence)"""
        if tv.k != "val" or tv.full is None:
            return
        f = self.type_fact(tv.r, tv.full)
        if f is not None:
            if self.in_spec and self.spec_side is not None:
                self.spec_side.append(f)
            else:
                self.assume(f)

    def type_fact(self, v, t):
        import re as _re

        while "[" in t:  # element types are not part of the container's own type fact
            t2 = _re.sub(r"\[[^\[\]]*\]", "", t)
            if t2 == t:
                break
            t = t2
        alts = [x.strip() for x in t.split("|")]
        fs = []
        for x in alts:
            if x == "any":
                return None
            if x == "int":
                fs.append(Val.is_int(v))
            elif x == "str":
                fs.append(Val.is_str(v))
            elif x == "bool":
                fs.append(Val.is_bool(v))
            elif x == "none":
                fs.append(Val.is_none(v))
            elif x == "tuple":
                fs.append(z3.Or(Val.is_nil(v), Val.is_cons(v)))
            elif x in ("list", "dict", "set"):
                fs.append(z3.And(Val.is_ref(v), cls_of(Val.a(v)) == CLASSES.addr(x),
                                 Val.a(v) >= 0))
            elif x == "obj" or x == "callable":
                fs.append(Val.is_ref(v))
            elif x.startswith("obj:"):
                cn = x[4:]
                if cn not in CLASSES.by_name:
                    sch = SCHEMAS.get(cn)
                    CLASSES.declare(cn, sch.bases if sch else ("object",))
                self.note_class_term(cls_of(Val.a(v)))
                fs.append(z3.And(Val.is_ref(v), Val.a(v) >= 0,
                                 subclass(cls_of(Val.a(v)), CLASSES.addr(cn))))
            elif x.startswith("class"):
                fs.append(Val.is_ref(v))
            else:
                raise Unsupported("type " + x)
        return z3.Or(*fs) if len(fs) > 1 else fs[0]

    def setattr_val(self, obj_tv, name_term, value_tv):
        a = self.as_addr(obj_tv)
        v = self.to_val(value_tv)
        self.heap = self.heap.store("fld", (a, name_term), v).store(
            "has", (a, name_term), z3.BoolVal(True))
        self.on_store(a, name_term, v)

    def on_store(self, a, name_term, v):
        pass

    def new_exception(self, cls_name, msg=""):
        if cls_name not in CLASSES.by_name:
            CLASSES.declare(cls_name, ("Exception",))
        a = self.new_object(cls_name)
        tv = TV("val", mk_ref(a), "obj:" + cls_name)
        return tv

    # ----------------------------------------------------------------- specs
    def spec(self, text, env, old_heap=None, heap=None, extra=None):
        """Evaluate a clause to a z3 Bool in the given environment; returns
        (term, side_facts)."""
        from .spec import SpecEval

        ev = SpecEval(self, env, old_heap or self.entry_heap, heap or self.heap, extra or {})
        return ev.clause(text)


def const_tv(v):
    if v is None:
        return tv_none()
    if isinstance(v, bool):
        return TV("bool", z3.BoolVal(v))
    if isinstance(v, int):
        return TV("int", z3.IntVal(v))
    if isinstance(v, str):
        return TV("str", z3.StringVal(v))
    if isinstance(v, (list, tuple)):
        return py([const_tv(x) for x in v], "ctuple" if isinstance(v, tuple) else "clist")
    if isinstance(v, float):
        return TV("val", mk_ref(fresh("flt", core.IntS)), "float")
    raise Unsupported(f"constant {v!r}")
