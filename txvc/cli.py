"""
/verif/check <Cxx> [--tier quick|thorough] [--replay FILE]

exit 0  every obligation of the property discharged (known findings printed)
exit 1  an obligation was refuted that known_findings.json does not list
        -> line `VIOLATION property=<id> replay=<path>[ no-failing-input-found]`
exit 2  undecided (solver unknown / timeout) - never reported as a violation
exit 3  checker broken (unsupported construct, engine error, vacuity guard)
"""

from __future__ import annotations

import argparse
import importlib
import json
import multiprocessing as mp
import os
import pkgutil
import sys
import time
import traceback

HERE = os.path.dirname(os.path.dirname(os.path.abspath(__file__)))
sys.path.insert(0, HERE)
# Where evidence/ and replays/ are written.  The registered commands leave it
# unset (/verif).  Drills against a deliberately broken tree (tools/try_mutation)
# point it at a scratch directory so that the evidence of a mutated tree can
# never be mistaken for, or committed as, the evidence of the real tree.
OUT = os.environ.get("TXVC_OUT") or HERE


def load_contracts():
    import contracts

    for m in pkgutil.iter_modules(contracts.__path__):
        importlib.import_module("contracts." + m.name)
    from txvc.contracts import REGISTRY

    return REGISTRY


def _run_unit(args):
    name, opts, start, split = args
    from txvc.contracts import REGISTRY
    from txvc.interp import verify_unit
    from txvc.world import World

    load_contracts()
    unit = REGISTRY[name]
    w = World()
    try:
        res = verify_unit(w, unit, opts, start=start, split=split)
    except Exception as e:  # engine crash
        return {"unit": name, "errors": [("crash", f"{type(e).__name__}: {e}\n{traceback.format_exc(limit=6)}")],
                "obligs": [], "paths": 0, "ended": 0, "solver_time": 0, "wall": 0, "bounded": False,
                "hash": "", "outcomes": {}, "remaining": []}
    obl = []
    for ob in res.obligs:
        obl.append({
            "unit": ob.unit, "kind": ob.kind, "label": ob.label, "prop": ob.prop,
            "result": ob.result, "time": round(ob.time, 4), "text": ob.text, "where": ob.where,
            "model": ob.model, "reason": ob.reason,
            "path": [f"{l}={d}" for l, d in ob.path],
        })
    return {"unit": name, "errors": res.errors, "obligs": obl, "paths": res.paths, "ended": res.ended,
            "solver_time": res.solver_time, "wall": res.wall, "bounded": res.bounded,
            "hash": res.source_hash, "outcomes": res.outcomes, "target": unit.target,
            "remaining": res.remaining}


def _merge(a, b):
    """merge the result of a sub-exploration b into a (same unit)"""
    a["errors"].extend(b["errors"])
    a["obligs"].extend(b["obligs"])
    a["paths"] += b["paths"]
    a["ended"] += b["ended"]
    a["solver_time"] += b["solver_time"]
    a["wall"] = max(a["wall"], b["wall"])
    a["bounded"] = a["bounded"] or b["bounded"]
    for k, v in b.get("outcomes", {}).items():
        a["outcomes"][k] = a["outcomes"].get(k, 0) + v
    return a


def known_findings():
    p = os.path.join(HERE, "known_findings.json")
    if not os.path.exists(p):
        return []
    with open(p) as f:
        return json.load(f).get("findings", [])


def match_known(kf, pid, ob):
    ident = f"{ob['unit']}/{ob['kind']}:{ob['label']}"
    pathstr = " ".join(ob["path"]) + " " + ob["where"]
    for k in kf:
        if k.get("status") == "fixed":
            continue  # fixed entries suppress nothing
        if k["property"] != pid or k["obligation"] != ident:
            continue
        if all(s in pathstr for s in k.get("path_contains", [])) and not any(
                s in pathstr for s in k.get("path_excludes", [])):
            return k
    return None


def main(argv=None):
    ap = argparse.ArgumentParser()
    ap.add_argument("prop")
    ap.add_argument("--tier", default=os.environ.get("VERIF_TIER", "quick"))
    ap.add_argument("--replay", default=None)
    # measured in this sandbox: z3-heavy workers stop scaling beyond ~8 processes
    # (page-fault / allocator contention), more only adds system time
    ap.add_argument("--jobs", type=int, default=int(os.environ.get("TXVC_JOBS", "8")))
    ap.add_argument("-v", action="store_true")
    a = ap.parse_args(argv)
    pid = a.prop
    tier = a.tier if a.tier in ("quick", "thorough") else "quick"
    seed = int(os.environ.get("VERIF_SEED", "0") or 0)
    t0 = time.time()
    reg = load_contracts()
    from txvc import props as propmod

    if a.replay:
        return propmod.run_replay(pid, a.replay)

    units = [u for u in reg.values() if pid in u.props and not u.trusted]
    opts = {"timeout_ms": 10000 if tier == "quick" else 60000, "tier": tier, "seed": seed, "prop": pid,
            # feasibility pruning is an optimisation: a slow query is answered "feasible"
            # (TXVC_FEAS_TIMEOUT: stress test of the verdicts' independence from this budget)
            "feas_timeout": int(os.environ.get("TXVC_FEAS_TIMEOUT") or (600 if tier == "quick" else 3000))}
    results = []
    if units:
        jobs = max(1, min(a.jobs, len(units)))
        work = []
        for u in units:
            o = dict(opts)
            if u.bounded:
                o["unroll"] = u.bounded + (1 if tier == "thorough" else 0)
            work.append((u.name, o, None, 3))
        jobs = max(1, a.jobs)
        if jobs == 1:
            results = [_run_unit((w[0], w[1], None, None)) for w in work]
        else:
            # phase 1: explore each unit until 16 prefixes are pending; phase 2:
            # the pending subtrees of all units share the worker pool
            # dynamic scheduling: a task explores a subtree of one unit until a few
            # prefixes are pending, returns them, and they are queued at once
            with mp.get_context("fork").Pool(jobs, maxtasksperchild=6) as pool:
                byname = {}
                optsof = {w[0]: w[1] for w in work}
                inflight = [pool.apply_async(_run_unit, (w,)) for w in work]
                submitted = len(inflight)
                while inflight:
                    still = []
                    progressed = False
                    for ar in inflight:
                        if not ar.ready():
                            still.append(ar)
                            continue
                        progressed = True
                        sub = ar.get()
                        rem = sub.pop("remaining", []) or []
                        if sub["unit"] in byname:
                            _merge(byname[sub["unit"]], sub)
                        else:
                            byname[sub["unit"]] = sub
                        for script in rem:
                            submitted += 1
                            split = 4 if submitted < 400 else None
                            still.append(pool.apply_async(
                                _run_unit, ((sub["unit"], optsof[sub["unit"]], [script], split),)))
                    inflight = still
                    if not progressed:
                        time.sleep(0.05)
                results = [byname[w[0]] for w in work]
    # A unit whose code no longer fits the shape its contract was written for (a
    # new loop without an invariant) is NOT a violation: degrade that unit to the
    # bounded stand-in (loops unrolled, everything else symbolic).  Only a
    # counterexample found there AND replayed natively is reported; otherwise
    # the check is undecided (exit 2).
    degraded = []
    for i, r in enumerate(results):
        errs = r["errors"]
        if errs and all(e[0] == "unsupported" and "loop without invariant" in str(e[1]) for e in errs):
            o = dict(opts)
            o["unroll"] = 3 if tier == "quick" else 4
            o["keep_going"] = True
            r2 = _run_unit((r["unit"], o, None, None))
            r2["degraded"] = [str(e[1]) for e in errs]
            r2["bounded"] = True
            results[i] = r2
            degraded.append(r["unit"])
    extras = propmod.run_extras(pid, tier, seed)

    kf = known_findings()
    errors, unknown, violations, known, canary_missing = [], [], [], [], []
    n_obl = n_dis = n_canary = 0
    per_unit = []
    bounded_notes = []
    solver_s = 0.0
    samples = []
    for r in results:
        solver_s += r["solver_time"]
        for e in r["errors"]:
            errors.append((r["unit"], e))
        unit = reg[r["unit"]]
        can_ok = unit.canary is None
        mine = []
        for ob in r["obligs"]:
            if ob["kind"] == "CANARY":
                n_canary += 1
                if ob["result"] != "proved":
                    can_ok = True  # a canary must never be PROVED (refuted or undecided is fine)
                continue
            if ob["prop"] is not None and pid not in str(ob["prop"]).split("|"):
                continue  # clause tagged for another property of a shared unit
            mine.append(ob)
        if not can_ok and not r["errors"]:
            canary_missing.append(r["unit"])
        if r["bounded"]:
            bounded_notes.append({"unit": r["unit"], "bound": unit.bounded, "paths": r["paths"]})
        nprov = 0
        for ob in mine:
            if r["bounded"]:
                # bounded exploration is a stand-in: never counted as discharged
                if ob["result"] == "refuted":
                    if r.get("degraded"):
                        ob["model"] = dict(ob.get("model") or {}, __weak__=True)
                    k = match_known(kf, pid, ob)
                    (known if k else violations).append((ob, k))
                continue
            if ob["result"] == "proved":
                n_obl += 1
                n_dis += 1
                nprov += 1
            elif ob["result"] == "refuted":
                k = match_known(kf, pid, ob)
                if k:
                    known.append((ob, k))
                else:
                    n_obl += 1
                    violations.append((ob, None))
            else:
                n_obl += 1
                unknown.append(ob)
        if mine and len(samples) < 6:
            ob = mine[0]
            samples.append({"obligation": f"{ob['unit']}/{ob['kind']}:{ob['label']}", "clause": ob["text"],
                            "where": ob["where"], "path_len": len(ob["path"]), "verdict": ob["result"],
                            "solver_s": ob["time"]})
        per_unit.append({"unit": r["unit"], "target": r.get("target"), "source_sha": r["hash"],
                         "paths": r["paths"], "paths_ended_in_loop_or_infeasible": r["ended"],
                         "obligations": len(mine), "proved": nprov, "bounded": r["bounded"],
                         "outcomes": r["outcomes"], "wall_s": round(r["wall"], 2)})
        if not r["errors"] and r["paths"] == 0:
            errors.append((r["unit"], ("vacuity", "no feasible path through the unit (precondition unsatisfiable?)")))
        if not r["errors"] and not r["obligs"]:
            errors.append((r["unit"], ("vacuity", "unit generated zero obligations")))

    for ex in extras:
        n_obl += ex["obligations"]
        n_dis += ex["discharged"]
        solver_s += ex.get("solver_s", 0)
        for v in ex.get("violations", []):
            k = match_known(kf, pid, v)
            if k:
                known.append((v, k))
                if ex["obligations"] > 0 and not ex.get("bounded"):
                    n_obl -= 1  # it was counted among the extra's obligations; bounded extras count none
            else:
                violations.append((v, None))
        for e in ex.get("errors", []):
            errors.append((ex["name"], ("extra", e)))
        unknown.extend(ex.get("unknown", []))
        samples.extend(ex.get("samples", [])[:3])
        per_unit.append({"unit": ex["name"], "backend": ex.get("backend"), "obligations": ex["obligations"],
                         "proved": ex["discharged"], "bounded": ex.get("bounded", False),
                         "detail": ex.get("detail")})
        if ex.get("bounded"):
            bounded_notes.append({"unit": ex["name"], "bound": ex.get("bound"), "cases": ex.get("cases")})

    if not units and not extras:
        errors.append((pid, ("config", "no unit or extra check serves this property")))

    # ---- report
    rc = 0
    os.makedirs(os.path.join(OUT, "replays"), exist_ok=True)
    for ob, k in known:
        ident = f"{ob['unit']}/{ob['kind']}:{ob['label']}"
        print(f"KNOWN-FINDING: property={pid} {ident} {k['what']}")
    seen_v = set()
    for ob, _ in violations:
        ident = f"{ob['unit']}/{ob['kind']}:{ob['label']}"
        if ident in seen_v:
            continue
        seen_v.add(ident)
        rp = propmod.write_replay(pid, ob, OUT)
        # a violation found by running the real code (bounded stand-ins) is its own replay
        reproduced = True if ob.get("native") else propmod.try_native_replay(pid, ob, rp)
        if (ob.get("model") or {}).get("__weak__") and not reproduced:
            # candidate counterexample of a relaxed query that does not replay: undecided
            seen_v.discard(ident)
            ob = dict(ob, reason="weak counter-model did not replay natively")
            unknown.append(ob)
            continue
        tail = "" if reproduced else " no-failing-input-found"
        print(f"VIOLATION property={pid} replay={rp}{tail}")
        print(f"  failed obligation: {ident}  [{ob['where']}]")
        print(f"  clause: {ob['text']}")
        rc = 1
    if errors:
        for u, e in errors:
            print(f"CHECKER-ERROR unit={u} {e[0]}: {str(e[1])[:600]}")
        rc = max(rc, 3) if rc != 1 else 1
    if canary_missing:
        print(f"CHECKER-ERROR canary not refuted in units {canary_missing} (engine proves falsehoods?)")
        rc = 3 if rc != 1 else 1
    if degraded and rc == 0:
        for u in degraded:
            print(f"UNDECIDED unit {u} no longer fits its contract (new loop without invariant); "
                  f"bounded stand-in found no replayable counterexample")
        rc = 2
    if unknown and rc == 0:
        for ob in unknown[:10]:
            print(f"UNDECIDED {ob['unit']}/{ob['kind']}:{ob['label']} ({ob.get('reason','')})")
        rc = 2

    wall = time.time() - t0
    from txvc.core import ASSUMPTIONS

    assumptions = [f"{k}: {v}" for k, v in ASSUMPTIONS.items()]
    assumed_contracts = []
    for u in units:
        for key, c in u.calls.items():
            if hasattr(c, "name") and hasattr(c, "returns"):
                assumed_contracts.append(f"{u.name}: external `{key}` as {c.name} "
                                         f"(returns {c.returns}, raises {c.raises}, protect {c.protect}) {c.note}")
        for p in u.ext_protect:
            assumed_contracts.append(f"{u.name}: external calls assumed not to modify {p}")
    for u in reg.values():
        if u.trusted and set(u.props) & {pid}:
            assumed_contracts.append(f"{u.name}: contract of {u.target} assumed, not verified ({u.notes})")
    assumptions.extend(propmod.extra_assumptions(pid))
    ev = {
        "property_id": pid,
        "tier": tier,
        "seed": seed,
        "level": "proof",
        "coverage": {
            "obligations": n_obl,
            "discharged": n_dis,
            "checker_cmd": f"./check {pid} --tier {tier}",
            "trusted_base": propmod.trusted_base(pid),
            "backends": "z3 %s (python API), cvc5 1.0.3 for z3-unknowns, ground instantiation for quantified contexts" % _z3v(),
            "solver_s": round(solver_s, 2),
            "functions_under_contract": per_unit,
            "must_fail_canaries_refuted": n_canary,
            "known_findings_reported": len(known),
            "undecided": len(unknown),
            "bounded_standins_not_counted": bounded_notes,
            "assumed_contracts": assumed_contracts,
            "tree_checked": _tree_state(),
            "extraction_drops": "docstrings, annotations, decorators, `if TYPE_CHECKING` blocks",
            "samples": samples,
            "explanation": "obligations/discharged count only unbounded VCs decided by the solver; "
                           "bounded stand-ins, canaries and listed known findings are reported separately",
        },
        "assumptions": assumptions,
        "wall_s": round(wall, 2),
        "violations": len(seen_v),
    }
    os.makedirs(os.path.join(OUT, "evidence"), exist_ok=True)
    with open(os.path.join(OUT, "evidence", f"{pid}.json"), "w") as f:
        json.dump(ev, f, indent=1, default=str)
    print(f"{pid}: {n_dis}/{n_obl} obligations discharged, {len(known)} known finding(s), "
          f"{len(seen_v)} violation(s), {len(unknown)} undecided, units={len(units)}+{len(extras)} extra, "
          f"solver {solver_s:.1f}s, wall {wall:.1f}s -> exit {rc}")
    return rc


def _tree_state():
    """Which tree the obligations were generated from (HEAD and files that differ from it)."""
    import subprocess
    from txvc.world import REPO

    def git(*a):
        try:
            return subprocess.run(["git", "-C", REPO, *a], capture_output=True, text=True, timeout=30).stdout.strip()
        except Exception as e:  # evidence only: never fail a check over this
            return f"?({e})"

    dirty = [l for l in git("status", "--porcelain", "--untracked-files=no").splitlines() if l.strip()]
    return {"repo": REPO, "head": git("rev-parse", "--short", "HEAD"), "files_differing_from_head": dirty}


def _z3v():
    import z3

    return z3.get_version_string()


if __name__ == "__main__":
    # a crash of the checker (a contract module that does not import, an engine bug) is exit 3,
    # never exit 1: an uncaught Python exception would otherwise look like a violation
    try:
        rc = main()
    except SystemExit:
        raise
    except BaseException:  # noqa: BLE001
        traceback.print_exc()
        print("CHECKER-ERROR the checker itself crashed (traceback above); no verdict")
        rc = 3
    sys.exit(rc)
