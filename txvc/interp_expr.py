"""Expression evaluation (mixin for Interp)."""

from __future__ import annotations

import ast

import z3

from . import core
from .contracts import SCHEMAS
from .core import CLASSES, NIL, NONE, Val, cls_of, mk_bool, mk_int, mk_ref, mk_str, subclass
from .symex import (
    TV, BoundBuiltin, Builtin, PyClass, PyFunc, PyModule, PyRaise, SuperProxy,
    Unsupported, const_tv, py, tv_none,
)


def contains_ite(t):
    seen = set()
    stack = [t]
    while stack:
        x = stack.pop()
        i = x.get_id()
        if i in seen:
            continue
        seen.add(i)
        if z3.is_app(x) and x.decl().kind() == z3.Z3_OP_ITE:
            return True
        stack.extend(x.children())
    return False


def base_hint(h):
    """'dict|none' -> 'dict' (the operation at hand already excludes None)"""
    if not h:
        return ""
    alts = [x for x in h.split("|") if x.strip() != "none"]
    return alts[0].strip() if len(alts) == 1 else ""


class ObjDict:
    """obj.__dict__ view"""

    def __init__(self, addr):
        self.addr = addr


class ExprMixin:
    def eval(self, node, frame):
        m = getattr(self, "ex_" + type(node).__name__, None)
        if m is None:
            raise Unsupported(f"expression {type(node).__name__} at line {getattr(node, 'lineno', '?')}")
        return m(node, frame)

    def ex_Constant(self, n, frame):
        return const_tv(n.value)

    def ex_Name(self, n, frame):
        return self.lookup(n.id, frame)

    def ex_NamedExpr(self, n, frame):
        v = self.eval(n.value, frame)
        self.assign(n.target, v, frame)
        return v

    def ex_Tuple(self, n, frame):
        items = []
        for e in n.elts:
            if isinstance(e, ast.Starred):
                sub = self.concrete_items(self.eval(e.value, frame))
                if sub is None:
                    raise Unsupported("starred symbolic sequence")
                items.extend(sub)
            else:
                items.append(self.eval(e, frame))
        if any(x.k == "py" and not isinstance(x.r, (PyClass, PyFunc, list, tuple)) for x in items):
            return py(list(items), "ctuple")
        return TV("val", core.mk_tuple([self.to_val(x) for x in items]), "tuple")

    def ex_List(self, n, frame):
        items = []
        for e in n.elts:
            if isinstance(e, ast.Starred):
                sub = self.concrete_items(self.eval(e.value, frame))
                if sub is None:
                    raise Unsupported("starred symbolic sequence")
                items.extend(sub)
            else:
                items.append(self.eval(e, frame))
        return self.new_list(items)

    def ex_Set(self, n, frame):
        items = [self.eval(e, frame) for e in n.elts]
        return self.new_dict([(x, tv_none()) for x in items], kind="set")

    def ex_Dict(self, n, frame):
        pairs = []
        for k, v in zip(n.keys, n.values):
            if k is None:
                raise Unsupported("dict ** display")
            pairs.append((self.eval(k, frame), self.eval(v, frame)))
        return self.new_dict(pairs)

    def ex_Lambda(self, n, frame):
        qual = (frame.func.qual + "." if frame.func is not None else "") + f"<lambda@{n.lineno}>"
        return py(PyFunc(n, frame, self.frame_mi(frame), qual), "func")

    def ex_JoinedStr(self, n, frame):
        parts = []
        for v in n.values:
            if isinstance(v, ast.Constant):
                parts.append(z3.StringVal(v.value))
            else:
                parts.append(self.to_pystr(self.eval(v.value, frame)))
        if not parts:
            return TV("str", z3.StringVal(""))
        t = parts[0]
        for p in parts[1:]:
            t = z3.Concat(t, p)
        return TV("str", z3.simplify(t))

    def to_pystr(self, tv):
        if tv.k == "str":
            return tv.r
        if tv.k == "int":
            return core.py_str_of(mk_int(tv.r))
        if tv.k == "bool":
            return z3.If(tv.r, z3.StringVal("True"), z3.StringVal("False"))
        if tv.k == "py":
            if isinstance(tv.r, (list, tuple)):
                return core.py_str_of(self.to_val(tv))
            return core.py_str_of(self.to_val(tv))
        tg = self.tag(tv)
        if tg == "str":
            return z3.simplify(Val.s(tv.r))
        if tg == "none":
            return z3.StringVal("None")
        if tg == "ref":
            r = self.str_of_object(tv)
            if r is not None:
                return r
            return core.py_str_of(tv.r)
        if tg is None:
            return z3.If(Val.is_str(tv.r), Val.s(tv.r), core.py_str_of(tv.r))
        return core.py_str_of(tv.r)

    def str_of_object(self, tv):
        return None

    def ex_IfExp(self, n, frame):
        c = self.eval(n.test, frame)
        if self.decide(self.truthy(c), f"ifexp@{n.lineno}"):
            return self.eval(n.body, frame)
        return self.eval(n.orelse, frame)

    def ex_BoolOp(self, n, frame):
        is_and = isinstance(n.op, ast.And)
        v = None
        for i, e in enumerate(n.values):
            v = self.eval(e, frame)
            if i == len(n.values) - 1:
                return v
            t = self.decide(self.truthy(v), f"boolop@{n.lineno}.{i}")
            if is_and and not t:
                return v
            if not is_and and t:
                return v
        return v

    def ex_UnaryOp(self, n, frame):
        v = self.eval(n.operand, frame)
        if isinstance(n.op, ast.Not):
            return TV("bool", z3.simplify(z3.Not(self.truthy(v))))
        if isinstance(n.op, ast.USub):
            return TV("int", -self.as_int(v))
        if isinstance(n.op, ast.UAdd):
            return TV("int", self.as_int(v))
        raise Unsupported("unary op")

    def ex_BinOp(self, n, frame):
        return self.binop(n.op, self.eval(n.left, frame), self.eval(n.right, frame), n)

    def binop(self, op, a, b, n):
        ta, tb = self.tag(a), self.tag(b)
        if isinstance(op, ast.Add):
            if ta == "str" or tb == "str":
                return TV("str", z3.simplify(z3.Concat(self.as_str(a), self.as_str(b))))
            if ta in ("int", "bool") or tb in ("int", "bool"):
                return TV("int", z3.simplify(self.as_int(a) + self.as_int(b)))
            if (a.hint == "list" or b.hint == "list"):
                return self.list_concat(a, b)
            if ta == "cons" or ta == "nil" or a.hint == "tuple":
                ia, ib = self.concrete_items(a), self.concrete_items(b)
                if ia is not None and ib is not None:
                    return TV("val", core.mk_tuple([self.to_val(x) for x in ia + ib]), "tuple")
            # no static kind: the path condition (e.g. a callee's contract) may still fix it
            for x in (a, b):
                if x.k == "val" and self.entails(Val.is_int(x.r)):
                    return TV("int", z3.simplify(self.as_int(a) + self.as_int(b)))
            for x in (a, b):
                if x.k == "val" and self.entails(Val.is_str(x.r)):
                    return TV("str", z3.simplify(z3.Concat(self.as_str(a), self.as_str(b))))
            if tb in ("cons", "nil") or b.hint == "tuple" or (b.k == "py" and isinstance(b.r, (list, tuple))):
                # <value of unknown type> + <tuple> (e.g. e.args += (...,)): some tuple, contents not modelled
                f = z3.Function("tuple_concat", Val, Val, Val)
                return TV("val", f(self.to_val(a), self.to_val(b)), "tuple")
            raise Unsupported(f"+ on unknown kinds at line {getattr(n, 'lineno', '?')}")
        if isinstance(op, ast.Sub):
            return TV("int", z3.simplify(self.as_int(a) - self.as_int(b)))
        if isinstance(op, ast.Mult):
            if ta == "str" and tb in ("int", None):
                return TV("str", self.str_repeat(self.as_str(a), self.as_int(b)))
            return TV("int", self.as_int(a) * self.as_int(b))
        if isinstance(op, ast.Mod):
            if ta == "str":
                raise Unsupported("% formatting")
            return TV("int", self.as_int(a) % self.as_int(b))
        if isinstance(op, ast.FloorDiv):
            return TV("int", self.as_int(a) / self.as_int(b))
        if isinstance(op, ast.BitOr):
            if ta == "bool" or tb == "bool" or a.k == "bool":
                return TV("bool", z3.Or(self.truthy(a), self.truthy(b)))
        raise Unsupported("binop " + type(op).__name__)

    def str_repeat(self, s, n):
        f = z3.Function("str_repeat", core.StrS, core.IntS, core.StrS)
        t = f(s, n)
        self.assume(z3.Length(t) == z3.If(n > 0, n, 0) * z3.Length(s))
        return t

    # ------------------------------------------------------------ compare
    def ex_Compare(self, n, frame):
        left = self.eval(n.left, frame)
        res = None
        for op, rn in zip(n.ops, n.comparators):
            right = self.eval(rn, frame)
            c = self.compare(op, left, right, n)
            res = c if res is None else z3.And(res, c)
            left = right
        return TV("bool", z3.simplify(res))

    def val_eq(self, a, b):
        if a.k == b.k and a.k in ("int", "bool", "str"):
            return a.r == b.r
        if a.k == "py" and b.k == "py":
            if isinstance(a.r, (PyClass,)) and isinstance(b.r, PyClass):
                return z3.BoolVal(a.r.name == b.r.name)
            if isinstance(a.r, (list, tuple)) and isinstance(b.r, (list, tuple)):
                if len(a.r) != len(b.r):
                    return z3.BoolVal(False)
                return z3.And(*[self.val_eq(x, y) for x, y in zip(a.r, b.r)]) if a.r else z3.BoolVal(True)
            return z3.BoolVal(a.r is b.r)
        if a.k in ("int", "bool") and b.k in ("int", "bool"):
            return self.as_int(a) == self.as_int(b)
        va, vb = self.to_val(a), self.to_val(b)
        ha, hb = base_hint(a.hint), base_hint(b.hint)
        if not self.in_spec and a.k == "val" and b.k == "val" and (
                ha in ("dict", "list", "set") or hb in ("dict", "list", "set")):
            # (in clauses `==` on objects is identity; write struct_eq(a, b) for the structural one)
            # == on containers is structural: two different objects may be equal
            # (over-approximated by an uninterpreted relation; identity implies equality)
            seq = z3.Function("struct_eq", Val, Val, core.BoolS)
            return z3.Or(va == vb, z3.And(Val.is_ref(va), Val.is_ref(vb), seq(va, vb), seq(vb, va),
                                          cls_of(Val.a(va)) == cls_of(Val.a(vb))))
        return va == vb

    def val_is(self, a, b):
        """identity (`is`)"""
        if a.k == "val" and b.k == "val":
            return a.r == b.r
        return self.val_eq(a, b)

    def compare(self, op, a, b, n):
        if isinstance(op, ast.Is):
            return self.val_is(a, b)
        if isinstance(op, ast.IsNot):
            return z3.Not(self.val_is(a, b))
        if isinstance(op, ast.Eq):
            return self.val_eq(a, b)
        if isinstance(op, ast.NotEq):
            return z3.Not(self.val_eq(a, b))
        if isinstance(op, (ast.Lt, ast.LtE, ast.Gt, ast.GtE)):
            ia, ib = self.concrete_items(a), self.concrete_items(b)
            if ia is not None and ib is not None and (a.k == "py" or self.tag(a) in ("cons", "nil")):
                # tuples compare lexicographically
                strict = {ast.Lt: ast.Lt, ast.LtE: ast.Lt, ast.Gt: ast.Gt, ast.GtE: ast.Gt}[type(op)]()
                res = z3.BoolVal(isinstance(op, (ast.LtE, ast.GtE)) and len(ia) == len(ib)
                                 or (isinstance(op, (ast.Lt, ast.LtE)) and len(ia) < len(ib))
                                 or (isinstance(op, (ast.Gt, ast.GtE)) and len(ia) > len(ib)))
                for x, y in reversed(list(zip(ia, ib))):
                    res = z3.Or(self.compare(strict, x, y, n), z3.And(self.val_eq(x, y), res))
                return res
            ta, tb = self.tag(a), self.tag(b)
            if ta == "str" or tb == "str":
                x, y = self.as_str(a), self.as_str(b)
                return {ast.Lt: x < y, ast.LtE: x <= y, ast.Gt: y < x, ast.GtE: y <= x}[type(op)]
            x, y = self.as_int(a), self.as_int(b)
            return {ast.Lt: x < y, ast.LtE: x <= y, ast.Gt: x > y, ast.GtE: x >= y}[type(op)]
        if isinstance(op, ast.In):
            return self.contains(b, a, n)
        if isinstance(op, ast.NotIn):
            return z3.Not(self.contains(b, a, n))
        raise Unsupported("compare op")

    def contains(self, cont, item, n):
        if cont.k == "py":
            o = cont.r
            if isinstance(o, (list, tuple)):
                if not o:
                    return z3.BoolVal(False)
                return z3.Or(*[self.val_eq(x, item) for x in o])
            if isinstance(o, ObjDict):
                return self.obj_has(o.addr, self.as_str(item))
            raise Unsupported("in on python entity")
        tg = self.tag(cont)
        if cont.k == "str" or tg == "str":
            return z3.Contains(self.as_str(cont), self.as_str(item))
        items = self.concrete_items(cont)
        if items is not None:
            if not items:
                return z3.BoolVal(False)
            return z3.Or(*[self.val_eq(x, item) for x in items])
        h = base_hint(cont.hint)
        if h == "str":
            return z3.Contains(self.as_str(cont), self.as_str(item))
        if h in ("dict", "set"):
            return self.dict_has(self.as_addr(cont), self.to_val(item))
        if h == "list":
            return self.list_contains(cont, item)
        if h.startswith("obj:"):
            r = self.user_contains(cont, item, n)
            if r is not None:
                return r
        if cont.k == "val" and not h:
            # unknown container kind: a string (substring test) or an object; `x in <bool/int/None>` raises
            # TypeError: argument of type '...' is not iterable
            v = cont.r
            if not self.in_spec:
                self.require(z3.Or(Val.is_str(v), Val.is_ref(v)), "TypeError", "argument is not iterable")
            iv = self.to_val(item)
            f = z3.Function("obj_contains", core.IntS, Val, core.BoolS)
            return z3.If(Val.is_str(v), z3.And(Val.is_str(iv), z3.Contains(Val.s(v), Val.s(iv))),
                         f(Val.a(v), iv))
        raise Unsupported(f"'in' on value without container hint ({h!r}) line {getattr(n,'lineno','?')}")

    def user_contains(self, cont, item, n):
        """`x in obj` for an object of a class without a model: an uninterpreted
        predicate of (object, item) - pure, value unknown"""
        h = base_hint(cont.hint)
        if h.startswith("obj:"):
            m = self.find_method(h[4:], "__contains__")
            if m is not None:
                mi, cnode, fnode = m
                pf = PyFunc(fnode, None, mi, cnode.name + ".__contains__", bound_self=cont, cls=cnode.name)
                return self.truthy(self.call(py(pf, "func"), [item], {}, n, None))
        f = z3.Function("obj_contains", core.IntS, Val, core.BoolS)
        return f(self.as_addr(cont), self.to_val(item))

    def row_const(self, a, field="lelem"):
        """a fresh constant equal to the current row of list/dict `a` (rows that
        are ite/store terms cannot be used in quantifier patterns)"""
        r = z3.Select(self.heap.cur[field], a)
        c = core.fresh("row", r.sort())
        self.assume(c == r)
        return c

    def list_contains(self, lst, item):
        """membership in a symbolic list: a fresh Bool with a witness index for
        the positive case and a quantified fact for the negative case."""
        a = self.as_addr(lst)
        v = self.to_val(item)
        b = core.fresh("isin", core.BoolS)
        w = core.fresh("w", core.IntS)
        ln = self.hread("llen", (a,))
        self.assume(z3.Implies(b, z3.And(0 <= w, w < ln, self.hread("lelem", (a, w)) == v)))
        j = core.fresh("j", core.IntS)
        row = self.row_const(a)
        self.assume(z3.Implies(z3.Not(b), z3.ForAll([j], z3.Implies(z3.And(0 <= j, j < ln),
                    z3.Select(row, j) != v), patterns=[z3.Select(row, j)])))
        return b

    # ------------------------------------------------------------ attribute
    def ex_Attribute(self, n, frame):
        obj = self.eval(n.value, frame)
        return self.get_attr(obj, n.attr, n, frame)

    def get_attr(self, obj, name, n=None, frame=None):
        if obj.k == "py":
            o = obj.r
            if isinstance(o, PyModule):
                return self.module_attr(o, name)
            if isinstance(o, PyClass):
                return self.class_attr(o, name)
            if isinstance(o, SuperProxy):
                return self.super_attr(o, name)
            if isinstance(o, PyFunc):
                if name == "__doc__":
                    return tv_none()
                if name == "__name__":
                    return TV("str", z3.StringVal(o.node.name if hasattr(o.node, "name") else "<lambda>"))
            if isinstance(o, ObjDict) and name == "get":
                return py(("objdict.get", o), "objdictget")
            if isinstance(o, (list, tuple)):
                raise Unsupported("attribute of tuple")
            raise Unsupported(f"attribute {name} of {o!r}")
        if obj.k == "str" or self.tag(obj) == "str":
            return py(BoundBuiltin(obj, "str", name), "builtin")
        h = base_hint(obj.hint)
        if h == "str":  # 'str|none' after a None test
            return py(BoundBuiltin(obj, "str", name), "builtin")
        if h in ("list", "dict", "set"):
            return py(BoundBuiltin(obj, h, name), "builtin")
        if name == "__class__":
            a = self.as_addr(obj)
            if h.startswith("obj:") and str(obj.r) in self.exact_class:
                return py(self.pyclass(self.exact_class[str(obj.r)]), "class")
            c = cls_of(a)
            self.note_class_term(c)
            return TV("val", mk_ref(c), "class")
        if name == "__dict__":
            return py(ObjDict(self.as_addr(obj)), "objdict")
        if name == "__name__" and (h == "class" or h.startswith("class")):
            return TV("str", core.py_id_name(self.as_addr(obj)))
        if h.startswith("obj:"):
            m = self.find_method(h[4:], name)
            if m is not None:
                mi, cnode, fnode = m
                pf = PyFunc(fnode, None, mi, cnode.name + "." + fnode.name, bound_self=obj, cls=cnode.name)
                if any(isinstance(d, ast.Name) and d.id == "property" for d in fnode.decorator_list):
                    return self.call(py(pf, "func"), [], {}, n, frame)
                return py(pf, "func")
        return self.getattr_val(obj, z3.StringVal(name), name)

    def find_method(self, cls_name, meth):
        seen = set()
        todo = [cls_name]
        while todo:
            cn = todo.pop(0)
            if cn in seen:
                continue
            seen.add(cn)
            if cn in SCHEMAS and not any(cn in mi.classes for mi in self.world.modules.values()) \
                    and cn not in self.nested_classes():
                # a schema-only refinement of a real class (e.g. "a metamodel whose flags are known")
                todo.extend(b for b in SCHEMAS[cn].bases if b != "object")
                continue
            for mi in self.world.modules.values():
                cnode = mi.classes.get(cn)
                if cnode is None:
                    cnode = self.nested_classes().get(cn)
                    if cnode is None:
                        continue
                    mi2 = self.nested_class_mi[cn]
                else:
                    mi2 = mi
                for st in cnode.body:
                    if isinstance(st, ast.FunctionDef) and st.name == meth:
                        return mi2, cnode, st
                for b in cnode.bases:
                    if isinstance(b, ast.Name):
                        todo.append(b.id)
                    elif isinstance(b, ast.Attribute):
                        todo.append(b.attr)
                break
        return None

    def nested_classes(self):
        """classes defined inside functions (TextXModelParser, RREL, ...)"""
        if not hasattr(self.world, "_nested"):
            d = {}
            self.world._nested_mi = {}
            for mi in self.world.modules.values():
                for fn in ast.walk(mi.tree):
                    if isinstance(fn, ast.FunctionDef):
                        for st in fn.body:
                            if isinstance(st, ast.ClassDef):
                                d.setdefault(st.name, st)
                                self.world._nested_mi.setdefault(st.name, mi)
            self.world._nested = d
        self.nested_class_mi = self.world._nested_mi
        return self.world._nested

    def module_attr(self, mod, name):
        full = mod.name
        mi = self.world.modules.get(full)
        if mi is None:
            if full == "os" and name == "path":
                return py(PyModule("os.path"), "module")
            if full == "re" and name in ("IGNORECASE", "UNICODE", "VERBOSE"):
                return TV("int", z3.IntVal({"IGNORECASE": 2, "UNICODE": 32, "VERBOSE": 64}[name]))
            if name[:1].isupper():
                if name not in CLASSES.by_name:
                    CLASSES.declare(name, ("object",))
                return py(PyClass(name), "class")
            return py(Builtin(f"{full}.{name}"), "builtin")
        if name in self.global_names_of(mi) or name in mi.assigns:
            from .interp_stmt import module_addr

            a = z3.IntVal(module_addr(mi.modname))
            v = self.hread("fld", (a, z3.StringVal(name)))
            self.closed(v)
            return self.from_val(v)
        r = self.world.resolve_global(mi, name)
        if r is None:
            if full + "." + name in self.world.modules:
                return py(PyModule(full + "." + name), "module")
            raise Unsupported(f"module attribute {full}.{name}")
        return self.global_entity(r, name)

    def class_attr(self, cls, name):
        if name == "__name__":
            return TV("str", z3.StringVal(cls.name))
        if name == "__class__":
            return py(PyClass("type"), "class")
        m = self.find_method(cls.name, name)
        if m is not None:
            mi, cnode, fnode = m
            return py(PyFunc(fnode, None, mi, cnode.name + "." + fnode.name, cls=cnode.name), "func")
        if name == "__dict__":
            return py(ObjDict(z3.IntVal(cls.addr())), "objdict")
        a = z3.IntVal(cls.addr())
        v = self.hread("fld", (a, z3.StringVal(name)))
        self.closed(v)
        return self.from_val(v)

    def super_attr(self, sp, name):
        cnode = None
        for mi in self.world.modules.values():
            if sp.cls in mi.classes:
                cnode = mi.classes[sp.cls]
        if cnode is None:
            cnode = self.nested_classes().get(sp.cls)
        bases = []
        if cnode is not None:
            for b in cnode.bases:
                bases.append(b.id if isinstance(b, ast.Name) else getattr(b, "attr", None))
        for b in bases:
            m = self.find_method(b, name)
            if m is not None:
                mi, cn, fnode = m
                return py(PyFunc(fnode, None, mi, cn.name + "." + fnode.name, bound_self=sp.self_tv, cls=cn.name), "func")
        # builtin base: opaque
        return py(Builtin(f"super.{name}"), "builtin")

    # ------------------------------------------------------------ subscript
    def ex_Subscript(self, n, frame):
        obj = self.eval(n.value, frame)
        if isinstance(n.slice, ast.Slice):
            lo = self.eval(n.slice.lower, frame) if n.slice.lower is not None else None
            hi = self.eval(n.slice.upper, frame) if n.slice.upper is not None else None
            if n.slice.step is not None:
                raise Unsupported("slice step")
            return self.get_slice(obj, lo, hi, n)
        idx = self.eval(n.slice, frame)
        return self.get_item(obj, idx, n)

    def norm_index(self, i, length):
        i = z3.simplify(i)
        if z3.is_int_value(i):
            return i if i.as_long() >= 0 else z3.simplify(length + i)
        return z3.If(i >= 0, i, length + i)

    def get_item(self, obj, idx, n=None):
        if obj.k == "py":
            o = obj.r
            if isinstance(o, (list, tuple)):
                i = z3.simplify(self.as_int(idx))
                if z3.is_int_value(i):
                    k = i.as_long()
                    if -len(o) <= k < len(o):
                        return o[k]
                    raise self.implicit("IndexError", "tuple index")
                raise Unsupported("symbolic index into concrete tuple")
            if isinstance(o, dict):
                ks = z3.simplify(self.as_str(idx))
                if z3.is_string_value(ks) and ks.as_string() in o:
                    return o[ks.as_string()]
                if self.in_spec:
                    return TV("val", core.fresh("nokey", Val))  # total in clauses: an arbitrary value
                raise Unsupported("subscript of a python-side dict with unknown key")
            if isinstance(o, ObjDict):
                nm = self.as_str(idx)
                self.require(self.obj_has(o.addr, nm), "KeyError", "__dict__ key")
                v = self.hread("fld", (o.addr, nm))
                self.closed(v)
                return self.from_val(v)
            raise Unsupported("subscript of python entity")
        tg = self.tag(obj)
        if obj.k == "str" or tg == "str":
            s = self.as_str(obj)
            i = self.norm_index(self.as_int(idx), z3.Length(s))
            self.require(z3.And(i >= 0, i < z3.Length(s)), "IndexError", "string index")
            return TV("str", z3.simplify(z3.SubString(s, i, 1)))
        if tg in ("cons", "nil") or obj.hint == "tuple" or (
                self.in_spec and tg is None and not obj.hint and idx.k == "int"
                and z3.is_int_value(z3.simplify(idx.r)) and z3.simplify(idx.r).as_long() >= 0):
            items = self.concrete_items(obj)
            i = z3.simplify(self.as_int(idx))
            if items is not None and z3.is_int_value(i):
                k = i.as_long()
                if -len(items) <= k < len(items):
                    return items[k]
                raise self.implicit("IndexError", "tuple index")
            if z3.is_int_value(i) and i.as_long() >= 0:
                t = obj.r
                for _ in range(i.as_long()):
                    self.require(Val.is_cons(t), "IndexError", "tuple index")
                    t = Val.tl(t)
                self.require(Val.is_cons(t), "IndexError", "tuple index")
                v = z3.simplify(Val.hd(t))
                self.closed(v)
                return self.from_val(v)
            raise Unsupported("symbolic tuple index")
        h = base_hint(obj.hint)
        if h == "list" or self.is_listlike(obj):
            a = self.as_addr(obj)
            ln = self.hread("llen", (a,))
            i = self.norm_index(self.as_int(idx), ln)
            self.require(z3.And(i >= 0, i < ln), "IndexError", "list index")
            v = self.hread("lelem", (a, i))
            self.closed(v)
            return self.from_val(v, self.elem_hint(obj))
        if h == "dict":
            a = self.as_addr(obj)
            kv = self.to_val(idx)
            self.require(self.dict_has(a, kv), "KeyError", "dict key")
            v = self.hread("dval", (a, kv))
            self.closed(v)
            tv = self.from_val(v, self.elem_hint(obj))
            self.apply_hint_facts(tv)
            return tv
        if h.startswith("obj:"):
            r = self.user_getitem(obj, idx, n)
            if r is not None:
                return r
            if h[4:] in SCHEMAS and not self.in_spec:
                # an instance of a class whose shape is known and that has no __getitem__: Python raises
                # TypeError: '<Class>' object is not subscriptable
                raise self.implicit("TypeError", f"'{h[4:]}' object is not subscriptable")
        if obj.k == "val" and (not h or h == "obj") and not self.in_spec:
            # object of unknown class: its __getitem__ is an uninterpreted pure lookup
            g = z3.Function("obj_getitem", core.IntS, Val, Val)
            v = g(self.as_addr(obj), self.to_val(idx))
            self.closed(v)
            return self.from_val(v)
        if self.in_spec and obj.k == "val" and self.tag(obj) == "none":
            # None[...] inside a pure expression that is evaluated branch-free (`x is None or x[k]`): the
            # operand is never used when x is None; total in clauses: an arbitrary value
            return TV("val", core.fresh("nosub", Val))
        raise Unsupported(f"subscript on value without hint ({h!r}) line {getattr(n,'lineno','?')}")

    def user_getitem(self, obj, idx, n):
        m = self.find_method(obj.hint[4:], "__getitem__")
        if m is None:
            return None
        mi, cnode, fnode = m
        pf = PyFunc(fnode, None, mi, cnode.name + ".__getitem__", bound_self=obj, cls=cnode.name)
        return self.call(py(pf, "func"), [idx], {}, n, None)

    def is_listlike(self, tv):
        """a list, or an instance of a list subclass (Arpeggio's NonTerminal)"""
        h = base_hint(tv.hint)
        if h == "list":
            return True
        if h.startswith("obj:"):
            cn = h[4:]
            return cn in CLASSES.by_name and CLASSES.is_sub(cn, "list")
        return False

    def elem_hint(self, obj):
        if getattr(obj, "elem", None):
            return obj.elem
        return self.elem_hints.get(str(obj.r))

    def get_slice(self, obj, lo, hi, n):
        tg = self.tag(obj)
        if obj.k == "str" or tg == "str":
            s = self.as_str(obj)
            L = z3.Length(s)

            def clamp(x, default):
                if x is None:
                    return default
                i = z3.simplify(self.as_int(x))
                if z3.is_int_value(i):
                    k = i.as_long()
                    if k >= 0:
                        return z3.If(L < k, L, z3.IntVal(k))
                    return z3.If(L + k < 0, z3.IntVal(0), L + k)
                i2 = z3.If(i < 0, L + i, i)
                return z3.If(i2 < 0, 0, z3.If(i2 > L, L, i2))

            a = clamp(lo, z3.IntVal(0))
            b = clamp(hi, L)
            return TV("str", z3.simplify(z3.If(b > a, z3.SubString(s, a, b - a), z3.StringVal(""))))
        items = self.concrete_items(obj)
        if items is not None:
            def cidx(x):
                if x is None:
                    return None
                i = z3.simplify(self.as_int(x))
                if not z3.is_int_value(i):
                    raise Unsupported("symbolic slice of concrete sequence")
                return i.as_long()

            sub = items[cidx(lo):cidx(hi)]
            if obj.hint == "list":
                return self.new_list(sub)
            if obj.k == "py":
                return py(list(sub), obj.hint)
            return TV("val", core.mk_tuple([self.to_val(x) for x in sub]), "tuple")
        if obj.hint == "list":
            return self.list_slice(obj, lo, hi)
        raise Unsupported("slice of unknown kind")

    def list_slice(self, lst, lo, hi):
        a = self.as_addr(lst)
        ln = self.hread("llen", (a,))

        def norm(x, default):
            if x is None:
                return default
            i = self.as_int(x)
            i2 = z3.If(i < 0, ln + i, i)
            return z3.If(i2 < 0, 0, z3.If(i2 > ln, ln, i2))

        s = norm(lo, z3.IntVal(0))
        e = norm(hi, ln)
        b = self.alloc("list")
        newlen = z3.If(e > s, e - s, 0)
        rs = z3.ArraySort(core.IntS, Val)
        # the slice's contents are a FUNCTION of (source row, start): two
        # evaluations of the same slice denote the same row (extensionality for free)
        slice_row = z3.Function("slice_row", rs, core.IntS, rs)
        srcrow = z3.Select(self.heap.cur["lelem"], a)
        row = slice_row(srcrow, s)
        j = core.fresh("j", core.IntS)
        self.heap = self.heap.store("llen", (b,), newlen, bump=False)
        self.heap = self.heap.with_array("lelem", z3.Store(self.heap.cur["lelem"], b, row), bump=False)
        body = z3.Implies(z3.And(0 <= j, j < newlen), z3.Select(row, j) == z3.Select(srcrow, s + j))
        if contains_ite(row):
            self.assume(z3.ForAll([j], body))
        else:
            self.assume(z3.ForAll([j], body, patterns=[z3.Select(row, j)]))
        out = TV("val", mk_ref(b), "list")
        eh = self.elem_hint(lst)
        if eh:
            self.elem_hints[str(out.r)] = eh
        return out

    def list_concat(self, x, y):
        ix, iy = self.concrete_items(x), self.concrete_items(y)
        if ix is not None and iy is not None:
            return self.new_list(ix + iy)
        a, b = self.as_addr(x), self.as_addr(y)
        la, lb = self.hread("llen", (a,)), self.hread("llen", (b,))
        c = self.alloc("list")
        ra = self.row_const(a)
        rb = self.row_const(b)
        row = core.fresh("cat_row", z3.ArraySort(core.IntS, Val))
        j = core.fresh("j", core.IntS)
        self.heap = self.heap.store("llen", (c,), la + lb)
        self.heap = self.heap.with_array("lelem", z3.Store(self.heap.cur["lelem"], c, row))
        self.assume(z3.ForAll([j], z3.Implies(z3.And(0 <= j, j < la + lb),
                    z3.Select(row, j) == z3.If(j < la, z3.Select(ra, j), z3.Select(rb, j - la))),
                    patterns=[z3.Select(row, j)]))
        return TV("val", mk_ref(c), "list")

    def store_item(self, obj, idx, v):
        if obj.k == "py" and isinstance(obj.r, ObjDict):
            nm = self.as_str(idx)
            self.heap = self.heap.store("fld", (obj.r.addr, nm), self.to_val(v)).store(
                "has", (obj.r.addr, nm), z3.BoolVal(True))
            return
        h = base_hint(obj.hint)
        if h == "list" or self.is_listlike(obj):
            a = self.as_addr(obj)
            ln = self.hread("llen", (a,))
            i = self.norm_index(self.as_int(idx), ln)
            self.require(z3.And(i >= 0, i < ln), "IndexError", "list assignment index")
            self.heap = self.heap.store("lelem", (a, i), self.to_val(v))
            self.shape.pop(str(a), None)
            return
        if h in ("dict",):
            self.dict_set(obj, idx, v)
            self.shape.pop(str(self.as_addr(obj)), None)
            return
        if h.startswith("obj:"):
            m = self.find_method(h[4:], "__setitem__")
            if m is not None:
                mi, cnode, fnode = m
                pf = PyFunc(fnode, None, mi, cnode.name + ".__setitem__", bound_self=obj, cls=cnode.name)
                self.call(py(pf, "func"), [idx, v], {}, None, None)
                return
        raise Unsupported(f"item store on value without hint ({h!r})")

    def del_item(self, obj, idx):
        h = base_hint(obj.hint)
        if h == "dict":
            a = self.as_addr(obj)
            kv = self.to_val(idx)
            self.require(self.dict_has(a, kv), "KeyError", "del dict key")
            self.dict_remove(a, kv)
            return
        raise Unsupported("del item on " + h)

    def dict_remove(self, a, kv):
        n = self.hread("dklen", (a,))
        h = self.heap.store("dhas", (a, kv), z3.BoolVal(False))
        h = h.store("dklen", (a,), n - 1)
        # iteration order after a removal: fresh ghost order (not needed by any clause so far)
        h = h.with_array("dkey", z3.Store(h.cur["dkey"], a, core.fresh("dkey_row", z3.ArraySort(core.IntS, Val))))
        self.heap = h
        self.shape.pop(str(a), None)

    # ---------------------------------------------------------- shapes
    def concrete_items(self, tv):
        """python list of TVs when the sequence has a statically known shape"""
        if tv.k == "py" and isinstance(tv.r, (list, tuple)):
            return list(tv.r)
        if tv.k != "val":
            return None
        t = tv.r
        if z3.is_app(t):
            nm = t.decl().name()
            if nm == "nil":
                return []
            if nm == "cons":
                out = []
                while z3.is_app(t) and t.decl().name() == "cons":
                    out.append(self.from_val(t.arg(0)))
                    t = t.arg(1)
                if z3.is_app(t) and t.decl().name() == "nil":
                    return out
                return None
            if nm == "ref":
                sh = self.shape.get(str(z3.simplify(t.arg(0))))
                if sh is not None and sh[0] == "list":
                    return list(sh[1])
        return None

    def ex_Starred(self, n, frame):
        raise Unsupported("starred expression")

    def ex_ListComp(self, n, frame):
        return self.comprehension(n, frame, "list")

    def ex_GeneratorExp(self, n, frame):
        return self.comprehension(n, frame, "gen")

    def ex_SetComp(self, n, frame):
        return self.comprehension(n, frame, "set")

    def ex_DictComp(self, n, frame):
        return self.comprehension(n, frame, "dict")
