"""Loops (invariants / unrolling), contract application, comprehensions."""

from __future__ import annotations

import ast
import os

import z3

from . import core
from .contracts import BY_TARGET, Loop, named
from .core import CLASSES, NIL, NONE, Val, cls_of, fresh, mk_int, mk_ref, subclass
from .interp_stmt import assigned_names
from .symex import (
    TV, BreakSig, ContinueSig, Frame, Obligation, PathEnd, PyClass, PyFunc, PyRaise,
    ReturnSig, Unsupported, const_tv, py, tv_none,
)


def caller_visible(clauses, export=None):
    """clauses a caller may assume: those that speak about parameters, result and
    heap only - not about the callee's own trace of external calls"""
    out = []
    for cl in clauses:
        text = named(cl)[1]
        if export is not None and named(cl)[0] not in export:
            continue
        if any(w in text for w in ("ev(", "evn(", "n_calls(", "created_here(", "final_")):
            continue
        out.append(cl)
    return out


class LoopMixin:
    # ------------------------------------------------------------- helpers
    def loop_spec(self, node, frame):
        if self.unit is None:
            return None
        if isinstance(node, ast.For):
            key = "for:" + ast.unparse(node.iter)
        else:
            key = "while:" + ast.unparse(node.test)
        # '<key>#k': the k-th loop with that head text in the unit's target function (source order)
        sp = None
        if any(k.startswith(key + "#") for k in self.unit.loops):
            root = getattr(self, "root_func", None)
            same = []
            if root is not None:
                for nd in ast.walk(root.node):
                    if type(nd) is type(node) and (
                            ("for:" + ast.unparse(nd.iter)) if isinstance(nd, ast.For)
                            else ("while:" + ast.unparse(nd.test))) == key:
                        same.append(nd)
                same.sort(key=lambda x: (x.lineno, x.col_offset))
                for k, nd in enumerate(same):
                    if nd is node or (nd.lineno, nd.col_offset) == (node.lineno, node.col_offset):
                        sp = self.unit.loops.get(f"{key}#{k + 1}")
        if sp is None:
            sp = self.unit.loops.get(key)
        if sp is None:
            fq = frame.func.qual if frame.func is not None else ""
            sp = self.unit.loops.get(fq + "/" + key)
        if sp is None:
            # '<beginning of the head text>*': a long head (a comprehension) addressed by its beginning
            for k, v in self.unit.loops.items():
                if k.endswith("*") and key.startswith(k[:-1]):
                    return v
        return sp

    def iter_items(self, it):
        """concrete python list of TVs for an iterable of known shape"""
        if it.k == "py" and isinstance(it.r, tuple) and it.r and it.r[0] == "enumerate":
            inner = self.iter_items(it.r[1])
            if inner is None:
                return None
            return [py([const_tv(i), x], "ctuple") for i, x in enumerate(inner)]
        if it.k == "py" and isinstance(it.r, tuple) and it.r and it.r[0] == "range":
            lo, hi = z3.simplify(it.r[1]), z3.simplify(it.r[2])
            if z3.is_int_value(lo) and z3.is_int_value(hi):
                return [const_tv(i) for i in range(lo.as_long(), hi.as_long())]
            return None
        if it.k == "py" and isinstance(it.r, tuple) and it.r and it.r[0] == "dictview":
            _, what, d = it.r
            sh = self.shape.get(str(z3.simplify(self.as_addr(d))))
            if sh is not None and sh[0] == "dict":
                if what == "keys":
                    return [k for k, _ in sh[1]]
                if what == "values":
                    return [v for _, v in sh[1]]
                return [py([k, v], "ctuple") for k, v in sh[1]]
            return None
        if it.k == "val" and it.hint in ("dict", "set"):
            sh = self.shape.get(str(z3.simplify(self.as_addr(it))))
            if sh is not None and sh[0] == "dict":
                return [k for k, _ in sh[1]]
            return None
        return self.concrete_items(it)

    def bi_enumerate(self, args, kw, n, frame):
        return py(("enumerate", args[0]), "iter")

    def bi_range(self, args, kw, n, frame):
        if len(args) == 1:
            return py(("range", z3.IntVal(0), self.as_int(args[0])), "iter")
        return py(("range", self.as_int(args[0]), self.as_int(args[1])), "iter")

    def bi_iter(self, args, kw, n, frame):
        return args[0]

    # ---------------------------------------------------------------- for
    def exec_for(self, s, frame):
        it = self.eval(s.iter, frame)
        if it.k == "val" and (it.hint or "").startswith("obj:"):
            # iterating an instance of a class under /repo: its __iter__ decides
            m = self.find_method(it.hint[4:], "__iter__")
            if m is not None:
                mi, cnode, fnode = m
                pf = PyFunc(fnode, None, mi, cnode.name + ".__iter__", bound_self=it, cls=cnode.name)
                it = self.call(py(pf, "func"), [], {}, s.iter, frame)
        if it.k == "py" and isinstance(it.r, tuple) and it.r and it.r[0] == "enumerate" and not self.in_spec \
                and it.r[1].k == "val" and it.r[1].hint is None and self.tag(it.r[1]) is None:
            v = it.r[1].r
            self.require(z3.And(Val.is_ref(v), cls_of(Val.a(v)) == CLASSES.addr("list")), "TypeError",
                         f"iterating {ast.unparse(s.iter)}")
            it = py(("enumerate", TV("val", v, "list")), "iter")
        if it.k == "val" and it.hint is None and self.tag(it) is None and not self.in_spec:
            # a value of unknown type is iterated: it has to be a list (anything else that textX
            # iterates carries a type hint); a non-iterable raises TypeError (implicit exception)
            v = it.r
            self.require(z3.And(Val.is_ref(v), cls_of(Val.a(v)) == CLASSES.addr("list")), "TypeError",
                         f"iterating {ast.unparse(s.iter)}")
            it = TV("val", v, "list")
        items = self.iter_items(it)
        if items is not None:
            return self.unrolled_for(s, frame, items)
        sp = self.loop_spec(s, frame)
        if sp is None:
            bound = self.opts.get("unroll")
            if bound is None:
                raise Unsupported(f"loop without invariant: for {ast.unparse(s.iter)} (line {s.lineno})")
            return self.bounded_for(s, frame, it, bound)
        return self.invariant_for(s, frame, it, sp)

    def unrolled_for(self, s, frame, items):
        broke = False
        for x in items:
            self.assign(s.target, x, frame)
            try:
                self.exec_block(s.body, frame)
            except BreakSig:
                broke = True
                break
            except ContinueSig:
                continue
        if not broke:
            self.exec_block(s.orelse, frame)

    def seq_access(self, it):
        """(length term, element-getter(index term) -> TV) for a symbolic iterable"""
        if it.k == "val" and self.is_listlike(it):
            a = self.as_addr(it)
            eh = self.elem_hint(it)

            def get(i, _a=a, _eh=eh):
                v = self.hread("lelem", (_a, i))
                self.closed(v)
                tv = self.from_val(v, _eh)
                self.apply_hint_facts(tv)
                return tv

            return self.hread("llen", (a,)), get
        if it.k == "py" and isinstance(it.r, tuple) and it.r and it.r[0] == "enumerate":
            ln, g = self.seq_access(it.r[1])
            return ln, (lambda i, _g=g: py([TV("int", i), _g(i)], "ctuple"))
        if it.k == "py" and isinstance(it.r, tuple) and it.r and it.r[0] == "range":
            lo, hi = it.r[1], it.r[2]
            return z3.If(hi > lo, hi - lo, 0), (lambda i, _lo=lo: TV("int", _lo + i))
        if (it.k == "py" and isinstance(it.r, tuple) and it.r and it.r[0] == "dictview") or (
                it.k == "val" and it.hint in ("dict", "set")):
            if it.k == "py":
                _, what, d = it.r
            else:
                what, d = "keys", it
            a = self.as_addr(d)
            eh = self.elem_hint(d)

            def get(i, _a=a, _what=what, _eh=eh):
                k = self.hread("dkey", (_a, i))
                self.closed(k)
                self.assume(self.dict_has(_a, k))
                if _what == "keys":
                    return self.from_val(k, self.key_hints.get(str(d.r)))
                v = self.hread("dval", (_a, k))
                self.closed(v)
                vt = self.from_val(v, _eh)
                self.apply_hint_facts(vt)
                if _what == "values":
                    return vt
                return py([self.from_val(k, self.key_hints.get(str(d.r))), vt], "ctuple")

            return self.hread("dklen", (a,)), get
        raise Unsupported(f"iteration over value without sequence hint ({it.hint!r})")

    def bounded_for(self, s, frame, it, bound):
        ln, get = self.seq_access(it)
        self.bounded_used = True
        i = 0
        broke = False
        while True:
            more = self.decide(ln > i, f"for-unroll@{s.lineno}#{i}")
            if not more:
                break
            if i >= bound:
                raise PathEnd("unroll bound")
            self.assign(s.target, get(z3.IntVal(i)), frame)
            try:
                self.exec_block(s.body, frame)
            except BreakSig:
                broke = True
                break
            except ContinueSig:
                pass
            i += 1
        if not broke:
            self.exec_block(s.orelse, frame)

    def loop_env(self, frame, extra=None):
        env = {}
        fs = []
        f = frame
        while f is not None:
            fs.append(f)
            f = f.parent
        for f in reversed(fs):
            env.update(f.vars)
        for pn, pv in getattr(self, "entry_params", {}).items():
            env["entry_" + pn] = pv
        if extra:
            env.update(extra)
        return env

    def havoc_for_loop(self, sp, frame, body, env, label):
        """havoc what the loop may modify; returns snapshot before havoc"""
        before = self.heap
        N0 = self.next_addr
        mods = []
        for m in sp.modifies:
            if m != "*":
                mods.extend(self.eval_locs(m, env=env))
        if "*" in sp.modifies:
            # the body may modify anything (external calls) except the protected locations
            prot = []
            for m in getattr(sp, "protect", ()):
                prot.extend(self.eval_locs(m, env=env))

            def cond_all(field, idx, _prot=prot):
                cs = []
                for p in _prot:
                    c = self.loc_match(p, field, idx)
                    if c is not None:
                        cs.append(c)
                if not cs:
                    return None
                return z3.simplify(z3.Or(*cs))

            self.heap = self.heap.havoc(cond_all, tag=core.fresh_name("L"), preserves=sp.preserves)
            self.invalidate_shapes(cond_all)
            self.next_addr = fresh("N", core.IntS)
            self.assume(self.next_addr >= N0)
            self.loop_head_ver = dict(self.heap.ver)
            self._havoc_locals(sp, frame, body)
            return before

        def cond(field, idx, _mods=mods, _N0=N0):
            a = idx[0]
            cs = []
            for p in _mods:
                c = self.loc_match(p, field, idx)
                if c is not None:
                    cs.append(c)
            if field in core.NESTED and len(idx) == 1:
                # whole row unchanged only if no element-level modifies concerns it
                for p in _mods:
                    if p[0] == "attr" and field in ("fld", "has"):
                        return None
            untouched = z3.Not(z3.Or(*cs)) if cs else z3.BoolVal(True)
            return z3.simplify(z3.And(a < _N0, untouched))

        if not sp.pure:
            self.heap = self.heap.havoc(cond, tag=core.fresh_name("L"), preserves=sp.preserves)
            self.invalidate_shapes(cond)
            self.next_addr = fresh("N", core.IntS)
            self.assume(self.next_addr >= N0)
        self.loop_head_ver = dict(self.heap.ver)
        self._havoc_locals(sp, frame, body)
        return before

    def _havoc_locals(self, sp, frame, body):
        for name in sorted(assigned_names(body)):
            cur = frame.lookup(name)
            hint = (self.unit.locals or {}).get(name) or (cur.hint if cur is not None and cur.k != "py" else None)
            if cur is not None and cur.k == "py" and not isinstance(cur.r, (list, tuple)):
                continue  # function / class bindings are not loop-carried data
            v = fresh("lv_" + name, Val)
            tv = TV("val", v, hint)
            self.closed(v)
            self.apply_hint_facts(tv)
            self.bind(name, tv, frame)

    def check_loop_protect(self, sp, head_heap, env, label):
        """FRAME of a loop that may modify anything except `protect`: one iteration leaves each
        protected location unchanged (one arbitrary index per heap array)."""
        if not getattr(sp, "protect", None) or "*" not in sp.modifies:
            return
        h0, h1 = head_heap, self.heap
        saved = self.heap
        self.heap = h0
        try:
            locs = []
            for m in sp.protect:
                locs.extend(self.eval_locs(m, env=env))
        finally:
            self.heap = saved
        a = fresh("lp_a", core.IntS)
        for field, sort in core.HEAP_FIELDS.items():
            if h0.cur[field].get_id() == h1.cur[field].get_id():
                continue
            idx = (a, fresh("lp_k", sort.range().domain())) if field in core.NESTED else (a,)
            cs = [c for c in (self.loc_match(p, field, idx) for p in locs) if c is not None]
            if not cs:
                continue
            facts = []
            v1 = h1.read(field, idx, facts)
            v0 = h0.read(field, idx, facts)
            goal = z3.Implies(z3.And(z3.Or(*cs), a < self.next_addr, *facts), v1 == v0)
            self.oblige("INV-PRES", f"{label}.protect.{field}", goal,
                        f"one iteration leaves {sp.protect} unchanged ({field})", None)

    def check_pure(self, sp, head_heap, label):
        if not sp.pure:
            return
        for f in core.HEAP_FIELDS:
            if self.heap.cur[f].get_id() != head_heap.cur[f].get_id():
                raise Unsupported(f"loop {label} is declared pure but its body writes heap array {f}")

    def check_preserved(self, names, ver0, kind, label):
        """the footprints listed as preserved were never written on this path"""
        for nm in names:
            if nm in ver0:
                self.oblige(kind, f"{label}.preserves[{nm}]", self.heap.version(nm) == ver0[nm],
                            f"no write to footprint {nm!r}", None)

    def check_clauses(self, clauses, env, kind, label, old_heap=None, extra=None):
        self.debug_env = env  # (development aid, see TXVC_DEBUG_EVAL)
        for i, cl in enumerate(clauses):
            lab, text, prop = named(cl)
            t, side = self.spec(text, env, old_heap=old_heap, extra=extra)
            self.assume_all(side)
            self.oblige(kind, f"{label}.{lab or i}", t, text, prop)
        self.debug_env = None

    def assume_clauses(self, clauses, env, old_heap=None, extra=None):
        self.spec_mode = "assume"
        try:
            for cl in clauses:
                lab, text, prop = named(cl)
                t, side = self.spec(text, env, old_heap=old_heap, extra=extra)
                self.assume_all(side)
                self.assume(t)
        finally:
            self.spec_mode = "prove"

    def invariant_for(self, s, frame, it, sp):
        label = "for:" + ast.unparse(s.iter)
        ln, get = self.seq_access(it)
        idx = sp.index
        loop_entry_heap = self.heap
        extra = {"loop_entry": loop_entry_heap}
        env0 = self.loop_env(frame, {idx: TV("int", z3.IntVal(0)), "_it": it})
        self.check_clauses(sp.inv, env0, "INV-INIT", label, extra=extra)
        trace_mark = len(self.trace)
        self.havoc_for_loop(sp, frame, s.body + [ast.Assign(targets=[s.target], value=ast.Constant(None))], env0, label)
        head_ver = dict(self.heap.ver)
        head_heap = self.heap
        ln2, get = self.seq_access(it)  # re-read after havoc (frame facts relate them)
        i = fresh(idx.strip("_") or "i", core.IntS)
        self.assume(i >= 0)
        body_unit = getattr(sp, "body_unit", None)
        if body_unit and not getattr(sp, "step", False):
            # the body is verified as a region unit of its own; here only the exit is
            # explored (no invariant depends on the step: Loop(step=False))
            d = 1
            self.assume(i == ln2)
        else:
            d = self.choose(2, [i < ln2, i == ln2], f"loop:{label}")
        env = self.loop_env(frame, {idx: TV("int", i), "_it": it})
        self.assume_clauses(sp.inv, env, extra=extra)
        if d == 0 and body_unit:
            # INV-PRES through the CONTRACT of the body's region unit: its requires are CALL
            # obligations here (so they are established, not assumed), its ensures are the
            # only facts about one iteration
            from .contracts import REGISTRY

            self.assign(s.target, get(i), frame)
            self.apply_region(REGISTRY[body_unit], frame, s.body, label)
            env2 = self.loop_env(frame, {idx: TV("int", i + 1), "_it": it})
            self.check_clauses(sp.inv, env2, "INV-PRES", label, extra=extra)
            raise PathEnd("loop body done")
        if d == 0:
            self.assign(s.target, get(i), frame)
            self.iter_trace_mark = len(self.trace)
            outcome = "next"
            try:
                self.exec_block(s.body, frame)
            except ContinueSig:
                pass
            except BreakSig:
                outcome = "break"
            if outcome == "next":
                env2 = self.loop_env(frame, {idx: TV("int", i + 1), "_it": it})
                self.check_clauses(sp.inv, env2, "INV-PRES", label, extra=extra)
                self.check_preserved(sp.preserves, head_ver, "INV-PRES", label)
                self.check_pure(sp, head_heap, label)
                self.check_loop_protect(sp, head_heap, env, label)
                raise PathEnd("loop body done")
            return  # break: skip else
        self.exec_block(s.orelse, frame)

    def apply_region(self, bu, frame, body, label):
        """One execution of a statement region, replaced by the contract of its region unit."""
        env = self.loop_env(frame)
        line = getattr(body[0], "lineno", 0) if body else 0
        for pname, pt in bu.params.items():
            if pname not in env:
                # Python itself raises UnboundLocalError when the region reads the variable
                raise self.implicit("UnboundLocalError", f"{pname} (parameter of region unit {bu.name}) at {label}")
            tv = env[pname]
            if tv.k == "val" and tv.hint is None and pt != "any":
                env[pname] = TV("val", tv.r, pt if "|" not in pt else None)
        for i, cl in enumerate(bu.requires):
            lab, text, prop = named(cl)
            t, side = self.spec(text, env, old_heap=self.heap)
            self.assume_all(side)
            self.oblige("CALL", f"{bu.name}.pre.{lab or i}@{line}", t, text, prop)
        old = self.heap
        N0 = self.next_addr
        prot = []
        for m in bu.protects:
            prot.extend(self.eval_locs(m, env=env))
        if self.unit is not None and self.unit is not bu:
            # locations the calling unit assumes no code it calls touches (listed as an assumption)
            for m in self.unit.ext_protect:
                try:
                    prot.extend(self.eval_locs(m))
                except Unsupported as e:
                    if "unresolved name" not in str(e):
                        raise
        if bu.modifies is not None and "*" not in bu.modifies:
            mods = []
            for m in bu.modifies:
                mods.extend(self.eval_locs(m, env=env))

            def cond(field, idx, _mods=mods, _N0=N0):
                cs = [c for c in (self.loc_match(p, field, idx) for p in _mods) if c is not None]
                if field in core.NESTED and len(idx) == 1:
                    for p in _mods:
                        if p[0] == "attr" and field in ("fld", "has"):
                            return None
                untouched = z3.Not(z3.Or(*cs)) if cs else z3.BoolVal(True)
                return z3.simplify(z3.And(idx[0] < _N0, untouched))
        else:
            # the region may modify anything (also what this activation allocated) but `protects`
            def cond(field, idx, _prot=prot):
                cs = [c for c in (self.loc_match(p, field, idx) for p in _prot) if c is not None]
                return z3.simplify(z3.Or(*cs)) if cs else None
        self.heap = self.heap.havoc(cond, tag=core.fresh_name("R"), preserves=bu.preserves)
        self.invalidate_shapes(cond)
        self.next_addr = fresh("N", core.IntS)
        self.assume(self.next_addr >= N0)
        env2 = dict(env)
        newvals = {}
        for name in sorted(assigned_names(body)):
            cur = frame.lookup(name)
            if cur is not None and cur.k == "py" and not isinstance(cur.r, (list, tuple)):
                continue
            hint = (bu.locals or {}).get(name) or bu.params.get(name)
            if hint in (None, "any"):
                hint = cur.hint if cur is not None and cur.k != "py" else None
            v = fresh("rv_" + name, Val)
            tv = TV("val", v, hint if hint and "|" not in hint else None)
            self.closed(v)
            self.apply_hint_facts(tv)
            newvals[name] = tv
        for k, v in env.items():
            env2["final_" + k] = newvals.get(k, v)
        for k, v in newvals.items():
            env2.setdefault("final_" + k, v)

        def visible(clauses):
            out = []
            for cl in clauses:
                text = named(cl)[1]
                if any(w in text for w in ("ev(", "evn(", "n_calls(", "created_here(", "evpos(")):
                    continue  # speaks about the region's own trace of calls
                out.append(cl)
            return out

        keys = list(bu.raises.keys())
        d = self.choose(1 + len(keys), [None] * (1 + len(keys)), f"region:{bu.name}@{line}") if keys else 0
        if d == 0:
            self.assume_clauses(visible(bu.ensures), env2, old_heap=old)
            self.trace.append({"name": "region:" + bu.name, "args": dict(env), "result": NONE,
                               "heap_before": old, "heap_after": self.heap, "line": line})
            for k, v in newvals.items():
                self.bind(k, v, frame)
            return
        k = keys[d - 1]
        e = fresh("e_" + bu.name.replace(".", "_"), core.IntS)
        self.assume(z3.And(e >= 0, e < self.next_addr))
        c = cls_of(e)
        self.note_class_term(c)
        hint = "obj"
        if k != "*":
            if k not in CLASSES.by_name:
                CLASSES.declare(k, ("Exception",))
            self.assume(subclass(c, CLASSES.addr(k)))
            hint = "obj:" + k
        else:
            self.assume(subclass(c, CLASSES.addr("BaseException")))
        etv = TV("val", mk_ref(e), hint)
        env2["exc"] = etv
        self.assume_clauses(visible(bu.raises[k]), env2, old_heap=old)
        self.trace.append({"name": "region:" + bu.name, "args": dict(env), "exc": etv.r,
                           "heap_before": old, "heap_after": self.heap, "line": line})
        raise PyRaise(etv, known_cls=None, origin=f"region:{bu.name}")

    # -------------------------------------------------------------- while
    def exec_while(self, s, frame):
        sp = self.loop_spec(s, frame)
        if sp is None:
            bound = self.opts.get("unroll")
            if bound is None:
                raise Unsupported(f"loop without invariant: while {ast.unparse(s.test)} (line {s.lineno})")
            self.bounded_used = True
            k = 0
            while True:
                c = self.eval(s.test, frame)
                if not self.decide(self.truthy(c), f"while@{s.lineno}#{k}"):
                    self.exec_block(s.orelse, frame)
                    return
                if k >= bound:
                    raise PathEnd("unroll bound")
                try:
                    self.exec_block(s.body, frame)
                except BreakSig:
                    return
                except ContinueSig:
                    pass
                k += 1
        label = "while:" + ast.unparse(s.test)
        extra = {"loop_entry": self.heap}
        env0 = self.loop_env(frame)
        self.check_clauses(sp.inv, env0, "INV-INIT", label, extra=extra)
        self.havoc_for_loop(sp, frame, s.body, env0, label)
        head_ver = dict(self.heap.ver)
        head_heap = self.heap
        env = self.loop_env(frame)
        self.assume_clauses(sp.inv, env, extra=extra)
        var0 = None
        if sp.variant:
            from .spec import SpecEval

            var0 = SpecEval(self, env, self.entry_heap, self.heap, extra).int_expr(sp.variant)
        c = self.eval(s.test, frame)
        if self.decide(self.truthy(c), f"loop:{label}"):
            outcome = "next"
            try:
                self.exec_block(s.body, frame)
            except ContinueSig:
                pass
            except BreakSig:
                outcome = "break"
            if outcome == "next":
                env2 = self.loop_env(frame)
                self.check_clauses(sp.inv, env2, "INV-PRES", label, extra=extra)
                self.check_preserved(sp.preserves, head_ver, "INV-PRES", label)
                self.check_pure(sp, head_heap, label)
                self.check_loop_protect(sp, head_heap, env, label)
                if var0 is not None:
                    from .spec import SpecEval

                    v1 = SpecEval(self, env2, self.entry_heap, self.heap, extra).int_expr(sp.variant)
                    # the variant has to decrease (and be bounded below) whenever ANOTHER iteration
                    # follows, i.e. when the loop test holds again in the state after the body
                    again = self.truthy(self.eval(s.test, frame))
                    self.oblige("VAR", label, z3.Implies(again, z3.And(v1 < var0, var0 >= 0)),
                                "another iteration => variant " + sp.variant + " decreased and was >= 0", None)
                raise PathEnd("loop body done")
            return
        self.exec_block(s.orelse, frame)

    # -------------------------------------------------------- obligations
    def oblige(self, kind, label, goal, text, prop=None, where=None):
        only = self.opts.get("prop")
        if only is not None and prop is not None and only not in prop.split("|"):
            return None  # clause of another property served by this unit: decided by that check
        ob = Obligation(self.unit.name if self.unit else "?", kind, label,
                        prop,
                        list(self.pc), goal, list(self.branch_log), text=text,
                        where=where or f"line {getattr(self, 'cur_line', 0)}")
        self.solve(ob)
        self.obligs.append(ob)
        if ob.result == "refuted" and os.environ.get("TXVC_DEBUG_EVAL") and getattr(self, "_last_model", None) is not None \
                and kind != "CANARY" and (not ob.reason or os.environ.get("TXVC_DEBUG_WEAK")):
            # development aid: values of spec expressions in the counter-model
            env = dict(getattr(self, "debug_env", None) or self.spec_env_default())
            print(f"[debug] {kind}:{label} refuted on path {self.branch_log}")
            for text_ in os.environ["TXVC_DEBUG_EVAL"].split(";;"):
                try:
                    from .spec import SpecEval

                    tv_ = SpecEval(self, env, self.entry_heap, self.heap, {}).expr(text_)
                    r_ = tv_.r
                    print(f"[debug]   {text_} = {self._last_model.eval(r_, model_completion=True) if hasattr(r_, 'sort') else r_}")
                except Exception as e_:  # noqa: BLE001
                    print(f"[debug]   {text_}: {type(e_).__name__}: {e_}")
            if os.environ.get("TXVC_DEBUG_STOP"):
                os._exit(7)
        # after an obligation has been checked it may be used as a fact
        self.assume(goal)
        return ob

    # ---------------------------------------------------- contract calls
    def apply_contract(self, unit, args, kwargs, n, self_tv=None, recursive=False):
        mi, fnode, chain = self.world.locate(unit.target)
        fr = Frame()
        pf = PyFunc(fnode, None, mi, unit.target.split("::")[1])
        fr.func = pf
        if isinstance(fnode, ast.Lambda):
            params = [a.arg for a in fnode.args.args]
            vals = dict(zip(params, args))
        else:
            vals = self.bind_params(fnode, args, kwargs, self_tv, fr, mi)
        for name, tv in list(vals.items()):
            t = unit.params.get(name)
            if t and tv.k == "val" and tv.hint is None and t != "any":
                vals[name] = TV("val", tv.r, t if "|" not in t else None)
        env = dict(vals)
        line = getattr(n, "lineno", 0)
        # captured variables of a nested callee are the caller's variables
        for cname in unit.captured:
            if cname not in env:
                try:
                    env[cname] = self.lookup(cname, self.cur_frame)
                except Unsupported:
                    pass
        if self.in_spec:
            # a pure function under contract used inside a clause: its result is a
            # function of the arguments (and of the heap snapshot the clause looks
            # at); its caller-visible postconditions are facts about that value
            if unit.modifies is not None:
                raise Unsupported(f"call of {unit.name} in a clause: only pure contract functions are allowed")
            names = [k for k in vals]
            raws = [self.to_val(vals[k]) if not (vals[k].k == "py" and not isinstance(
                vals[k].r, (PyFunc, PyClass, list, tuple))) else NONE for k in names]
            vers = [self.heap.version(nm) for nm in sorted(self.heap.ver)]
            f = z3.Function("pure_" + unit.name.replace(".", "_"),
                            *[x.sort() for x in vers], *[Val for _ in raws], Val)
            r = f(*vers, *raws)
            rt = unit.returns
            tv = TV("val", r, rt if rt and rt != "any" else None)
            if rt and rt != "any":
                self.spec_side.append(self.type_fact(r, rt))
            env2 = dict(env)
            env2["result"] = tv
            from .spec import SpecEval

            for cl in caller_visible(unit.ensures):
                text = named(cl)[1]
                sub = SpecEval(self, env2, self.heap, self.heap, {})
                saved = self.spec_mode if hasattr(self, "spec_mode") else "prove"
                self.spec_mode = "assume"
                try:
                    fr2 = Frame()
                    fr2.vars.update(env2)
                    fr2.func = getattr(self, "root_func", None)
                    from .spec import parse_expr

                    self.spec_side.append(self.truthy(self.eval(parse_expr(text), fr2)))
                finally:
                    self.spec_mode = saved
            return tv
        for i, cl in enumerate(unit.requires):
            lab, text, prop = named(cl)
            t, side = self.spec(text, env, old_heap=self.heap)
            self.assume_all(side)
            self.oblige("CALL", f"{unit.name}.pre.{lab or i}@{line}", t, text, prop)
        old = self.heap
        if unit.modifies is not None and "*" in unit.modifies:
            # the callee runs arbitrary external code: same frame as an external
            # call (objects allocated by this activation are untouched, A-EXT-LOCAL)
            prot = []
            for m in unit.protects:
                prot.extend(self.eval_locs(m, env=env))
            if self.unit is not None and self.unit is not unit:
                # locations the calling unit assumes no callee touches (listed as an assumption)
                for m in self.unit.ext_protect:
                    prot.extend(self.eval_locs(m))
            self.havoc_heap(prot, None, {"preserves": tuple(unit.preserves)}, tag="C")
        elif unit.modifies is not None:
            mods = []
            for m in unit.modifies:
                if m == "*":
                    mods.append(("pred", lambda f, idx: z3.BoolVal(True)))
                else:
                    mods.extend(self.eval_locs(m, env=env))
            N0 = self.next_addr

            def cond(field, idx, _mods=mods, _N0=N0):
                cs = []
                for p in _mods:
                    c = self.loc_match(p, field, idx)
                    if c is not None:
                        cs.append(c)
                if field in core.NESTED and len(idx) == 1:
                    for p in _mods:
                        if p[0] in ("attr", "pred") and (p[0] == "pred" or field in ("fld", "has")):
                            return None
                untouched = z3.Not(z3.Or(*cs)) if cs else z3.BoolVal(True)
                return z3.simplify(z3.And(idx[0] < _N0, untouched))

            self.heap = self.heap.havoc(cond, tag=core.fresh_name("C"), preserves=unit.preserves)
            self.invalidate_shapes(cond)
            self.next_addr = fresh("N", core.IntS)
            self.assume(self.next_addr >= N0)
        keys = list(unit.raises.keys())
        d = self.choose(1 + len(keys), [None] * (1 + len(keys)), f"call:{unit.name}@{line}") if keys else 0
        if d == 0:
            rt = unit.returns
            if unit.returns_keys:
                pairs = [(const_tv(k), TV("val", fresh("rk_" + k, Val))) for k in unit.returns_keys]
                for _, pv in pairs:
                    self.closed(pv.r)
                tv = self.new_dict(pairs)
                _a = self.as_addr(tv)
                self.shape[str(z3.simplify(_a))] = ("dict", pairs, _a)
                r = tv.r
            else:
                r = fresh("r_" + unit.name.replace(".", "_"), Val)
                tv = TV("val", r, rt if rt and rt != "any" else None)
                self.closed(r)
                if rt and rt != "any":
                    self.assume(self.type_fact(r, rt))
            env2 = dict(env)
            env2["result"] = tv
            self.assume_clauses(caller_visible(unit.ensures, unit.export), env2, old_heap=old)
            self.trace.append({"name": "call:" + unit.name, "args": dict(env), "result": r,
                               "heap_before": old, "heap_after": self.heap, "line": line})
            return tv
        k = keys[d - 1]
        e = fresh("e_" + unit.name.replace(".", "_"), core.IntS)
        self.assume(z3.And(e >= 0, e < self.next_addr))
        c = cls_of(e)
        self.note_class_term(c)
        hint = "obj"
        if k != "*":
            if k not in CLASSES.by_name:
                CLASSES.declare(k, ("Exception",))
            self.assume(subclass(c, CLASSES.addr(k)))
            hint = "obj:" + k
        else:
            self.assume(subclass(c, CLASSES.addr("BaseException")))
        etv = TV("val", mk_ref(e), hint)
        env2 = dict(env)
        env2["exc"] = etv
        self.assume_clauses(caller_visible(unit.raises[k], unit.export), env2, old_heap=old)
        self.trace.append({"name": "call:" + unit.name, "args": dict(env), "exc": etv.r,
                           "heap_before": old, "heap_after": self.heap, "line": line})
        raise PyRaise(etv, known_cls=None, origin=f"call:{unit.name}")

    # ------------------------------------------------------ comprehensions
    def comprehension(self, n, frame, kind):
        if len(n.generators) != 1:
            raise Unsupported("nested comprehension")
        g = n.generators[0]
        it = self.eval(g.iter, frame)
        items = self.iter_items(it)
        if items is None:
            return self.symbolic_comprehension(n, frame, kind, it)
        fr = Frame(parent=frame, func=frame.func)
        out = []
        for x in items:
            self.assign(g.target, x, fr)
            ok = True
            for c in g.ifs:
                if not self.decide(self.truthy(self.eval(c, fr)), f"comp-if@{n.lineno}"):
                    ok = False
                    break
            if ok:
                if kind == "dict":
                    out.append((self.eval(n.key, fr), self.eval(n.value, fr)))
                else:
                    out.append(self.eval(n.elt, fr))
        if kind == "list":
            return self.new_list(out)
        if kind == "gen":
            return py(list(out), "clist")
        if kind == "set":
            return self.new_dict([(x, tv_none()) for x in out], kind="set")
        return self.new_dict(out)

    def _pure_on(self, frame, target, value_tv, exprs):
        """evaluate pure expressions with `target` bound to value_tv (spec mode);
        returns ([TV], side facts)"""
        fr = Frame(parent=frame, func=frame.func)
        self.in_spec += 1
        saved = self.spec_side
        self.spec_side = []
        try:
            self.assign(target, value_tv, fr)
            out = [self.eval(e, fr) for e in exprs]
            side = list(self.spec_side)
        finally:
            self.spec_side = saved
            self.in_spec -= 1
        return out, side

    def symbolic_comprehension(self, n, frame, kind, it):
        """comprehensions over a symbolic list / dict whose element and filter
        expressions are pure; the result is a fresh container defined by
        quantified facts (assumption A-COMP-PURE: no side effects, no exceptions)"""
        g = n.generators[0]
        line = getattr(n, "lineno", 0)
        is_items = it.k == "py" and isinstance(it.r, tuple) and it.r[:2] == ("dictview", "items")
        if kind == "dict" and is_items:
            # {k: f(k, v) for k, v in D.items() if c(k, v)} with the key kept
            if not (isinstance(g.target, ast.Tuple) and isinstance(n.key, ast.Name)
                    and isinstance(g.target.elts[0], ast.Name) and g.target.elts[0].id == n.key.id):
                raise Unsupported(f"dict comprehension that renames keys (line {line})")
            D = self.as_addr(it.r[2])
            kq = fresh("ck", Val)
            vq = z3.Select(z3.Select(self.heap.cur["dval"], D), kq)
            pair = py([TV("val", kq), TV("val", vq, self.elem_hint(it.r[2]))], "ctuple")
            (outs, side) = self._pure_on(frame, g.target, pair, [n.value] + list(g.ifs))
            val = self.to_val(outs[0])
            cond = z3.And(*[self.truthy(c) for c in outs[1:]]) if len(outs) > 1 else z3.BoolVal(True)
            R = self.alloc("dict")
            hasrow = fresh("ch_row", z3.ArraySort(Val, core.BoolS))
            valrow = fresh("cv_row", z3.ArraySort(Val, Val))
            h = self.heap.with_array("dhas", z3.Store(self.heap.cur["dhas"], R, hasrow), bump=False)
            h = h.with_array("dval", z3.Store(h.cur["dval"], R, valrow), bump=False)
            h = h.store("dklen", (R,), fresh("clen", core.IntS), bump=False)
            self.heap = h
            srchas = z3.Select(z3.Select(self.heap.cur["dhas"], D), kq)
            self.assume(z3.ForAll([kq], z3.And(
                *side,
                z3.Select(hasrow, kq) == z3.And(srchas, cond),
                z3.Implies(z3.Select(hasrow, kq), z3.Select(valrow, kq) == val))))
            return TV("val", mk_ref(R), "dict")
        if kind == "gen" and not g.ifs and it.k == "val" and self.is_listlike(it) and isinstance(g.target, ast.Name) \
                and isinstance(n.elt, ast.Call) and isinstance(n.elt.func, ast.Name) and n.elt.func.id == "str" \
                and len(n.elt.args) == 1 and isinstance(n.elt.args[0], ast.Name) and n.elt.args[0].id == g.target.id:
            # (str(x) for x in L) == map(str, L)
            from .symex import Builtin

            return py(("map", py(Builtin("str"), "builtin"), it), "iter")
        if kind == "list" and g.ifs and it.k == "val" and self.is_listlike(it) and isinstance(n.elt, ast.Name) \
                and isinstance(g.target, ast.Name) and n.elt.id == g.target.id:
            # [x for x in L if c(x)] == list(filter(lambda x: c(x), L))
            test = g.ifs[0] if len(g.ifs) == 1 else ast.BoolOp(op=ast.And(), values=list(g.ifs))
            lam = ast.Lambda(args=ast.arguments(posonlyargs=[], args=[ast.arg(arg=g.target.id)], kwonlyargs=[],
                                                kw_defaults=[], defaults=[]), body=test)
            ast.copy_location(lam, n)
            ast.fix_missing_locations(lam)
            fn = py(PyFunc(lam, frame, self.frame_mi(frame), "<comprehension filter>"), "func")
            return self.filter_to_list(fn, it, n, frame)
        if kind == "gen" and g.ifs and it.k == "val" and self.is_listlike(it) and isinstance(n.elt, ast.Name) \
                and isinstance(g.target, ast.Name) and n.elt.id == g.target.id:
            # (x for x in L if c(x)): kept lazy; next(...) takes the first element satisfying c
            return py(("lazygen", n, frame, it), "iter")
        if kind == "list" and it.k == "py" and type(it.r).__name__ == "ObjDict" and isinstance(n.elt, ast.Name) \
                and isinstance(g.target, ast.Name) and n.elt.id == g.target.id:
            # [a for a in obj.__dict__ if c(a)]: the names of the object's own attributes that satisfy the
            # (pure, A-COMP-PURE) condition, each once, in an unspecified but fixed order.  Skolem functions
            # keyf : positions -> names (injective) and posf : names -> positions.
            O = it.r.addr
            R = self.alloc("list")
            row = fresh("ocomp_row", z3.ArraySort(core.IntS, Val))
            rlen = fresh("ocomp_len", core.IntS)
            self.heap = self.heap.store("llen", (R,), rlen, bump=False)
            self.heap = self.heap.with_array("lelem", z3.Store(self.heap.cur["lelem"], R, row), bump=False)
            keyf = z3.Function(core.fresh_name("ocomp_key"), core.IntS, core.StrS)
            posf = z3.Function(core.fresh_name("ocomp_pos"), core.StrS, core.IntS)
            hasrow = fresh("ocomp_has", z3.ArraySort(core.StrS, core.BoolS))
            self.assume(hasrow == z3.Select(self.heap.cur["has"], O))
            q = fresh("oq", core.IntS)
            kq = fresh("ok", core.StrS)

            def cond_at(name_term):
                (outs, side) = self._pure_on(frame, g.target, TV("str", name_term), list(g.ifs))
                c = z3.And(*[self.truthy(x) for x in outs]) if outs else z3.BoolVal(True)
                return c, side

            c1, s1 = cond_at(keyf(q))
            self.assume(rlen >= 0)
            self.assume(z3.ForAll([q], z3.Implies(z3.And(0 <= q, q < rlen), z3.And(
                *s1, z3.Select(hasrow, keyf(q)), c1, z3.Select(row, q) == core.mk_str(keyf(q)), posf(keyf(q)) == q)),
                patterns=[keyf(q), z3.Select(row, q)]))
            c2, s2 = cond_at(kq)
            self.assume(z3.ForAll([kq], z3.Implies(z3.And(z3.Select(hasrow, kq), *s2, c2), z3.And(
                0 <= posf(kq), posf(kq) < rlen, keyf(posf(kq)) == kq, z3.Select(row, posf(kq)) == core.mk_str(kq))),
                patterns=[posf(kq), z3.Select(hasrow, kq)]))
            tv = TV("val", mk_ref(R), "list")
            self.elem_hints[str(tv.r)] = "str"
            return tv
        if kind == "list" and is_items:
            # [e(k, v) for k, v in D.items() if c(k, v)]: a fresh list with one element per selected
            # key.  Skolem functions keyf : positions -> keys (injective) and posf : keys -> positions.
            D0 = self.as_addr(it.r[2])
            D = fresh("dcomp_D", core.IntS)  # a name for the dict's address: usable in patterns
            self.assume(D == D0)
            R = self.alloc("list")
            row = fresh("dcomp_row", z3.ArraySort(core.IntS, Val))
            rlen = fresh("dcomp_len", core.IntS)
            self.heap = self.heap.store("llen", (R,), rlen, bump=False)
            self.heap = self.heap.with_array("lelem", z3.Store(self.heap.cur["lelem"], R, row), bump=False)
            keyf = z3.Function(core.fresh_name("dcomp_key"), core.IntS, Val)
            posf = z3.Function(core.fresh_name("dcomp_pos"), Val, core.IntS)
            hasrow = fresh("dcomp_has", z3.ArraySort(Val, core.BoolS))
            valrow = fresh("dcomp_val", z3.ArraySort(Val, Val))
            self.assume(hasrow == z3.Select(self.heap.cur["dhas"], D))
            self.assume(valrow == z3.Select(self.heap.cur["dval"], D))
            q = fresh("dq", core.IntS)
            kq = fresh("dk", Val)

            def at_key(kterm):
                pair = py([TV("val", kterm, self.key_hints.get(str(it.r[2].r))),
                           TV("val", z3.Select(valrow, kterm), self.elem_hint(it.r[2]))], "ctuple")
                (outs, side) = self._pure_on(frame, g.target, pair, [n.elt] + list(g.ifs))
                cond = z3.And(*[self.truthy(c) for c in outs[1:]]) if len(outs) > 1 else z3.BoolVal(True)
                return self.to_val(outs[0]), cond, side

            e1, c1, s1 = at_key(keyf(q))
            self.assume(rlen >= 0)
            self.assume(z3.ForAll([q], z3.Implies(z3.And(0 <= q, q < rlen), z3.And(
                *s1, z3.Select(hasrow, keyf(q)), c1, z3.Select(row, q) == e1, posf(keyf(q)) == q)),
                patterns=[keyf(q), z3.Select(row, q)]))
            e2, c2, s2 = at_key(kq)
            body2 = z3.Implies(z3.And(z3.Select(hasrow, kq), *s2, c2), z3.And(
                0 <= posf(kq), posf(kq) < rlen, keyf(posf(kq)) == kq, z3.Select(row, posf(kq)) == e2))
            try:
                self.assume(z3.ForAll([kq], body2, patterns=[posf(kq), z3.Select(hasrow, kq),
                                                             z3.Select(valrow, kq)]))
            except z3.Z3Exception:
                self.assume(z3.ForAll([kq], body2, patterns=[posf(kq)]))
            return TV("val", mk_ref(R), "list")
        if it.k == "val" and it.hint == "list" and kind in ("list", "set", "gen") and not g.ifs:
            L = self.as_addr(it)
            ln = self.hread("llen", (L,))
            srcrow = self.row_const(L)
            q = fresh("cq", core.IntS)
            x = TV("val", z3.Select(srcrow, q), self.elem_hint(it))
            (outs, side) = self._pure_on(frame, g.target, x, [n.elt])
            val = self.to_val(outs[0])
            if kind == "list":
                R = self.alloc("list")
                row = fresh("comp_row", z3.ArraySort(core.IntS, Val))
                self.heap = self.heap.store("llen", (R,), ln, bump=False)
                self.heap = self.heap.with_array("lelem", z3.Store(self.heap.cur["lelem"], R, row), bump=False)
                self.assume(z3.ForAll([q], z3.Implies(z3.And(0 <= q, q < ln),
                            z3.And(*side, z3.Select(row, q) == val)), patterns=[z3.Select(row, q)]))
                return TV("val", mk_ref(R), "list")
            # set / generator consumed as a set: membership <=> some element maps to it
            S = self.alloc("set")
            hasrow = fresh("cs_row", z3.ArraySort(Val, core.BoolS))
            h = self.heap.with_array("dhas", z3.Store(self.heap.cur["dhas"], S, hasrow), bump=False)
            h = h.store("dklen", (S,), fresh("clen", core.IntS), bump=False)
            self.heap = h
            wit = z3.Function(core.fresh_name("comp_idx"), Val, core.IntS)
            vq = fresh("cv", Val)
            self.assume(z3.ForAll([q], z3.Implies(z3.And(0 <= q, q < ln),
                        z3.And(*side, z3.Select(hasrow, val))), patterns=[z3.Select(srcrow, q)]))
            valw = z3.substitute(val, (q, wit(vq)))
            self.assume(z3.ForAll([vq], z3.Implies(z3.Select(hasrow, vq),
                        z3.And(0 <= wit(vq), wit(vq) < ln, valw == vq)), patterns=[z3.Select(hasrow, vq)]))
            return TV("val", mk_ref(S), "set")
        raise Unsupported(f"comprehension over symbolic iterable (line {line})")

    def bi_any(self, args, kw, n, frame):
        items = self.iter_items(args[0])
        if items is None:
            raise Unsupported("any() over symbolic")
        if not items:
            return TV("bool", z3.BoolVal(False))
        return TV("bool", z3.simplify(z3.Or(*[self.truthy(x) for x in items])))

    def bi_all(self, args, kw, n, frame):
        items = self.iter_items(args[0])
        if items is None:
            raise Unsupported("all() over symbolic")
        if not items:
            return TV("bool", z3.BoolVal(True))
        return TV("bool", z3.simplify(z3.And(*[self.truthy(x) for x in items])))

    def bi_next(self, args, kw, n, frame):
        a0 = args[0]
        if a0.k == "py" and isinstance(a0.r, tuple) and a0.r and a0.r[0] == "lazygen":
            # next(x for x in L if c(x)) over a symbolic list with a pure condition (A-COMP-PURE): the first
            # element that satisfies c, StopIteration when none does
            _, gen, gframe, it = a0.r
            g = gen.generators[0]
            L = self.as_addr(it)
            ln = self.hread("llen", (L,))
            row = z3.Select(self.heap.cur["lelem"], L)
            q = fresh("nq", core.IntS)
            xq = TV("val", z3.Select(row, q), self.elem_hint(it))
            (outs, side) = self._pure_on(gframe, g.target, xq, list(g.ifs))
            cond_q = z3.And(*[self.truthy(c) for c in outs])
            k = fresh("next_idx", core.IntS)
            found = self.decide(z3.And(0 <= k, k < ln), f"next@{getattr(n, 'lineno', '?')}")
            if found:
                xk = TV("val", z3.Select(row, k), self.elem_hint(it))
                (outs_k, side_k) = self._pure_on(gframe, g.target, xk, list(g.ifs))
                self.assume_all(side_k)
                self.assume(z3.And(*[self.truthy(c) for c in outs_k]))
                self.assume(z3.ForAll([q], z3.Implies(z3.And(0 <= q, q < k), z3.And(*side, z3.Not(cond_q))),
                                      patterns=[z3.Select(row, q)]))
                self.closed(xk.r)
                self.apply_hint_facts(xk)
                return xk
            self.assume(z3.ForAll([q], z3.Implies(z3.And(0 <= q, q < ln), z3.And(*side, z3.Not(cond_q))),
                                  patterns=[z3.Select(row, q)]))
            if len(args) > 1:
                return args[1]
            raise self.implicit("StopIteration", "next")
        items = self.iter_items(args[0])
        if items is None:
            raise Unsupported("next() over symbolic")
        if items:
            return items[0]
        if len(args) > 1:
            return args[1]
        raise self.implicit("StopIteration", "next")
