"""Builtins and methods of str / list / dict / set (mixin for Interp)."""

from __future__ import annotations

import ast

import z3

from . import core
from .core import CLASSES, NIL, NONE, Val, cls_of, fresh, mk_bool, mk_int, mk_ref, mk_str, subclass
from .interp_expr import ObjDict
from .symex import (
    TV, Builtin, PyClass, PyFunc, PyModule, PyRaise, SuperProxy, Unsupported, const_tv,
    py, tv_none,
)


class BuiltinMixin:
    # ------------------------------------------------------------ builtins
    def bi_len(self, args, kw, n, frame):
        x = args[0]
        if x.k == "py" and isinstance(x.r, (list, tuple)):
            return TV("int", z3.IntVal(len(x.r)))
        tg = self.tag(x)
        if x.k == "str" or tg == "str":
            return TV("int", z3.Length(self.as_str(x)))
        items = self.concrete_items(x)
        if items is not None:
            return TV("int", z3.IntVal(len(items)))
        from .interp_expr import base_hint

        h = base_hint(x.hint)
        if h == "list" or self.is_listlike(x):
            return TV("int", self.hread("llen", (self.as_addr(x),)))
        if h in ("dict", "set"):
            return TV("int", self.hread("dklen", (self.as_addr(x),)))
        if h.startswith("obj:"):
            m = self.find_method(h[4:], "__len__")
            if m is not None:
                mi, cnode, fnode = m
                pf = PyFunc(fnode, None, mi, cnode.name + ".__len__", bound_self=x, cls=cnode.name)
                return self.call(py(pf, "func"), [], {}, n, frame)
        if h == "tuple":
            f = z3.Function("tuple_len", Val, core.IntS)
            return TV("int", f(x.r))
        if x.k == "val":
            v = x.r
            a = Val.a(v)
            tl = z3.Function("tuple_len", Val, core.IntS)
            self.require(z3.Or(Val.is_str(v), Val.is_ref(v), Val.is_cons(v), Val.is_nil(v)),
                         "TypeError", "len() of unsized value")
            return TV("int", z3.If(Val.is_str(v), z3.Length(Val.s(v)),
                             z3.If(Val.is_ref(v),
                                   z3.If(cls_of(a) == CLASSES.addr("list"), self.hread("llen", (a,)),
                                         self.hread("dklen", (a,))),
                                   tl(v))))
        raise Unsupported(f"len() of value without hint line {getattr(n,'lineno','?')}")

    def class_names_of(self, t):
        if t.k == "py" and isinstance(t.r, PyClass):
            return [t.r.name]
        if t.k == "py" and isinstance(t.r, Builtin):
            return [t.r.name]
        items = self.concrete_items(t)
        if items is not None:
            out = []
            for x in items:
                out.extend(self.class_names_of(x))
            return out
        raise Unsupported("isinstance with symbolic class")

    def isinstance_cond(self, x, names):
        conds = []
        for nm in names:
            if nm == "str":
                if x.k == "str":
                    return z3.BoolVal(True)
                conds.append(Val.is_str(self.to_val(x)) if x.k == "val" else z3.BoolVal(False))
            elif nm == "int":
                if x.k in ("int", "bool"):
                    return z3.BoolVal(True)
                conds.append(z3.Or(Val.is_int(x.r), Val.is_bool(x.r)) if x.k == "val" else z3.BoolVal(False))
            elif nm == "bool":
                if x.k == "bool":
                    return z3.BoolVal(True)
                conds.append(Val.is_bool(x.r) if x.k == "val" else z3.BoolVal(False))
            elif nm == "tuple":
                if x.k == "py" and isinstance(x.r, (list, tuple)):
                    return z3.BoolVal(x.hint == "ctuple")
                conds.append(z3.Or(Val.is_nil(x.r), Val.is_cons(x.r)) if x.k == "val" else z3.BoolVal(False))
            elif nm == "float":
                conds.append(z3.And(Val.is_ref(x.r), cls_of(Val.a(x.r)) == CLASSES.addr("float"))
                             if x.k == "val" else z3.BoolVal(False))
            else:
                if nm not in CLASSES.by_name:
                    CLASSES.declare(nm, ("object",))
                if x.k == "py":
                    if isinstance(x.r, PyFunc):
                        conds.append(z3.BoolVal(nm in ("function", "object")))
                    elif isinstance(x.r, PyClass):
                        conds.append(z3.BoolVal(nm in ("type", "object")))
                    else:
                        conds.append(z3.BoolVal(False))
                    continue
                if x.k != "val":
                    conds.append(z3.BoolVal(nm == "object"))
                    continue
                ex = self.exact_class.get(str(x.r))
                if ex is not None:
                    conds.append(z3.BoolVal(CLASSES.is_sub(ex, nm)))
                    continue
                c = cls_of(Val.a(x.r))
                self.note_class_term(c)
                tg = self.tag(x)
                base = subclass(c, CLASSES.addr(nm))
                conds.append(base if tg == "ref" else z3.And(Val.is_ref(x.r), base))
        return z3.simplify(z3.Or(*conds)) if conds else z3.BoolVal(False)

    def bi_isinstance(self, args, kw, n, frame):
        t = args[1]
        if t.k == "val" and self.concrete_items(t) is None:
            # class given as a run-time value
            c = self.as_addr(t)
            ty = self.bi_type([args[0]], {}, n, frame)
            oc = Val.a(self.to_val(ty))
            self.note_class_term(oc)
            self.note_class_term(c)
            return TV("bool", subclass(oc, c))
        return TV("bool", self.isinstance_cond(args[0], self.class_names_of(t)))

    def bi_callable(self, args, kw, n, frame):
        x = args[0]
        if x.k == "py":
            return TV("bool", z3.BoolVal(isinstance(x.r, (PyFunc, PyClass, Builtin))))
        if x.k != "val":
            return TV("bool", z3.BoolVal(False))
        return TV("bool", z3.And(Val.is_ref(x.r), core.py_callable(x.r)))

    def bi_hasattr(self, args, kw, n, frame):
        obj, name = args
        nm = self.as_str(name)
        if obj.k == "py" and isinstance(obj.r, PyClass):
            if z3.is_string_value(z3.simplify(nm)) and self.find_method(obj.r.name, z3.simplify(nm).as_string()):
                return TV("bool", z3.BoolVal(True))
            return TV("bool", self.obj_has(z3.IntVal(obj.r.addr()), nm))
        if obj.k != "val":
            return TV("bool", z3.BoolVal(False))
        tg = self.tag(obj)
        if tg in ("none", "int", "bool", "str", "nil", "cons"):
            return TV("bool", z3.BoolVal(False))
        h = obj.hint or ""
        if h.startswith("obj:") and z3.is_string_value(z3.simplify(nm)):
            if self.find_method(h[4:], z3.simplify(nm).as_string()):
                return TV("bool", z3.BoolVal(True))
        a = Val.a(obj.r)
        inst_has, _, chas, _ = self.attr_read_term(a, nm)
        c = z3.Or(inst_has, chas)
        if tg != "ref":
            c = z3.And(Val.is_ref(obj.r), c)
        return TV("bool", z3.simplify(c))

    def bi_getattr(self, args, kw, n, frame):
        obj, name = args[0], args[1]
        nm = z3.simplify(self.as_str(name))
        if len(args) == 3 and self.in_spec:
            # total, branch-free version for clauses
            has = self.bi_hasattr([obj, name], {}, n, frame)
            got = self.getattr_val(obj, nm, nm.as_string() if z3.is_string_value(nm) else None)
            return self.ite_tv(has.r, got, args[2])
        if z3.is_string_value(nm):
            if len(args) == 3:
                has = self.bi_hasattr([obj, name], {}, n, frame)
                if self.decide(has.r, f"getattr-default@{getattr(n,'lineno','?')}"):
                    return self.get_attr(obj, nm.as_string(), n, frame)
                return args[2]
            return self.get_attr(obj, nm.as_string(), n, frame)
        if len(args) == 3:
            has = self.bi_hasattr([obj, name], {}, n, frame)
            if not self.decide(has.r, f"getattr-default@{getattr(n,'lineno','?')}"):
                return args[2]
        tv = self.getattr_val(obj, nm, None)
        hint = self.dyn_attr_hint(obj, nm)
        if hint:
            tv = TV(tv.k, tv.r, hint)
        return tv

    def dyn_attr_hint(self, obj, nm):
        return None

    def bi_setattr(self, args, kw, n, frame):
        obj, name, v = args
        if obj.k == "py" and isinstance(obj.r, PyClass):
            a = z3.IntVal(obj.r.addr())
            nm = self.as_str(name)
            self.heap = self.heap.store("fld", (a, nm), self.to_val(v)).store("has", (a, nm), z3.BoolVal(True))
            return tv_none()
        self.setattr_val(obj, self.as_str(name), v)
        return tv_none()

    def bi_delattr(self, args, kw, n, frame):
        obj, name = args
        if obj.k == "py" and isinstance(obj.r, PyClass):
            obj = TV("val", mk_ref(obj.r.addr()), "class")
        self.delattr_val(obj, self.as_str(name))
        return tv_none()

    def bi_type(self, args, kw, n, frame):
        x = args[0]
        if x.k == "str":
            return py(Builtin("str"), "builtin")
        if x.k == "int":
            return py(Builtin("int"), "builtin")
        if x.k == "bool":
            return py(Builtin("bool"), "builtin")
        if x.k == "val":
            ex = self.exact_class.get(str(x.r))
            if ex is not None:
                return py(self.pyclass(ex), "class")
            tg = self.tag(x)
            if tg == "ref":
                c = cls_of(Val.a(x.r))
                self.note_class_term(c)
                return TV("val", mk_ref(c), "class")
            if tg is None:
                # type of an arbitrary value: classes of primitives get fixed addresses
                for nm in ("int", "str", "bool", "NoneType", "tuple"):
                    if nm not in CLASSES.by_name:
                        CLASSES.declare(nm, ("object",))
                v = x.r
                c = z3.If(Val.is_ref(v), cls_of(Val.a(v)),
                    z3.If(Val.is_int(v), CLASSES.addr("int"),
                    z3.If(Val.is_str(v), CLASSES.addr("str"),
                    z3.If(Val.is_bool(v), CLASSES.addr("bool"),
                    z3.If(Val.is_none(v), CLASSES.addr("NoneType"), CLASSES.addr("tuple"))))))
                self.note_class_term(cls_of(Val.a(v)))
                return TV("val", mk_ref(c), "class")
            for nm in ("int", "str", "bool", "NoneType", "tuple"):
                if nm not in CLASSES.by_name:
                    CLASSES.declare(nm, ("object",))
            m = {"int": "int", "str": "str", "bool": "bool", "none": "NoneType", "nil": "tuple", "cons": "tuple"}
            return py(PyClass(m[tg]), "class")
        if x.k == "py" and isinstance(x.r, PyClass):
            return py(PyClass("type"), "class")
        raise Unsupported("type()")

    def bi_id(self, args, kw, n, frame):
        return TV("int", self.as_addr(args[0]))

    def bi_str(self, args, kw, n, frame):
        if not args:
            return TV("str", z3.StringVal(""))
        return TV("str", self.to_pystr(args[0]))

    bi_repr = bi_str

    def bi_int(self, args, kw, n, frame):
        if not args:
            return TV("int", z3.IntVal(0))
        x = args[0]
        tg = self.tag(x)
        if x.k in ("int", "bool") or tg in ("int", "bool"):
            return TV("int", self.as_int(x))
        if x.k == "str" or tg == "str":
            s = self.as_str(x)
            f = z3.Function("py_int", core.StrS, core.IntS)
            ok = z3.Function("py_int_ok", core.StrS, core.BoolS)
            self.require(ok(s), "ValueError", "int() literal")
            return TV("int", f(s))
        raise Unsupported("int() of unknown")

    def bi_float(self, args, kw, n, frame):
        s = self.as_str(args[0])
        f = z3.Function("py_float", core.StrS, core.IntS)
        ok = z3.Function("py_float_ok", core.StrS, core.BoolS)
        self.require(ok(s), "ValueError", "float() literal")
        a = f(s)
        return TV("val", mk_ref(a), "float")

    def bi_bool(self, args, kw, n, frame):
        if not args:
            return TV("bool", z3.BoolVal(False))
        return TV("bool", z3.simplify(self.truthy(args[0])))

    def bi_print(self, args, kw, n, frame):
        return tv_none()

    def bi_super(self, args, kw, n, frame):
        f = frame
        while f is not None and (f.func is None or f.func.cls is None):
            f = f.parent
        if f is None:
            raise Unsupported("super() outside method")
        cls = f.func.cls
        fn = f.func.node
        self_name = fn.args.args[0].arg
        return py(SuperProxy(cls, f.vars[self_name]), "super")

    def bi_super___init__(self, args, kw, n, frame):
        return tv_none()

    def bi_super___getattribute__(self, args, kw, n, frame):
        raise Unsupported("super().__getattribute__")

    def bi_list(self, args, kw, n, frame):
        if not args:
            return self.new_list([])
        x = args[0]
        if x.k == "py" and isinstance(x.r, tuple) and x.r and x.r[0] == "filter":
            return self.iter_to_list(x, n, frame)
        if x.k == "py" and isinstance(x.r, tuple) and x.r and x.r[0] == "dictview" and self.iter_items(x) is None:
            # list(d.items()) of a symbolic dict, used as the iterable of a for / comprehension: the
            # snapshot equals the view as long as the dict is not changed while it is iterated
            # (A-SNAPSHOT; comprehension bodies are pure, A-COMP-PURE)
            return x
        items = self.concrete_items(x)
        if items is not None:
            return self.new_list(items)
        if x.hint == "list":
            return self.list_slice(x, None, None)
        return self.iter_to_list(x, n, frame)

    def iter_to_list(self, x, n, frame):
        if x.k == "py" and isinstance(x.r, tuple) and x.r and x.r[0] == "filter":
            return self.filter_to_list(x.r[1], x.r[2], n, frame)
        raise Unsupported(f"list() of non-list iterable line {getattr(n,'lineno','?')}")

    def bi_filter(self, args, kw, n, frame):
        return py(("filter", args[0], args[1]), "iter")

    def filter_to_list(self, fn, src, n, frame):
        """list(filter(pred, L)) for a symbolic list L and a pure lambda pred: a fresh list R that is
        the order-preserving sub-sequence of the elements satisfying pred (A-COMP-PURE: the
        predicate has no side effects and raises nothing).  Facts, with Skolem functions
        idx : positions of R -> positions of L (strictly increasing) and pos : back:
          R[q] == L[idx(q)] and pred(R[q]);   pred(L[p]) => R[pos(p)] == L[p]."""
        if not (fn.k == "py" and isinstance(fn.r, PyFunc) and isinstance(fn.r.node, ast.Lambda)
                and len(fn.r.node.args.args) == 1):
            raise Unsupported("filter with a predicate that is not a one-argument lambda")
        if not (src.k == "val" and self.is_listlike(src)):
            raise Unsupported("filter over a non-list")
        lam = fn.r.node
        target = ast.Name(id=lam.args.args[0].arg, ctx=ast.Store())
        L = self.as_addr(src)
        ln = self.hread("llen", (L,))
        srcrow = z3.Select(self.heap.cur["lelem"], L)
        R = self.alloc("list")
        row = fresh("filt_row", z3.ArraySort(core.IntS, Val))
        rlen = fresh("filt_len", core.IntS)
        self.heap = self.heap.store("llen", (R,), rlen, bump=False)
        self.heap = self.heap.with_array("lelem", z3.Store(self.heap.cur["lelem"], R, row), bump=False)
        idx = z3.Function(core.fresh_name("filt_idx"), core.IntS, core.IntS)
        pos = z3.Function(core.fresh_name("filt_pos"), core.IntS, core.IntS)
        q = fresh("fq", core.IntS)
        q2 = fresh("fq2", core.IntS)
        p = fresh("fp", core.IntS)
        frm = fn.r.frame if fn.r.frame is not None else frame
        xq = TV("val", z3.Select(row, q), self.elem_hint(src))
        (outs, side) = self._pure_on(frm, target, xq, [lam.body])
        pred_q = self.truthy(outs[0])
        xp = TV("val", z3.Select(srcrow, p), self.elem_hint(src))
        (outs2, side2) = self._pure_on(frm, target, xp, [lam.body])
        pred_p = self.truthy(outs2[0])
        self.assume(z3.And(rlen >= 0, rlen <= ln))
        self.assume(z3.ForAll([q], z3.Implies(z3.And(0 <= q, q < rlen), z3.And(
            *side, 0 <= idx(q), idx(q) < ln, z3.Select(row, q) == z3.Select(srcrow, idx(q)), pred_q)),
            patterns=[z3.Select(row, q)]))
        self.assume(z3.ForAll([q, q2], z3.Implies(z3.And(0 <= q, q < q2, q2 < rlen), idx(q) < idx(q2)),
                              patterns=[z3.MultiPattern(idx(q), idx(q2))]))
        self.assume(z3.ForAll([p], z3.Implies(z3.And(0 <= p, p < ln, *side2, pred_p), z3.And(
            0 <= pos(p), pos(p) < rlen, z3.Select(row, pos(p)) == z3.Select(srcrow, p))),
            patterns=[z3.Select(srcrow, p)]))
        tv = TV("val", mk_ref(R), "list")
        eh = self.elem_hint(src)
        if eh:
            self.elem_hints[str(tv.r)] = eh
        return tv

    def bi_tuple(self, args, kw, n, frame):
        if not args:
            return TV("val", NIL, "tuple")
        items = self.concrete_items(args[0])
        if items is None:
            raise Unsupported("tuple() of symbolic sequence")
        return TV("val", core.mk_tuple([self.to_val(x) for x in items]), "tuple")

    def bi_dict(self, args, kw, n, frame):
        if not args and not kw:
            return self.new_dict([])
        if args and args[0].hint == "dict" and not kw:
            return self.dict_copy(args[0])
        if args and args[0].hint == "list" and not kw and self.concrete_items(args[0]) is None:
            return self.dict_from_pairs(args[0])
        raise Unsupported("dict(...) form")

    def dict_copy(self, d):
        a = self.as_addr(d)
        b = self.alloc("dict")
        h = self.heap
        for f in ("dhas", "dval", "dkey"):
            h = h.with_array(f, z3.Store(h.cur[f], b, z3.Select(h.cur[f], a)))
        h = h.store("dklen", (b,), self.hread("dklen", (a,)))
        self.heap = h
        return TV("val", mk_ref(b), "dict")

    def bi_set(self, args, kw, n, frame):
        if not args:
            return self.new_dict([], kind="set")
        if args[0].k == "py" and isinstance(args[0].r, tuple) and args[0].r[:2] == ("dictview", "keys"):
            d = self.dict_copy(args[0].r[2])
            return TV("val", d.r, "set")
        items = self.concrete_items(args[0])
        if items is not None:
            return self.new_dict([(x, tv_none()) for x in items], kind="set")
        if args[0].hint in ("dict", "set"):
            d = self.dict_copy(args[0])
            return TV("val", d.r, "set")
        raise Unsupported("set(symbolic)")

    def bi_locals(self, args, kw, n, frame):
        return py(dict(frame.vars), "cdict")

    def bi_abs(self, args, kw, n, frame):
        i = self.as_int(args[0])
        return TV("int", z3.If(i >= 0, i, -i))

    def bi_abspath(self, args, kw, n, frame):
        t = core.py_abspath(self.as_str(args[0]))
        f = core.py_abspath(t) == t  # abspath is idempotent (A-ABSPATH)
        if self.in_spec and self.spec_side is not None:
            self.spec_side.append(f)
        else:
            self.assume(f)
        return TV("str", t)

    bi_os_path_abspath = bi_abspath

    def bi_dirname(self, args, kw, n, frame):
        f = z3.Function("dirname", core.StrS, core.StrS)
        return TV("str", f(self.as_str(args[0])))

    bi_os_path_dirname = bi_dirname

    def bi_basename(self, args, kw, n, frame):
        f = z3.Function("basename", core.StrS, core.StrS)
        return TV("str", f(self.as_str(args[0])))

    bi_os_path_basename = bi_basename

    def bi_join(self, args, kw, n, frame):
        f = z3.Function("path_join", core.StrS, core.StrS, core.StrS)
        t = self.as_str(args[0])
        for a in args[1:]:
            if a.k == "py" and isinstance(a.r, tuple) and a.r and a.r[0] == "starred":
                seq = a.r[1]
                la = self.as_addr(seq)
                g = z3.Function("path_join_all", core.StrS, z3.ArraySort(core.IntS, Val), core.IntS, core.StrS)
                t = g(t, z3.Select(self.heap.cur["lelem"], la), self.hread("llen", (la,)))
                continue
            t = f(t, self.as_str(a))
        return TV("str", t)

    bi_os_path_join = bi_join

    def bi_exists(self, args, kw, n, frame):
        return self.fs_exists(self.as_str(args[0]))

    bi_os_path_exists = bi_exists

    def fs_exists(self, path):
        f = z3.Function("fs_exists", core.IntS, core.StrS, core.BoolS)
        return TV("bool", f(z3.IntVal(self.fs_version), path))

    fs_version = 0

    def bi_isabs(self, args, kw, n, frame):
        f = z3.Function("isabs", core.StrS, core.BoolS)
        return TV("bool", f(self.as_str(args[0])))

    # ------------------------------------------------------- str methods
    def m_str_startswith(self, recv, args, kw, n):
        return TV("bool", z3.PrefixOf(self.as_str(args[0]), self.as_str(recv)))

    def m_str_endswith(self, recv, args, kw, n):
        return TV("bool", z3.SuffixOf(self.as_str(args[0]), self.as_str(recv)))

    def m_str_replace(self, recv, args, kw, n):
        s, a, b = self.as_str(recv), self.as_str(args[0]), self.as_str(args[1])
        return TV("str", self.str_replace_term(s, a, b))

    def str_replace_term(self, s, a, b):
        """str.replace as an uninterpreted function plus ground lemmas that hold
        for Python's replace when pattern and replacement are single, distinct
        characters (A-REPLACE; cross-checked against CPython by tools/selftest)."""
        t = core.py_replace(s, a, b)
        a_, b_ = z3.simplify(a), z3.simplify(b)
        facts = []
        if z3.is_string_value(a_) and z3.is_string_value(b_):
            pa, pb = a_.as_string(), b_.as_string()
            if len(pa) >= 1:
                facts.append((t == s) == z3.Or(z3.Not(z3.Contains(s, a)), z3.BoolVal(pa == pb)))
            if len(pa) == 1 and len(pb) == 1:
                facts.append(z3.Length(t) == z3.Length(s))
            if len(pa) == 1 and pa not in pb:
                facts.append(z3.Not(z3.Contains(t, a)))
            if len(pa) == 1 and len(pb) == 1 and pa != pb:
                # characters other than a and b are untouched
                facts.append(z3.Implies(z3.Not(z3.Contains(s, b)), z3.Contains(t, b) == z3.Contains(s, a)))
        if self.in_spec and self.spec_side is not None:
            self.spec_side.extend(facts)
        else:
            self.assume_all(facts)
        return t

    def m_str_lower(self, recv, args, kw, n):
        return TV("str", core.py_lower(self.as_str(recv)))

    def m_str_strip(self, recv, args, kw, n):
        chars = self.as_str(args[0]) if args else z3.StringVal(" \t\n\r")
        return TV("str", core.py_strip(self.as_str(recv), chars))

    def m_str_find(self, recv, args, kw, n):
        return TV("int", z3.IndexOf(self.as_str(recv), self.as_str(args[0]), 0))

    def m_str_format(self, recv, args, kw, n):
        s = z3.simplify(self.as_str(recv))
        if not z3.is_string_value(s):
            raise Unsupported("format on symbolic string")
        fmt = s.as_string()
        parts = fmt.split("{}")
        if len(parts) - 1 != len(args) or "{" in "".join(parts):
            raise Unsupported("format with non-{} fields")
        t = z3.StringVal(parts[0])
        for a, p in zip(args, parts[1:]):
            t = z3.Concat(t, self.to_pystr(a), z3.StringVal(p))
        return TV("str", z3.simplify(t))

    def m_str_split(self, recv, args, kw, n):
        s = self.as_str(recv)
        sep = self.as_str(args[0]) if args else z3.StringVal(" ")
        a = self.alloc("list")
        row = z3.Function("split_row", core.StrS, core.StrS, z3.ArraySort(core.IntS, Val))
        ln = z3.Function("split_len", core.StrS, core.StrS, core.IntS)
        # (a fresh list: no write to the footprint of existing lists)
        self.heap = self.heap.store("llen", (a,), ln(s, sep), bump=False)
        self.heap = self.heap.with_array("lelem", z3.Store(self.heap.cur["lelem"], a, row(s, sep)), bump=False)
        self.assume(ln(s, sep) >= 1)
        tv = TV("val", mk_ref(a), "list")
        self.elem_hints[str(tv.r)] = "str"
        return tv

    def m_str_rsplit(self, recv, args, kw, n):
        """s.rsplit(sep, 1): [head, tail] with s == head + sep + tail and sep not in tail,
        or [s] when sep does not occur"""
        s = self.as_str(recv)
        sep = self.as_str(args[0])
        mx = z3.simplify(self.as_int(args[1])) if len(args) > 1 else None
        if mx is None or not (z3.is_int_value(mx) and mx.as_long() == 1):
            raise Unsupported("rsplit other than rsplit(sep, 1)")
        if self.decide(z3.Contains(s, sep), f"rsplit@{getattr(n, 'lineno', '?')}"):
            head = z3.Function("rsplit_head", core.StrS, core.StrS, core.StrS)(s, sep)
            tail = z3.Function("rsplit_tail", core.StrS, core.StrS, core.StrS)(s, sep)
            self.assume(s == z3.Concat(head, sep, tail))
            self.assume(z3.Not(z3.Contains(tail, sep)))
            return self.new_list([TV("str", head), TV("str", tail)])
        return self.new_list([TV("str", s)])

    def bi_map(self, args, kw, n, frame):
        return py(("map", args[0], args[1]), "iter")

    def is_str_function(self, f):
        """f is `str` or `lambda x: str(x)`"""
        if f.k == "py" and isinstance(f.r, Builtin) and f.r.name == "str":
            return True
        if f.k == "py" and isinstance(f.r, PyFunc) and isinstance(f.r.node, ast.Lambda):
            b = f.r.node.body
            a = f.r.node.args.args
            return (isinstance(b, ast.Call) and isinstance(b.func, ast.Name) and b.func.id == "str"
                    and len(b.args) == 1 and isinstance(b.args[0], ast.Name) and len(a) == 1
                    and b.args[0].id == a[0].arg)
        return False

    def m_str_join(self, recv, args, kw, n):
        sep = self.as_str(recv)
        x = args[0]
        if x.k == "py" and isinstance(x.r, tuple) and x.r and x.r[0] == "map" and self.is_str_function(x.r[1]):
            src = x.r[2]
            items = self.concrete_items(src)
            if items is not None:
                if not items:
                    return TV("str", z3.StringVal(""))
                t = self.to_pystr(items[0])
                for y in items[1:]:
                    t = z3.Concat(t, sep, self.to_pystr(y))
                return TV("str", z3.simplify(t))
            # sep.join(str(e) for e in L) as one function of (sep, contents of L)
            a = self.as_addr(src)
            f = z3.Function("join_str", core.StrS, z3.ArraySort(core.IntS, Val), core.IntS, core.StrS)
            return TV("str", f(sep, z3.Select(self.heap.cur["lelem"], a), self.hread("llen", (a,))))
        items = self.concrete_items(args[0])
        if items is not None:
            if not items:
                return TV("str", z3.StringVal(""))
            t = self.as_str(items[0])
            for x in items[1:]:
                t = z3.Concat(t, sep, self.as_str(x))
            return TV("str", z3.simplify(t))
        if args[0].hint == "list":
            a = self.as_addr(args[0])
            f = z3.Function("join", core.StrS, z3.ArraySort(core.IntS, Val), core.IntS, core.StrS)
            return TV("str", f(sep, z3.Select(self.heap.cur["lelem"], a), self.hread("llen", (a,))))
        raise Unsupported("join of non-list")

    # ------------------------------------------------------ list methods
    def list_mutated(self, a):
        key = str(z3.simplify(a))
        for k in list(self.shape):
            if k == key:
                continue
            sh = self.shape[k]
            if sh[0] == "list" and not self.entails(sh[2] != a):
                del self.shape[k]

    def m_list_append(self, recv, args, kw, n):
        a = self.as_addr(recv)
        ln = self.hread("llen", (a,))
        v = self.to_val(args[0])
        self.heap = self.heap.store("lelem", (a, ln), v).store("llen", (a,), z3.simplify(ln + 1))
        key = str(z3.simplify(a))
        self.list_mutated(a)
        if key in self.shape:
            sh = self.shape[key]
            self.shape[key] = ("list", sh[1] + [args[0]], sh[2])
        self.on_list_insert(a, ln, v)
        return tv_none()

    def on_list_insert(self, a, idx, v):
        pass

    def m_list_insert(self, recv, args, kw, n):
        """L.insert(i, x): i is clamped to [0, len] (negative indices count from the end); the elements
        from i on move up by one.  The new element row is a lambda over the old row (exact)."""
        a = self.as_addr(recv)
        ln = self.hread("llen", (a,))
        i0 = self.as_int(args[0])
        i1 = z3.If(i0 < 0, i0 + ln, i0)
        i = z3.simplify(z3.If(i1 < 0, 0, z3.If(i1 > ln, ln, i1)))
        v = self.to_val(args[1])
        oldrow = z3.Select(self.heap.cur["lelem"], a)
        q = fresh("ins_q", core.IntS)
        newrow = z3.Lambda([q], z3.If(q < i, z3.Select(oldrow, q), z3.If(q == i, v, z3.Select(oldrow, q - 1))))
        self.heap = self.heap.with_array("lelem", z3.Store(self.heap.cur["lelem"], a, newrow)).store(
            "llen", (a,), z3.simplify(ln + 1))
        self.list_mutated(a)
        key = str(z3.simplify(a))
        self.shape.pop(key, None)
        return tv_none()

    def bi_bisect_bisect_right(self, args, kw, n, frame):
        """bisect.bisect_right(L, x) for a list of ints: the result r satisfies 0 <= r <= len(L), and - when
        L is sorted, which is the precondition bisect needs to mean anything - every element before r is
        <= x and every element from r on is > x (T-PY: bisect's documented postcondition)."""
        lst = args[0]
        a = self.as_addr(lst)
        ln = self.hread("llen", (a,))
        row = z3.Select(self.heap.cur["lelem"], a)
        x = self.as_int(args[1])
        r = fresh("bisect", core.IntS)
        j, k = fresh("bj", core.IntS), fresh("bk", core.IntS)
        srt = z3.ForAll([j, k], z3.Implies(z3.And(0 <= j, j < k, k < ln),
                                           Val.i(z3.Select(row, j)) <= Val.i(z3.Select(row, k))))
        self.assume(z3.And(0 <= r, r <= ln))
        self.assume(z3.Implies(srt, z3.And(
            z3.ForAll([j], z3.Implies(z3.And(0 <= j, j < r), Val.i(z3.Select(row, j)) <= x)),
            z3.ForAll([j], z3.Implies(z3.And(r <= j, j < ln), Val.i(z3.Select(row, j)) > x)))))
        return TV("int", r)

    bi_bisect_right = bi_bisect_bisect_right

    def m_list_pop(self, recv, args, kw, n):
        a = self.as_addr(recv)
        ln = self.hread("llen", (a,))
        key = str(z3.simplify(a))
        self.list_mutated(a)
        if not args:
            self.require(ln > 0, "IndexError", "pop from empty list")
            v = self.hread("lelem", (a, ln - 1))
            self.heap = self.heap.store("llen", (a,), z3.simplify(ln - 1))
            if key in self.shape:
                sh = self.shape[key]
                self.shape[key] = ("list", sh[1][:-1], sh[2])
            self.closed(v)
            return self.from_val(v, self.elem_hint(recv))
        i = z3.simplify(self.as_int(args[0]))
        if z3.is_int_value(i) and i.as_long() == 0:
            self.require(ln > 0, "IndexError", "pop from empty list")
            v = self.hread("lelem", (a, z3.IntVal(0)))
            oldrow = self.row_const(a)
            row = fresh("pop_row", z3.ArraySort(core.IntS, Val))
            j = fresh("j", core.IntS)
            self.heap = self.heap.store("llen", (a,), z3.simplify(ln - 1))
            self.heap = self.heap.with_array("lelem", z3.Store(self.heap.cur["lelem"], a, row))
            self.assume(z3.ForAll([j], z3.Implies(z3.And(0 <= j, j < ln - 1),
                        z3.Select(row, j) == z3.Select(oldrow, j + 1)), patterns=[z3.Select(row, j)]))
            if key in self.shape:
                sh = self.shape[key]
                self.shape[key] = ("list", sh[1][1:], sh[2])
            self.closed(v)
            return self.from_val(v, self.elem_hint(recv))
        raise Unsupported("list.pop(i)")

    def m_list_sort(self, recv, args, kw, n):
        """list.sort(key=f, reverse=r): a permutation of the old contents,
        ordered by the key (the key function is inlined on symbolic elements)"""
        a = self.as_addr(recv)
        ln = self.hread("llen", (a,))
        oldrow = self.row_const(a)
        row = fresh("sorted_row", z3.ArraySort(core.IntS, Val))
        self.heap = self.heap.with_array("lelem", z3.Store(self.heap.cur["lelem"], a, row))
        self.shape.pop(str(z3.simplify(a)), None)
        key = kw.get("key")
        rev = kw.get("reverse")
        revc = self.truthy(rev) if rev is not None else z3.BoolVal(False)
        qi, qj = fresh("qi", core.IntS), fresh("qj", core.IntS)

        def keyof(idx):
            x = TV("val", z3.Select(row, idx), self.elem_hint(recv))
            if key is None:
                return x
            return self.call(key, [x], {}, n, None)

        self.in_spec += 1
        saved = self.spec_side
        self.spec_side = []
        try:
            ki, kj = keyof(qi), keyof(qj)
            le = self.compare(ast.LtE(), ki, kj, n)
            ge = self.compare(ast.GtE(), ki, kj, n)
            side = list(self.spec_side)
        finally:
            self.spec_side = saved
            self.in_spec -= 1
        self.assume(z3.ForAll([qi, qj], z3.Implies(z3.And(0 <= qi, qi < qj, qj < ln),
                    z3.And(*side, z3.If(revc, ge, le))),
                    patterns=[z3.MultiPattern(z3.Select(row, qi), z3.Select(row, qj))]))
        # permutation: same length, every element comes from the old contents and vice versa
        w1 = z3.Function(core.fresh_name("perm"), core.IntS, core.IntS)
        w2 = z3.Function(core.fresh_name("perm_inv"), core.IntS, core.IntS)
        q = fresh("q", core.IntS)
        self.assume(z3.ForAll([q], z3.Implies(z3.And(0 <= q, q < ln),
                    z3.And(0 <= w1(q), w1(q) < ln, z3.Select(row, q) == z3.Select(oldrow, w1(q)),
                           w2(w1(q)) == q)), patterns=[z3.Select(row, q)]))
        self.assume(z3.ForAll([q], z3.Implies(z3.And(0 <= q, q < ln),
                    z3.And(0 <= w2(q), w2(q) < ln, z3.Select(oldrow, q) == z3.Select(row, w2(q)),
                           w1(w2(q)) == q)), patterns=[z3.Select(oldrow, q)]))
        return tv_none()

    def bi_sorted(self, args, kw, n, frame):
        """sorted(iterable, key=f, reverse=r): a fresh list, permutation of the
        iterable's items, ordered by the key"""
        items = self.iter_items(args[0])
        if items is not None:
            src = self.new_list(items)
        elif args[0].k == "val" and args[0].hint == "list":
            src = args[0]
        else:
            src = self.materialize(args[0])
            if args[0].k == "py" and isinstance(args[0].r, tuple) and args[0].r[:2] == ("dictview", "items"):
                self.elem_hints[str(src.r)] = "tuple"
        sa = self.as_addr(src)
        ln = self.hread("llen", (sa,))
        srcrow = self.row_const(sa)
        b = self.alloc("list")
        row = fresh("sorted_row", z3.ArraySort(core.IntS, Val))
        self.heap = self.heap.store("llen", (b,), ln, bump=False)
        self.heap = self.heap.with_array("lelem", z3.Store(self.heap.cur["lelem"], b, row), bump=False)
        out = TV("val", mk_ref(b), "list")
        eh = self.elem_hints.get(str(src.r))
        if eh:
            self.elem_hints[str(out.r)] = eh
        key = kw.get("key")
        rev = kw.get("reverse")
        revc = self.truthy(rev) if rev is not None else z3.BoolVal(False)
        qi, qj = fresh("qi", core.IntS), fresh("qj", core.IntS)

        def keyof(idx):
            x = TV("val", z3.Select(row, idx), eh)
            if key is None:
                return x
            return self.call(key, [x], {}, n, None)

        self.in_spec += 1
        saved = self.spec_side
        self.spec_side = []
        try:
            ki, kj = keyof(qi), keyof(qj)
            le = self.compare(ast.LtE(), ki, kj, n)
            ge = self.compare(ast.GtE(), ki, kj, n)
            side = list(self.spec_side)
        finally:
            self.spec_side = saved
            self.in_spec -= 1
        self.assume(z3.ForAll([qi, qj], z3.Implies(z3.And(0 <= qi, qi < qj, qj < ln),
                    z3.And(*side, z3.If(revc, ge, le))),
                    patterns=[z3.MultiPattern(z3.Select(row, qi), z3.Select(row, qj))]))
        w1 = z3.Function(core.fresh_name("perm"), core.IntS, core.IntS)
        w2 = z3.Function(core.fresh_name("perm_inv"), core.IntS, core.IntS)
        q = fresh("q", core.IntS)
        self.assume(z3.ForAll([q], z3.Implies(z3.And(0 <= q, q < ln),
                    z3.And(0 <= w1(q), w1(q) < ln, z3.Select(row, q) == z3.Select(srcrow, w1(q)),
                           w2(w1(q)) == q)), patterns=[z3.Select(row, q)]))
        self.assume(z3.ForAll([q], z3.Implies(z3.And(0 <= q, q < ln),
                    z3.And(0 <= w2(q), w2(q) < ln, z3.Select(srcrow, q) == z3.Select(row, w2(q)),
                           w1(w2(q)) == q)), patterns=[z3.Select(srcrow, q)]))
        return out

    def materialize(self, it):
        """a fresh list holding the items of a symbolic iterable (dict views ...)"""
        ln, get = self.seq_access(it)
        b = self.alloc("list")
        row = fresh("mat_row", z3.ArraySort(core.IntS, Val))
        self.heap = self.heap.store("llen", (b,), ln, bump=False)
        self.heap = self.heap.with_array("lelem", z3.Store(self.heap.cur["lelem"], b, row), bump=False)
        q = fresh("q", core.IntS)
        self.in_spec += 1
        saved = self.spec_side
        self.spec_side = []
        try:
            item = get(q)
            side = list(self.spec_side)
        finally:
            self.spec_side = saved
            self.in_spec -= 1
        self.assume(z3.ForAll([q], z3.Implies(z3.And(0 <= q, q < ln),
                    z3.And(*side, z3.Select(row, q) == self.to_val(item))), patterns=[z3.Select(row, q)]))
        return TV("val", mk_ref(b), "list")

    def dict_from_pairs(self, lst):
        """dict(list of (key, value) pairs) with pairwise distinct keys
        (A-DISTINCT-KEYS: stated as an obligation at the call site)"""
        a = self.as_addr(lst)
        ln = self.hread("llen", (a,))
        srcrow = self.row_const(a)
        d = self.alloc("dict")
        keyrow = fresh("dk_row", z3.ArraySort(core.IntS, Val))
        hasrow = fresh("dh_row", z3.ArraySort(Val, core.BoolS))
        valrow = fresh("dv_row", z3.ArraySort(Val, Val))
        h = self.heap.store("dklen", (d,), ln, bump=False)
        h = h.with_array("dkey", z3.Store(h.cur["dkey"], d, keyrow), bump=False)
        h = h.with_array("dhas", z3.Store(h.cur["dhas"], d, hasrow), bump=False)
        h = h.with_array("dval", z3.Store(h.cur["dval"], d, valrow), bump=False)
        self.heap = h
        q = fresh("q", core.IntS)
        pair = z3.Select(srcrow, q)
        k = Val.hd(pair)
        v = Val.hd(Val.tl(pair))
        self.assume(z3.ForAll([q], z3.Implies(z3.And(0 <= q, q < ln),
                    z3.And(z3.Select(keyrow, q) == k, z3.Select(hasrow, k), z3.Select(valrow, k) == v)),
                    patterns=[z3.Select(srcrow, q), z3.Select(keyrow, q)]))
        return TV("val", mk_ref(d), "dict")

    def m_list_index(self, recv, args, kw, n):
        items = self.concrete_items(recv)
        if items is None:
            raise Unsupported("index on symbolic list")
        t = z3.IntVal(-1)
        for i in reversed(range(len(items))):
            t = z3.If(self.val_eq(items[i], args[0]), z3.IntVal(i), t)
        self.require(t >= 0, "ValueError", "not in list")
        return TV("int", z3.simplify(t))

    def m_list_extend(self, recv, args, kw, n):
        items = self.concrete_items(args[0])
        if items is None:
            raise Unsupported("extend with symbolic")
        for x in items:
            self.m_list_append(recv, [x], {}, n)
        return tv_none()

    # ------------------------------------------------------ dict methods
    def m_dict_get(self, recv, args, kw, n):
        a = self.as_addr(recv)
        kv = self.to_val(args[0])
        default = args[1] if len(args) > 1 else tv_none()
        has = self.dict_has(a, kv)
        has_s = z3.simplify(has)
        if default.k == "py" and not isinstance(default.r, (list, tuple)):
            if self.decide(has_s, f"dict.get@{getattr(n,'lineno','?')}"):
                v = self.hread("dval", (a, kv))
                self.closed(v)
                return self.from_val(v, self.elem_hint(recv))
            return default
        v = self.hread("dval", (a, kv))
        self.closed(v)
        r = z3.simplify(z3.If(has, v, self.to_val(default)))
        tv = self.from_val(r, self.elem_hint(recv) if default.hint in (None, "none") else None)
        return tv

    def m_dict_keys(self, recv, args, kw, n):
        return py(("dictview", "keys", recv), "dictview")

    def m_dict_values(self, recv, args, kw, n):
        return py(("dictview", "values", recv), "dictview")

    def m_dict_items(self, recv, args, kw, n):
        return py(("dictview", "items", recv), "dictview")

    def m_dict_pop(self, recv, args, kw, n):
        a = self.as_addr(recv)
        kv = self.to_val(args[0])
        has = self.dict_has(a, kv)
        if len(args) > 1:
            if not self.decide(has, f"dict.pop@{getattr(n,'lineno','?')}"):
                return args[1]
        else:
            self.require_explicit(has, "KeyError", "dict.pop")
        v = self.hread("dval", (a, kv))
        self.closed(v)
        self.dict_remove(a, kv)
        return self.from_val(v, self.elem_hint(recv))

    def require_explicit(self, cond, exc_cls, msg):
        """a primitive whose failure is part of the code's logic (always forked)"""
        if not self.decide(cond, f"{exc_cls}:{msg}"):
            raise self.implicit(exc_cls, msg)

    def m_dict_setdefault(self, recv, args, kw, n):
        a = self.as_addr(recv)
        kv = self.to_val(args[0])
        has = self.dict_has(a, kv)
        if self.decide(has, f"setdefault@{getattr(n,'lineno','?')}"):
            v = self.hread("dval", (a, kv))
            self.closed(v)
            return self.from_val(v, self.elem_hint(recv) or args[1].hint)
        self.dict_set(recv, args[0], args[1])
        return args[1]

    def m_dict_update(self, recv, args, kw, n):
        pairs = self.concrete_pairs(args[0])
        if pairs is None:
            raise Unsupported("dict.update with symbolic dict")
        for k, v in pairs:
            self.dict_set(recv, const_tv(k), v)
        return tv_none()

    def m_set_add(self, recv, args, kw, n):
        self.dict_set(recv, args[0], tv_none())
        return tv_none()

    def m_set_update(self, recv, args, kw, n):
        """s.update(t) for a symbolic set t: membership afterwards is the pointwise OR of the two
        membership rows (array map); the insertion order of the new keys is left unspecified."""
        if len(args) != 1 or kw:
            raise Unsupported("set.update with several arguments")
        items = self.concrete_items(args[0])
        if items is not None:
            for x in items:
                self.dict_set(recv, x, tv_none())
            return tv_none()
        if args[0].hint not in ("set", "dict"):
            raise Unsupported("set.update with a non-set argument")
        a = self.as_addr(recv)
        b = self.as_addr(args[0])
        h = self.heap
        row_a = z3.Select(h.cur["dhas"], a)
        row_b = z3.Select(h.cur["dhas"], b)
        x, y = z3.Bools("mx my")
        new_row = z3.Map(z3.Or(x, y).decl(), row_a, row_b)
        n0 = self.hread("dklen", (a,))
        h = h.with_array("dhas", z3.Store(h.cur["dhas"], a, new_row))
        n1 = fresh("dklen_u", core.IntS)
        h = h.store("dklen", (a,), n1)
        h = h.with_array("dkey", z3.Store(h.cur["dkey"], a, fresh("dkey_u", h.cur["dkey"].sort().range())))
        self.heap = h
        self.assume(n1 >= n0)
        return tv_none()


