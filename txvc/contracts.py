"""
Contract language of txvc (sidecar; nothing in /repo is edited).

A contract file under /verif/contracts declares Unit(...) records.  Clauses
are Python expressions (strings) over the unit's parameters (entry values),
`result`, `exc`, `old(...)`, heap accessors and spec functions; they are
evaluated symbolically by txvc.symex.SpecEval.
"""

from __future__ import annotations

REGISTRY = {}  # unit name -> Unit
BY_TARGET = {}  # target -> Unit
SCHEMAS = {}  # class name -> Schema
SPECFNS = {}  # name -> SpecFn


class Ext:
    """An external (user supplied / dependency) callable at a call site.

    returns : type string of the result ('any' by default)
    raises  : 'any' | None | list of class names
    pure    : the call does not modify the heap
    ensures : clauses over `result` and the call's argument names a0, a1, ...
    protect : location specs the call is assumed not to modify (an ASSUMPTION,
              listed in the evidence)
    """

    def __init__(
        self,
        name,
        returns="any",
        raises="any",
        pure=False,
        ensures=(),
        protect=(),
        modifies=None,
        note="",
        preserves=(),
        requires=(),
    ):
        # requires: clauses over a0, a1, ... the caller must establish (CALL obligations)
        self.requires = list(requires)
        self.name = name
        self.returns = returns
        self.raises = raises
        self.pure = pure
        self.ensures = list(ensures)
        self.protect = list(protect)
        self.modifies = modifies
        self.note = note
        self.preserves = list(preserves)  # ASSUMED: the callable never writes these footprints


class Loop:
    def __init__(self, inv=(), modifies=(), variant=None, index="_i", bound=None, preserves=(),
                 pure=False, body_unit=None, protect=(), step=None):
        # step: with body_unit, also explore one iteration through the region unit's CONTRACT
        # (its requires become CALL obligations at the loop, its ensures carry INV-PRES);
        # default: whenever the loop has invariants
        self.step = bool(inv) if step is None else step
        # protect: with modifies=['*'] the only locations the body leaves unchanged
        self.protect = list(protect)
        # body_unit: name of the region unit that verifies the loop body (and the
        # preservation of the invariants, as its requires/ensures)
        self.body_unit = body_unit
        # pure: the body performs no heap write at all (checked at the end of
        # every body path); the heap is then not havocked at the loop head
        self.pure = pure
        self.inv = list(inv)
        self.modifies = list(modifies)
        self.variant = variant
        self.index = index
        self.bound = bound
        self.preserves = list(preserves)  # tracked footprints the body provably never writes


class Schema:
    """Shape of the instances of a class: which attributes every instance
    has, and their types.  Used as `is_valid()` precondition for parameters
    of that class and as type hints for attribute reads."""

    def __init__(self, name, fields=None, bases=("object",), cls_fields=None):
        self.name = name
        self.fields = dict(fields or {})
        self.bases = tuple(bases)
        self.cls_fields = dict(cls_fields or {})
        SCHEMAS[name] = self


class SpecFn:
    """A pure spec function.  Symbolically uninterpreted; `defn` (a Python
    expression over the parameter names) is instantiated once at every
    application that occurs in a clause (unfold-once)."""

    def __init__(self, name, params, ret, defn=None, unfold=1, heap=False, facts=(), reads=()):
        self.heap = heap  # value depends on object attributes: the heap is an implicit argument
        self.facts = list(facts)  # extra facts about F(args), instantiated at every application
        # footprint: attribute names ('[]' list contents, '{}' dict contents) the value depends on
        self.reads = list(reads)
        from .heap import TRACKED
        TRACKED.update(self.reads)
        self.name = name
        self.params = list(params)  # [(name, type)]
        self.ret = ret
        self.defn = defn
        self.unfold = unfold
        SPECFNS[name] = self


class Unit:
    def __init__(
        self,
        name,
        target,
        props,
        params=None,
        captured=None,
        requires=(),
        ensures=(),
        raises=None,
        modifies=None,
        loops=None,
        calls=None,
        inline=(),
        wd=False,
        allowed_exc=None,
        canary=None,
        ext_protect=(),
        locals=None,
        replay=None,
        decorators_dropped=(),
        ghost=None,
        lemmas=(),
        bounded=None,
        notes="",
        body_of=None,
        returns=None,
        returns_keys=None,
        assume_post_only=False,
        trusted=False,
        region=None,
        preserves=(),
        protects=(),
        export=None,
        regions=None,
    ):
        # regions: {region key -> unit name}: statements of this unit's code that are verified as
        # region units of their own and are replaced here by their contract
        self.regions = dict(regions or {})
        self.name = name
        self.target = target
        self.props = list(props)
        self.params = dict(params or {})
        self.captured = dict(captured or {})
        self.requires = list(requires)
        self.ensures = list(ensures)
        # raises: {class name or '*': [clauses]}
        self.raises = dict(raises or {})
        self.modifies = modifies
        self.loops = dict(loops or {})
        self.calls = dict(calls or {})
        self.inline = set(inline)
        self.wd = wd
        self.allowed_exc = allowed_exc
        self.canary = canary
        self.ext_protect = list(ext_protect)
        self.locals = dict(locals or {})
        self.replay = replay
        self.decorators_dropped = list(decorators_dropped)
        self.ghost = ghost or {}
        self.lemmas = list(lemmas)
        self.bounded = bounded
        self.notes = notes
        self.body_of = body_of
        self.returns = returns
        self.returns_keys = returns_keys  # result is a fresh dict with exactly these string keys
        self.trusted = trusted
        self.preserves = list(preserves)  # footprints the unit provably never writes (POST obligation)
        # with modifies=['*']: locations that are nevertheless left unchanged (FRAME obligation
        # of the unit, assumption at its call sites)
        self.protects = list(protects)
        # export: labels of the clauses callers may assume (None = all caller-visible ones);
        # proving stays complete, callers just do not carry facts they never use
        self.export = export
        self.region = region  # "body:<loopkey>" | "stmt:<loopkey>": the unit is a statement region
        import sys as _sys

        self.module = _sys._getframe(1).f_globals.get("__name__", "")
        REGISTRY[name] = self
        if region is None:
            BY_TARGET[target] = self

    def clause_items(self):
        out = []
        for i, c in enumerate(self.ensures):
            out.append(("POST", i, c))
        for k, cl in self.raises.items():
            for i, c in enumerate(cl):
                out.append(("EXC:" + k, i, c))
        return out


def named(clause):
    """A clause may be 'text' or ('label', 'text') or ('label','text','Cxx')."""
    if isinstance(clause, tuple):
        if len(clause) == 3:
            return clause[0], clause[1], clause[2]
        return clause[0], clause[1], None
    return None, clause, None
