"""FST back end: exact decision of properties of chains of str.replace with constant arguments.

Alphabet: one class per character that occurs in a pattern / replacement / monitor, plus OTHER
("any other code point": no pattern mentions it, so every stage passes it through unchanged and in
order).  A stage is the streaming form of Python's str.replace (leftmost, non-overlapping, left to
right): it buffers the longest suffix of what it has read that is still a proper prefix of the pattern.
A chain is the sequential composition of stages.  Two decision procedures, both by exhaustive
exploration of the (finite) reachable configurations - complete for ALL input strings:

  identity(chain)             the chain maps every string to itself
  output_in(chain, monitor)   every output of the chain is accepted by a DFA over the output

A-REPLACE: the streaming stage computes str.replace; cross-checked against CPython on every string up
to a given length over one representative per alphabet class (cross_check), on every run.
"""

from __future__ import annotations

import itertools

OTHER = "␀"  # stands for every code point that no constant mentions


class Replace:
    def __init__(self, pattern, repl):
        if not pattern:
            raise ValueError("empty pattern: str.replace('', r) inserts between all characters (not modelled)")
        self.p, self.r = pattern, repl

    def start(self):
        return ""

    def step(self, buf, c):
        """(new buffer, output) after reading character c"""
        buf += c
        out = ""
        while True:
            if buf == self.p:
                return "", out + self.r
            if self.p.startswith(buf):
                return buf, out
            out += buf[0]
            buf = buf[1:]

    def flush(self, buf):
        return buf

    def __repr__(self):
        return f"replace({self.p!r}, {self.r!r})"


def alphabet(chain, extra=""):
    cs = set(extra)
    for st in chain:
        cs.update(st.p)
        cs.update(st.r)
    return sorted(cs) + [OTHER]


def run_chain(chain, states, c):
    """feed one input character through all stages; returns (new states, output string)"""
    data = c
    new = []
    for st, s in zip(chain, states):
        out = ""
        for ch in data:
            s, o = st.step(s, ch)
            out += o
        new.append(s)
        data = out
    return tuple(new), data


def flush_chain(chain, states):
    """end of input: flush every stage in order (the flushed text of stage k still runs through k+1..)"""
    data = ""
    for st, s in zip(chain, states):
        out = ""
        for ch in data:
            s, o = st.step(s, ch)
            out += o
        out += st.flush(s)
        data = out
    return data


def identity(chain, extra="", max_lag=8):
    """None if chain(s) == s for every string s, else a shortest counterexample string (with OTHER
    standing for any other character); raises if the lag between input and output is unbounded."""
    alpha = alphabet(chain, extra)
    start = (tuple(st.start() for st in chain), "")
    seen = {start: ""}
    todo = [start]
    while todo:
        nxt = []
        for cfg in todo:
            states, pending = cfg
            witness = seen[cfg]
            # end of input here
            tail = flush_chain(chain, states)
            if tail != pending:
                return witness
            for c in alpha:
                ns, out = run_chain(chain, states, c)
                pend = pending + c
                if not pend.startswith(out) and not out.startswith(pend):
                    return witness + c
                if len(out) > len(pend):
                    return witness + c
                if not pend.startswith(out):
                    return witness + c
                pend = pend[len(out):]
                if len(pend) > max_lag:
                    raise RuntimeError("unbounded lag between input and output")
                cfg2 = (ns, pend)
                if cfg2 not in seen:
                    seen[cfg2] = witness + c
                    nxt.append(cfg2)
        todo = nxt
    return None


def output_in(chain, monitor_step, monitor_start, monitor_accepts, extra=""):
    """None if every output of the chain is accepted by the monitor DFA (monitor_step(state, char) -> state or
    None for a dead state), else a shortest input whose output is rejected."""
    alpha = alphabet(chain, extra)
    start = (tuple(st.start() for st in chain), monitor_start)
    seen = {start: ""}
    todo = [start]
    while todo:
        nxt = []
        for cfg in todo:
            states, m = cfg
            witness = seen[cfg]
            mm = m
            ok = True
            for ch in flush_chain(chain, states):
                mm = monitor_step(mm, ch)
                if mm is None:
                    ok = False
                    break
            if not ok or not monitor_accepts(mm):
                return witness
            for c in alpha:
                ns, out = run_chain(chain, states, c)
                m2 = m
                for ch in out:
                    m2 = monitor_step(m2, ch)
                    if m2 is None:
                        return witness + c
                cfg2 = (ns, m2)
                if cfg2 not in seen:
                    seen[cfg2] = witness + c
                    nxt.append(cfg2)
        todo = nxt
    return None


def concretise(s, other="x"):
    return s.replace(OTHER, other)


def apply_chain(chain, s):
    states = tuple(st.start() for st in chain)
    out = ""
    for c in s:
        states, o = run_chain(chain, states, c)
        out += o
    return out + flush_chain(chain, states)


def cross_check(chain, maxlen=6, extra=""):
    """A-REPLACE: the streaming chain agrees with CPython's str.replace on every string up to maxlen over
    the alphabet (OTHER represented by 'x' and by 'y').  Returns a disagreeing string or None."""
    alpha = [c for c in alphabet(chain, extra) if c != OTHER] + ["x", "y"]
    for n in range(maxlen + 1):
        for tup in itertools.product(alpha, repeat=n):
            s = "".join(tup)
            want = s
            for st in chain:
                want = want.replace(st.p, st.r)
            if apply_chain(chain, s) != want:
                return s
    return None
