"""development driver: python -m txvc.dev <contract module> [unit name]"""
import importlib
import sys

from .contracts import REGISTRY
from .interp import verify_unit
from .world import World


def name_in_module(u, mod):
    import inspect

    src = inspect.getsource(sys.modules["contracts." + mod])
    return f'"{u.name}"' in src


def main():
    mod = sys.argv[1]
    importlib.import_module("contracts." + mod)
    w = World()
    for name, u in REGISTRY.items():
        sel = [a for a in sys.argv[2:] if not a.startswith("-")]
        if sel and name not in sel:
            continue
        if u.trusted:
            continue
        if not sel and u.module != "contracts." + mod:
            continue
        res = verify_unit(w, u, {"timeout_ms": 10000})
        print(f"== {name}: paths={res.paths} ended={res.ended} oblig={len(res.obligs)} "
              f"solver={res.solver_time:.2f}s wall={res.wall:.2f}s outcomes={res.outcomes}")
        for e in res.errors:
            print("  ERROR", e[0], e[1])
        for ob in res.obligs:
            if ob.result != "proved" or "-v" in sys.argv:
                print(f"  {ob.result:8} {ob.kind:8} {ob.label:40} {ob.where:14} {ob.text[:70]}")
                if ob.result == "refuted" and ob.kind != "CANARY":
                    print("           model:", {k: v for k, v in (ob.model or {}).items()})


main()
