"""
Heap snapshots with lazily instantiated frame facts and footprint versions.

A Heap is a record of z3 arrays (see core.HEAP_FIELDS); per-object rows are
nested arrays.  Ordinary writes are explicit Store terms.  A *havoc*
(external call, loop head, callee contract) creates fresh base arrays plus a
rule "where cond(field, idx) holds the location is unchanged w.r.t. the parent
snapshot".  The rule is not asserted as a quantified axiom: every read that
goes through Heap.read instantiates it at the indices read (manual
E-matching), which keeps all VCs ground and lets the solver answer `sat` with
a model for refuted obligations.

Footprint versions: heap-dependent spec functions (root_of, depth, conf, ...)
declare the attribute names they read.  Each snapshot carries one version term
per tracked name ('[]' = contents of lists, '{}' = contents of dicts); a write
to an attribute of that name (or a havoc that does not promise to preserve it)
replaces the version by a fresh one.  A spec function applied in two snapshots
with equal versions denotes the same function - that is its frame rule.
"""

from __future__ import annotations

import z3

from .core import HEAP_FIELDS, NESTED, IntS, fresh

TRACKED = set()  # attribute names some SpecFn reads (filled by contracts.SpecFn)


def sel(arr, idx):
    t = z3.Select(arr, idx[0])
    if len(idx) > 1:
        t = z3.Select(t, idx[1])
    return t


class Heap:
    __slots__ = ("cur", "base", "rule", "tag", "ver")

    def __init__(self, cur, base=None, rule=None, tag="", ver=None):
        self.cur = dict(cur)
        self.base = dict(base) if base is not None else dict(cur)
        # None | (parent Heap, condfn(field, idx) -> z3 Bool | None, fieldset)
        self.rule = rule
        self.tag = tag
        self.ver = dict(ver) if ver is not None else {}

    @staticmethod
    def fresh(tag="H"):
        cur = {k: fresh(f"{tag}_{k}", s) for k, s in HEAP_FIELDS.items()}
        ver = {n: fresh("ver_" + n, IntS) for n in sorted(TRACKED)}
        return Heap(cur, tag=tag, ver=ver)

    def version(self, name):
        if name not in self.ver:
            self.ver[name] = z3.Const("ver0_" + name, IntS)
        return self.ver[name]

    def _bumped(self, field, idx):
        """versions after a write to (field, idx)"""
        if not self.ver:
            return self.ver
        ver = dict(self.ver)
        if field in ("fld", "has") and "@attr" in ver:
            ver["@attr"] = fresh("ver_anyattr", IntS)  # footprint 'any attribute of any object'
        if field in ("fld", "has"):
            if len(idx) == 2:
                nm = z3.simplify(idx[1])
                if z3.is_string_value(nm):
                    s = nm.as_string()
                    if s in ver:
                        ver[s] = fresh("ver_" + s, IntS)
                else:
                    for s in list(ver):
                        if s not in ("[]", "{}"):
                            ver[s] = z3.If(nm == z3.StringVal(s), fresh("ver_" + s, IntS), ver[s])
            else:
                for s in list(ver):
                    if s not in ("[]", "{}"):
                        ver[s] = fresh("ver_" + s, IntS)
        elif field in ("llen", "lelem"):
            if "[]" in ver:
                ver["[]"] = fresh("ver_list", IntS)
        elif field in ("dhas", "dval", "dklen", "dkey"):
            if "{}" in ver:
                ver["{}"] = fresh("ver_dict", IntS)
        return ver

    def havoc(self, condfn, tag="Hv", fields=None, preserves=()):
        """New snapshot: the listed fields (default all) get fresh base arrays;
        where condfn(field, idx) holds they equal this snapshot.  For nested
        fields condfn is first asked with idx=(a,) (whole row unchanged?) and,
        if that yields None, with idx=(a, k).  None = no information.
        Versions of tracked names not in `preserves` become fresh."""
        flds = frozenset(HEAP_FIELDS if fields is None else fields)
        cur = dict(self.cur)
        base = dict(self.base)
        for k in flds:
            cur[k] = fresh(f"{tag}_{k}", HEAP_FIELDS[k])
            base[k] = cur[k]
        ver = {}
        for n, v in self.ver.items():
            ver[n] = v if n in preserves else fresh("ver_" + ("list" if n == "[]" else "dict" if n == "{}" else n), IntS)
        return Heap(cur, base, (self, condfn, flds), tag=tag, ver=ver)

    def store(self, field, idx, value, bump=True):
        if not bump:
            cur = dict(self.cur)
            arr = self.cur[field]
            if len(idx) == 1:
                cur[field] = z3.Store(arr, idx[0], value)
            else:
                cur[field] = z3.Store(arr, idx[0], z3.Store(z3.Select(arr, idx[0]), idx[1], value))
            return Heap(cur, self.base, self.rule, self.tag, self.ver)
        cur = dict(self.cur)
        arr = self.cur[field]
        if len(idx) == 1:
            cur[field] = z3.Store(arr, idx[0], value)
        else:
            cur[field] = z3.Store(arr, idx[0], z3.Store(z3.Select(arr, idx[0]), idx[1], value))
        return Heap(cur, self.base, self.rule, self.tag, self._bumped(field, idx))

    def with_array(self, field, term, bump=True):
        cur = dict(self.cur)
        cur[field] = term
        return Heap(cur, self.base, self.rule, self.tag,
                    self._bumped(field, (None,)) if bump else self.ver)

    def read(self, field, idx, facts):
        """Select + frame facts for this location (appended to `facts`)."""
        t = sel(self.cur[field], idx)
        self._emit(field, idx, facts)
        return t

    def _emit(self, field, idx, facts):
        h = self
        depth = 0
        while h.rule is not None and depth < 200:
            parent, cond, flds = h.rule
            if field in flds:
                done = False
                if field in NESTED and len(idx) == 2:
                    c = cond(field, (idx[0],))
                    if c is not None and not z3.is_false(c):
                        eq = z3.Select(h.base[field], idx[0]) == z3.Select(
                            parent.cur[field], idx[0])
                        facts.append(eq if z3.is_true(c) else z3.Implies(c, eq))
                        done = z3.is_true(c)
                if not done:
                    c = cond(field, idx)
                    if c is not None and not z3.is_false(c):
                        eq = sel(h.base[field], idx) == sel(parent.cur[field], idx)
                        facts.append(eq if z3.is_true(c) else z3.Implies(c, eq))
            h = parent
            depth += 1
