"""
txvc world: reads the REAL sources of /repo/textx on every run and indexes
them: modules, top-level constants, classes, functions, imports.  Units are
located by `file::qualname` paths, e.g.

    textx/model.py::parse_tree_to_objgraph.process_node
    textx/model.py::get_model_parser.TextXModelParser.clone
    textx/metamodel.py::TextXMetaModel.process

What extraction drops (stated in the evidence): docstrings, annotations,
decorators (listed per unit), `if TYPE_CHECKING:` blocks.  Nothing else.
"""

from __future__ import annotations

import ast
import hashlib
import os

REPO = os.environ.get("TXVC_REPO", "/repo")


class ModuleInfo:
    def __init__(self, relpath, modname, tree, source):
        self.relpath = relpath
        self.modname = modname
        self.tree = tree
        self.source = source
        self.consts = {}  # name -> python literal
        self.classes = {}  # name -> ast.ClassDef
        self.funcs = {}  # name -> ast.FunctionDef
        self.imports = {}  # local name -> (module, name|None)
        self.assigns = {}  # name -> ast expr (non literal top-level assignments)


class World:
    def __init__(self, repo=None):
        self.repo = repo or REPO
        self.modules = {}  # modname -> ModuleInfo
        self.by_path = {}  # relpath -> ModuleInfo
        self._load()

    # ------------------------------------------------------------------
    def _load(self):
        base = os.path.join(self.repo, "textx")
        for dirpath, _dirs, files in os.walk(base):
            for fn in sorted(files):
                if not fn.endswith(".py"):
                    continue
                full = os.path.join(dirpath, fn)
                rel = os.path.relpath(full, self.repo)
                mod = rel[:-3].replace(os.sep, ".")
                if mod.endswith(".__init__"):
                    mod = mod[: -len(".__init__")]
                with open(full, encoding="utf-8") as f:
                    src = f.read()
                tree = ast.parse(src, filename=full)
                mi = ModuleInfo(rel, mod, tree, src)
                self._index(mi)
                self.modules[mod] = mi
                self.by_path[rel] = mi

    def _index(self, mi):
        def scan(body):
            for st in body:
                if isinstance(st, ast.If):
                    t = st.test
                    if isinstance(t, ast.Name) and t.id == "TYPE_CHECKING":
                        continue
                    scan(st.body)
                    scan(st.orelse)
                elif isinstance(st, ast.Assign) and len(st.targets) == 1:
                    tg = st.targets[0]
                    if isinstance(tg, ast.Name):
                        try:
                            mi.consts[tg.id] = ast.literal_eval(st.value)
                        except Exception:
                            mi.assigns[tg.id] = st.value
                elif isinstance(st, ast.AnnAssign) and isinstance(st.target, ast.Name):
                    if st.value is not None:
                        try:
                            mi.consts[st.target.id] = ast.literal_eval(st.value)
                        except Exception:
                            mi.assigns[st.target.id] = st.value
                elif isinstance(st, ast.ClassDef):
                    mi.classes[st.name] = st
                elif isinstance(st, (ast.FunctionDef, ast.AsyncFunctionDef)):
                    mi.funcs[st.name] = st
                elif isinstance(st, ast.ImportFrom):
                    modname = st.module or ""
                    if st.level:
                        parts = mi.modname.split(".")
                        if not mi.relpath.endswith("__init__.py"):
                            parts = parts[:-1]
                        parts = parts[: len(parts) - (st.level - 1)]
                        modname = ".".join(parts + ([st.module] if st.module else []))
                    for al in st.names:
                        mi.imports[al.asname or al.name] = (modname, al.name)
                elif isinstance(st, ast.Import):
                    for al in st.names:
                        mi.imports[al.asname or al.name.split(".")[0]] = (
                            al.name if al.asname else al.name.split(".")[0],
                            None,
                        )

        scan(mi.tree.body)

    # ------------------------------------------------------------------
    def locate(self, target):
        """Return (ModuleInfo, node, chain) for 'relpath::a.b.c'.  chain is the
        list of enclosing nodes (outermost first)."""
        relpath, _, qual = target.partition("::")
        mi = self.by_path.get(relpath)
        if mi is None:
            raise LookupError(f"no module {relpath}")
        node = mi.tree
        chain = []
        for seg in qual.split("."):
            found = None
            if seg.startswith("<lambda:"):
                # <lambda:KEY> : the lambda stored under dict key KEY in the
                # enclosing function
                key = seg[len("<lambda:") : -1]
                for n in ast.walk(node):
                    if isinstance(n, ast.Dict):
                        for k, v in zip(n.keys, n.values):
                            if (
                                isinstance(k, ast.Constant)
                                and k.value == key
                                and isinstance(v, ast.Lambda)
                            ):
                                found = v
                if found is None:
                    raise LookupError(f"no lambda under key {key!r} in {target}")
            else:
                found = self._find_def(node, seg)
                if found is None:
                    raise LookupError(f"no definition {seg!r} in {target}")
            chain.append(node)
            node = found
        return mi, node, chain

    @staticmethod
    def _find_def(node, name):
        """Find def/class `name` defined directly in node's body (also under
        if/try/with/for blocks of that body, not inside nested defs)."""
        stack = list(getattr(node, "body", []))
        while stack:
            st = stack.pop(0)
            if isinstance(st, (ast.FunctionDef, ast.ClassDef, ast.AsyncFunctionDef)):
                if st.name == name:
                    return st
                continue
            for fld in ("body", "orelse", "finalbody", "handlers"):
                sub = getattr(st, fld, None)
                if sub:
                    for s in sub:
                        if isinstance(s, ast.ExceptHandler):
                            stack.extend(s.body)
                        else:
                            stack.append(s)
        return None

    def source_hash(self, node, mi):
        seg = ast.get_source_segment(mi.source, node) or ast.dump(node)
        return hashlib.sha256(seg.encode()).hexdigest()[:16]

    # ------------------------------------------------------------------
    def resolve_global(self, mi, name, _depth=0):
        """Resolve a module-level name to ('const', v) | ('class', mod, ClassDef)
        | ('func', mod, FunctionDef) | ('module', modname) | ('assign', mod, expr)
        | None."""
        if _depth > 8:
            return None
        if name in mi.consts:
            return ("const", mi.consts[name])
        if name in mi.classes:
            return ("class", mi, mi.classes[name])
        if name in mi.funcs:
            return ("func", mi, mi.funcs[name])
        if name in mi.assigns:
            return ("assign", mi, mi.assigns[name])
        if name in mi.imports:
            modname, attr = mi.imports[name]
            if attr is None:
                return ("module", modname)
            tm = self.modules.get(modname)
            if tm is not None:
                r = self.resolve_global(tm, attr, _depth + 1)
                if r is not None:
                    return r
                # maybe a submodule
                if modname + "." + attr in self.modules:
                    return ("module", modname + "." + attr)
                return None
            return ("extern", modname, attr)
        return None


def strip_docstring(body):
    if (
        body
        and isinstance(body[0], ast.Expr)
        and isinstance(body[0].value, ast.Constant)
        and isinstance(body[0].value.value, str)
    ):
        return body[1:]
    return body
