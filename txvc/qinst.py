"""
Ground instantiation fallback for queries z3 leaves `unknown`.

Given path condition facts and a goal, skolemise the negated goal, instantiate
every universally quantified fact of the path condition at the index terms
that occur in the ground part (two rounds), and solve the resulting
quantifier-free query.

* unsat  -> the goal is PROVED (instances are consequences of the facts)
* sat    -> only a CANDIDATE counterexample (the un-instantiated part of the
            quantified facts is ignored); the caller treats it as `weak` and
            reports a violation only if it replays natively.
"""

from __future__ import annotations

import itertools

import z3


def _is_forall(t):
    return z3.is_quantifier(t) and t.is_forall()


def _skolemize_neg(goal):
    """ground formula G' such that not(goal) is satisfiable iff G' is (top-level
    foralls / implications-to-forall only)"""
    g = goal
    consts = []
    # peel: goal = Implies(A, ForAll..) or ForAll.. or And(...)
    if _is_forall(g):
        vs = [z3.FreshConst(g.var_sort(i), "sk") for i in range(g.num_vars())]
        body = z3.substitute_vars(g.body(), *reversed(vs))
        neg, more = _skolemize_neg(body)
        return neg, vs + more
    if z3.is_implies(g):
        a, b = g.arg(0), g.arg(1)
        nb, cs = _skolemize_neg(b)
        return z3.And(a, nb), cs
    if z3.is_and(g):
        negs = []
        allc = []
        for ch in g.children():
            nb, cs = _skolemize_neg(ch)
            negs.append(nb)
            allc.extend(cs)
        return z3.Or(*negs), allc
    if z3.is_not(g) and z3.is_quantifier(g.arg(0)) and not g.arg(0).is_forall():
        # not exists x. P  ==  forall x. not P
        q = g.arg(0)
        vs = [z3.FreshConst(q.var_sort(i), "sk") for i in range(q.num_vars())]
        body = z3.substitute_vars(q.body(), *reversed(vs))
        return body, vs
    return z3.Not(g), consts


def _index_terms(fmls, sort, limit=24):
    """ground terms of the given sort that are used as array indices or as
    arguments of uninterpreted functions"""
    out = {}
    seen = set()
    stack = list(fmls)
    while stack:
        t = stack.pop()
        i = t.get_id()
        if i in seen:
            continue
        seen.add(i)
        if z3.is_quantifier(t):
            continue
        if z3.is_app(t):
            k = t.decl().kind()
            if k == z3.Z3_OP_SELECT or k == z3.Z3_OP_UNINTERPRETED:
                for ch in t.children()[(1 if k == z3.Z3_OP_SELECT else 0):]:
                    if ch.sort().eq(sort) and not z3.is_var(ch):
                        out.setdefault(ch.get_id(), ch)
            stack.extend(t.children())
    return list(out.values())[:limit]


def _instances(q, terms_by_sort, max_inst=400):
    n = q.num_vars()
    pools = []
    for i in range(n):
        pools.append(terms_by_sort.get(q.var_sort(i).name(), []))
    if any(not p for p in pools):
        return []
    out = []
    for combo in itertools.islice(itertools.product(*pools), max_inst):
        out.append(z3.substitute_vars(q.body(), *reversed(combo)))
    return out


def solve_by_instantiation(axioms, pc, goal, timeout_ms=10000):
    neg, sks = _skolemize_neg(goal)
    ground = [p for p in pc if not _contains_quant(p)]
    quant = []
    for p in pc:
        if _contains_quant(p):
            quant.extend(_top_foralls(p))
    # the skolemised negated goal may still contain `not exists m. B` conjuncts
    # (goal of shape forall j. A => exists m. B): they are universal facts too
    neg_ground = []
    for cj in _conjuncts(neg):
        if z3.is_not(cj) and z3.is_quantifier(cj.arg(0)) and not cj.arg(0).is_forall():
            q = cj.arg(0)
            names = [q.var_name(i) for i in range(q.num_vars())]
            sorts = [q.var_sort(i) for i in range(q.num_vars())]
            vs = [z3.Const(f"nq!{nm}!{q.get_id()}", s) for nm, s in zip(names, sorts)]
            body = z3.substitute_vars(q.body(), *reversed(vs))
            quant.append((None, z3.ForAll(vs, z3.Not(body))))
        else:
            neg_ground.append(cj)
    # facts that contain a quantifier below the top level (a definitional equation `F(x) == (A or exists m. B)`):
    # keep their propositional skeleton - every maximal quantified subformula becomes an unconstrained atom
    # (an over-approximation of the models, so `unsat` remains a proof)
    skeletons = []
    for p in pc:
        if _contains_quant(p) and not _top_foralls(p):
            sk = _abstract_quantifiers(p)
            if sk is not None:
                skeletons.append(sk)
    base = list(axioms) + ground + neg_ground + skeletons
    insts = []
    for _round in range(2):
        terms = {}
        for srt in {s.sort().name(): s.sort() for s in sks}.values():
            ts = _index_terms(base + insts, srt)
            have = {t.get_id() for t in ts}
            ts += [s for s in sks if s.sort().eq(srt) and s.get_id() not in have]
            terms[srt.name()] = ts
        if "Int" not in terms:
            terms["Int"] = _index_terms(base + insts, z3.IntSort())
        new = []
        for guard, q in quant:
            for inst in _instances(q, terms):
                new.append(z3.Implies(guard, inst) if guard is not None else inst)
        insts = new
    s = z3.Solver()
    s.set("timeout", timeout_ms)
    for f in base + insts:
        if not _contains_quant(f):
            s.add(f)
    r = s.check()
    if r == z3.unsat:
        return "unsat", None
    if r == z3.sat:
        return "sat", s.model()
    return "unknown", None


def _conjuncts(t):
    if z3.is_and(t):
        out = []
        for ch in t.children():
            out.extend(_conjuncts(ch))
        return out
    return [t]


_qcache = {}


def _contains_quant(t):
    i = t.get_id()
    if i in _qcache:
        return _qcache[i]
    seen = set()
    stack = [t]
    res = False
    while stack:
        x = stack.pop()
        k = x.get_id()
        if k in seen:
            continue
        seen.add(k)
        if z3.is_quantifier(x):
            res = True
            break
        stack.extend(x.children())
    _qcache[i] = res
    return res


def _top_foralls(p):
    """[(guard|None, forall)] for facts of the shapes ForAll.., Implies(g, ForAll..), And(..)"""
    if _is_forall(p):
        return [(None, p)]
    if z3.is_implies(p) and _is_forall(p.arg(1)) and not _contains_quant(p.arg(0)):
        return [(p.arg(0), p.arg(1))]
    if z3.is_and(p):
        out = []
        for ch in p.children():
            out.extend(_top_foralls(ch))
        return out
    return []


_atom_cache = {}


def _abstract_quantifiers(t):
    """t with every maximal closed quantified subformula replaced by a Bool atom (one atom per subformula)"""
    subs = []
    seen = set()
    stack = [t]
    while stack:
        x = stack.pop()
        k = x.get_id()
        if k in seen:
            continue
        seen.add(k)
        if z3.is_quantifier(x):
            if k not in _atom_cache:
                _atom_cache[k] = z3.Bool(f"qatom!{k}")
            subs.append((x, _atom_cache[k]))
            continue
        stack.extend(x.children())
    try:
        r = z3.substitute(t, *subs)
    except z3.Z3Exception:
        return None
    return None if _contains_quant(r) else r
