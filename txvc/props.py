"""Per-property glue: extra (non-symex) checks, replay files, trusted base."""

from __future__ import annotations

import json
import os
import re
import subprocess
import sys

EXTRAS = {}  # pid -> [callable(tier, seed) -> result dict]
REPLAYS = {}  # unit name -> callable(model dict) -> (reproduced: bool, detail: str)
TRUSTED = {}  # pid -> [str]
ASSUME = {}  # pid -> [str]

T_PY = "T-PY: CPython 3.12 semantics as encoded by txvc (DESIGN.md 2.2)"
T_SMT = "T-SMT: z3 / cvc5 answer unsat only when unsat"
T_ENG = "T-ENG: txvc itself (mitigated by must-fail canaries and the mutation drill)"
T_ARP = "T-ARP: Arpeggio 2.0.3 parsing expressions, node positions, visitor protocol"


def extra(pid):
    def deco(fn):
        EXTRAS.setdefault(pid, []).append(fn)
        return fn

    return deco


def replay_for(unit_name):
    def deco(fn):
        REPLAYS[unit_name] = fn
        return fn

    return deco


def run_extras(pid, tier, seed):
    out = []
    for fn in EXTRAS.get(pid, []):
        try:
            out.append(fn(tier, seed))
        except Exception as e:
            import traceback

            out.append({"name": fn.__name__, "obligations": 0, "discharged": 0,
                        "errors": [f"{type(e).__name__}: {e}\n{traceback.format_exc(limit=5)}"]})
    return out


def trusted_base(pid):
    return [T_PY, T_SMT, T_ENG] + TRUSTED.get(pid, [])


def extra_assumptions(pid):
    return list(ASSUME.get(pid, []))


def _safe(s):
    return re.sub(r"[^A-Za-z0-9_.-]+", "_", s)[:120]


def write_replay(pid, ob, here):
    ident = f"{ob['unit']}/{ob['kind']}:{ob['label']}"
    path = os.path.join(here, "replays", f"{pid}-{_safe(ident)}.json")
    with open(path, "w") as f:
        json.dump({"property": pid, "obligation": ident, "unit": ob["unit"], "clause": ob["text"],
                   "where": ob["where"], "path": ob["path"], "model": ob.get("model"),
                   "verifier_output": ob.get("verifier_output", "z3: sat (counter-model above)"),
                   "native_replay": None}, f, indent=1, default=str)
    return path


def try_native_replay(pid, ob, path):
    """Run the unit's replay driver in a subprocess against the real code."""
    here = os.path.dirname(os.path.dirname(os.path.abspath(__file__)))
    try:
        p = subprocess.run([sys.executable, "-m", "txvc.cli", pid, "--replay", path],
                           cwd=here, capture_output=True, text=True, timeout=120)
    except Exception as e:
        return False
    ok = p.returncode == 1
    try:
        with open(path) as f:
            d = json.load(f)
        d["native_replay"] = {"reproduced": ok, "output": (p.stdout + p.stderr)[-2000:]}
        with open(path, "w") as f:
            json.dump(d, f, indent=1, default=str)
    except Exception:
        pass
    return ok


def run_replay(pid, path):
    """exit 1 = the recorded counterexample reproduces on the real code,
    0 = it does not (or no driver)."""
    with open(path) as f:
        d = json.load(f)
    fn = REPLAYS.get(d.get("unit"))
    if fn is None:
        print(f"no native replay driver for unit {d.get('unit')}; obligation {d.get('obligation')}")
        return 0
    try:
        ok, detail = fn(d.get("model") or {}, d)
    except Exception as e:
        import traceback

        print("replay driver crashed:", e)
        traceback.print_exc()
        return 0
    print(detail)
    if ok:
        print(f"VIOLATION property={pid} replay={path}")
        return 1
    print("counterexample did not reproduce natively")
    return 0


def exec_region_natively(target, region, env):
    """Run one statement region of the REAL source (located like the unit's
    region) natively, with the real module's globals plus `env`."""
    import ast
    import importlib

    from .world import World

    w = World()
    mi, node, _ = w.locate(target)
    kind, _, key = region.partition(":")
    found = None
    for nd in ast.walk(node):
        if isinstance(nd, ast.For) and "for:" + ast.unparse(nd.iter) == key:
            found = nd
        elif isinstance(nd, ast.While) and "while:" + ast.unparse(nd.test) == key:
            found = nd
        elif isinstance(nd, ast.Assign) and kind == "assign" and ast.unparse(nd.targets[0]) == key:
            found = nd
        elif isinstance(nd, ast.If) and kind == "if" and ast.unparse(nd.test) == key:
            found = nd
    if found is None:
        raise LookupError(region)
    body = found.body if kind == "body" else [found]
    mod = importlib.import_module(mi.modname)
    g = dict(vars(mod))
    g.update(env)
    code = compile(ast.fix_missing_locations(ast.Module(body=body, type_ignores=[])), mi.relpath, "exec")
    exec(code, g)
    return g


def loop_key(target, ordinal=1, kind="for"):
    """'for:<iter text>' / 'while:<test text>' of the ordinal-th loop (source order) of a
    function in the CURRENT sources - used by contracts so that the key never has to be typed"""
    import ast

    from .world import World

    w = World()
    _mi, node, _ = w.locate(target)
    loops = [n for n in ast.walk(node) if isinstance(n, ast.For if kind == "for" else ast.While)]
    loops.sort(key=lambda n: (n.lineno, n.col_offset))
    n = loops[ordinal - 1]
    return ("for:" + ast.unparse(n.iter)) if kind == "for" else ("while:" + ast.unparse(n.test))
