"""Second-opinion solver: cvc5 on the SMT-LIB rendering of a z3 query."""

from __future__ import annotations

import os
import subprocess
import tempfile


def cvc5_check(z3_solver, timeout_ms):
    try:
        smt = z3_solver.to_smt2()
    except Exception:
        return "unknown"
    if "declare-datatypes" in smt and "(_ is " not in smt and False:
        pass
    fd, path = tempfile.mkstemp(suffix=".smt2", prefix="txvc-")
    try:
        with os.fdopen(fd, "w") as f:
            f.write("(set-logic ALL)\n" + smt)
        try:
            p = subprocess.run(
                ["/usr/bin/cvc5", "--strings-exp", f"--tlimit={int(timeout_ms)}", path],
                capture_output=True, text=True, timeout=timeout_ms / 1000 + 5,
            )
        except Exception:
            return "unknown"
        out = p.stdout.strip().splitlines()
        if out and out[0] in ("sat", "unsat"):
            return out[0]
        return "unknown"
    finally:
        try:
            os.unlink(path)
        except OSError:
            pass
