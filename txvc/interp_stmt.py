"""Statement execution (mixin for Interp)."""

from __future__ import annotations

import ast
import os

import z3

from . import core
from .core import CLASSES, NONE, Val, cls_of, mk_ref, subclass
from .symex import (
    TV, BreakSig, Builtin, ContinueSig, Frame, PathEnd, PyClass, PyFunc, PyModule,
    PyRaise, ReturnSig, Unsupported, BUILTIN_NAMES, const_tv, py, tv_none,
)

MODULE_ADDRS = {}


def module_addr(modname):
    if modname not in MODULE_ADDRS:
        MODULE_ADDRS[modname] = -500000 - len(MODULE_ADDRS)
    return MODULE_ADDRS[modname]


def assigned_names(stmts):
    """names (re)bound by a block, not descending into nested defs"""
    out = set()

    def tgt(t):
        if isinstance(t, ast.Name):
            out.add(t.id)
        elif isinstance(t, (ast.Tuple, ast.List)):
            for e in t.elts:
                tgt(e)
        elif isinstance(t, ast.Starred):
            tgt(t.value)

    def walk(ss):
        for s in ss:
            if isinstance(s, (ast.FunctionDef, ast.ClassDef)):
                out.add(s.name)
                continue
            if isinstance(s, ast.Assign):
                for t in s.targets:
                    tgt(t)
            elif isinstance(s, (ast.AugAssign, ast.AnnAssign)):
                tgt(s.target)
            elif isinstance(s, ast.For):
                tgt(s.target)
            elif isinstance(s, ast.With):
                for it in s.items:
                    if it.optional_vars is not None:
                        tgt(it.optional_vars)
            elif isinstance(s, (ast.Import, ast.ImportFrom)):
                for al in s.names:
                    out.add((al.asname or al.name).split(".")[0])
            for fld in ("body", "orelse", "finalbody"):
                sub = getattr(s, fld, None)
                if sub and not isinstance(s, (ast.FunctionDef, ast.ClassDef)):
                    walk(sub)
            if isinstance(s, ast.Try):
                for h in s.handlers:
                    if h.name:
                        out.add(h.name)
                    walk(h.body)
            for n in ast.walk(s) if not isinstance(s, (ast.FunctionDef, ast.ClassDef)) else ():
                if isinstance(n, ast.NamedExpr):
                    tgt(n.target)

    walk(stmts)
    return out


class StmtMixin:
    # ------------------------------------------------------------- names
    def global_names_of(self, mi):
        if not hasattr(mi, "_mut_globals"):
            s = set()
            for n in ast.walk(mi.tree):
                if isinstance(n, ast.Global):
                    s.update(n.names)
            mi._mut_globals = s
        return mi._mut_globals

    def lookup(self, name, frame):
        f = frame
        while f is not None:
            if name in f.vars:
                return f.vars[name]
            f = f.parent
        mi = self.frame_mi(frame)
        if name in self.global_names_of(mi):
            a = z3.IntVal(module_addr(mi.modname))
            v = self.hread("fld", (a, z3.StringVal(name)))
            self.closed(v)
            hint = (self.unit.locals or {}).get("global:" + name)
            tv = self.from_val(v, hint)
            self.apply_hint_facts(tv)
            return tv
        r = self.world.resolve_global(mi, name)
        if r is not None:
            return self.global_entity(r, name)
        if name in BUILTIN_NAMES:
            return py(Builtin(name), "builtin")
        if name in CLASSES.by_name:
            return py(PyClass(name), "class")
        root = getattr(self, "root_func", None)
        if root is not None and not self.in_spec and not isinstance(root.node, ast.Lambda):
            if not hasattr(root, "_assigned"):
                root._assigned = assigned_names(root.node.body)
            if name in root._assigned:
                # a local of the function that is not bound on this path: Python raises
                # UnboundLocalError (an implicit exception: only wd units have to account for it)
                raise self.implicit("UnboundLocalError", name)
        raise Unsupported(f"unresolved name {name!r} in {mi.relpath}")

    def frame_mi(self, frame):
        f = frame
        while f is not None:
            if f.func is not None and f.func.mi is not None:
                return f.func.mi
            f = f.parent
        return self.mi

    def global_entity(self, r, name):
        kind = r[0]
        if kind == "const":
            return const_tv(r[1])
        if kind == "class":
            _, mi, node = r
            self.declare_class(node, mi)
            return py(PyClass(node.name, mi, node), "class")
        if kind == "func":
            _, mi, node = r
            return py(PyFunc(node, None, mi, node.name), "func")
        if kind == "module":
            return py(PyModule(r[1]), "module")
        if kind == "extern":
            _, modname, attr = r
            if attr == "TYPE_CHECKING":
                return const_tv(False)
            if attr[:1].isupper() and attr not in ("TYPE_CHECKING",):
                if attr == "OrderedDict":
                    return py(Builtin("dict"), "builtin")
                if attr not in CLASSES.by_name:
                    from .contracts import SCHEMAS

                    bases = SCHEMAS[attr].bases if attr in SCHEMAS else ("object",)
                    CLASSES.declare(attr, bases)
                return py(PyClass(attr), "class")
            return py(Builtin(attr), "builtin")
        if kind == "assign":
            _, mi, expr = r
            # non-literal module level assignment: evaluate lazily if simple
            a = z3.IntVal(module_addr(mi.modname))
            v = self.hread("fld", (a, z3.StringVal(name)))
            self.closed(v)
            hint = (self.unit.locals or {}).get("global:" + name)
            tv = self.from_val(v, hint)
            self.apply_hint_facts(tv)
            return tv
        raise Unsupported("global " + kind)

    def declare_class(self, node, mi):
        if node.name in CLASSES.by_name:
            return
        bases = []
        for b in node.bases:
            if isinstance(b, ast.Name):
                bases.append(b.id)
            elif isinstance(b, ast.Attribute):
                bases.append(b.attr)
        for b in bases:
            if b not in CLASSES.by_name:
                r = self.world.resolve_global(mi, b)
                if r and r[0] == "class":
                    self.declare_class(r[2], r[1])
                else:
                    CLASSES.declare(b, ("object",))
        CLASSES.declare(node.name, tuple(bases) or ("object",))

    def bind(self, name, tv, frame):
        lh = (self.unit.locals or {}).get(name) if self.unit is not None else None
        if lh and os.environ.get("TXVC_DEBUG_BIND"):
            print("[bind]", name, lh, tv.k, tv.hint, self.tag(tv) if tv.k == "val" else None, self.in_spec)
        if lh and tv.k == "val" and tv.hint is None and self.tag(tv) is None and not self.in_spec:
            # the contract declares the type of this local: a value of another type would make the
            # operations the code applies to it raise TypeError/AttributeError (A-WD)
            self.require(self.type_fact(tv.r, lh), "TypeError", f"local {name} is a {lh}")
            tv = TV("val", tv.r, lh)
        mi = self.frame_mi(frame)
        fnode = frame.func.node if frame.func is not None else None
        if fnode is not None and name in self.declared_global(fnode):
            a = z3.IntVal(module_addr(mi.modname))
            self.heap = self.heap.store("fld", (a, z3.StringVal(name)), self.to_val(tv))
            return
        # nonlocal: rebind in defining frame
        if fnode is not None and name in self.declared_nonlocal(fnode):
            f = frame.parent
            while f is not None:
                if name in f.vars:
                    f.vars[name] = tv
                    return
                f = f.parent
        frame.vars[name] = tv

    def declared_global(self, fnode):
        if not hasattr(fnode, "_globals"):
            s = set()
            for n in ast.walk(fnode):
                if isinstance(n, ast.Global):
                    s.update(n.names)
            fnode._globals = s
        return fnode._globals

    def declared_nonlocal(self, fnode):
        if not hasattr(fnode, "_nonlocals"):
            s = set()
            for n in ast.walk(fnode):
                if isinstance(n, ast.Nonlocal):
                    s.update(n.names)
            fnode._nonlocals = s
        return fnode._nonlocals

    # ------------------------------------------------------------ statements
    def exec_block(self, stmts, frame):
        for s in stmts:
            self.exec_stmt(s, frame)

    def exec_stmt(self, s, frame):
        self.cur_line = getattr(s, "lineno", 0)
        regs = getattr(self.unit, "regions", None) if self.unit is not None else None
        if regs:
            # a statement that is the region of ANOTHER unit (named in `regions`) is replaced by
            # that unit's contract: its requires become CALL obligations here
            key = None
            if isinstance(s, ast.If):
                key = "if:" + ast.unparse(s.test)
            elif isinstance(s, ast.Assign) and len(s.targets) == 1:
                key = "assign:" + ast.unparse(s.targets[0])
            if key is not None and key in regs and not getattr(self, "_in_region_apply", False):
                from .contracts import REGISTRY

                bu = REGISTRY[regs[key]]
                if bu is not self.unit:
                    return self.apply_region(bu, frame, [s], key)
        m = getattr(self, "st_" + type(s).__name__, None)
        if m is None:
            raise Unsupported(f"statement {type(s).__name__} at line {s.lineno}")
        return m(s, frame)

    def st_Expr(self, s, frame):
        if isinstance(s.value, ast.Constant):
            return
        self.eval(s.value, frame)

    def st_Pass(self, s, frame):
        return

    def ex_Yield(self, n, frame):
        """`yield x` in a @contextmanager generator: control passes to the body of the caller's `with`
        statement, which returns normally or raises INTO the generator at this point.  The contract
        names that body as an external (`ghost={'yield_is': Ext(...)}`)."""
        ext = (self.unit.ghost or {}).get("yield_is") if self.unit is not None else None
        if ext is None:
            raise Unsupported(f"yield at line {getattr(n, 'lineno', '?')} (no 'yield_is' external in the contract)")
        v = self.eval(n.value, frame) if n.value is not None else tv_none()
        self.ext_call(ext, None, [v], {}, n)
        return tv_none()

    def st_Global(self, s, frame):
        return

    def st_Nonlocal(self, s, frame):
        return

    def st_Import(self, s, frame):
        for al in s.names:
            nm = (al.asname or al.name).split(".")[0]
            frame.vars[nm] = py(PyModule(al.name if al.asname else al.name.split(".")[0]), "module")

    def st_ImportFrom(self, s, frame):
        mi = self.frame_mi(frame)
        modname = s.module or ""
        if s.level:
            parts = mi.modname.split(".")
            if not mi.relpath.endswith("__init__.py"):
                parts = parts[:-1]
            parts = parts[: len(parts) - (s.level - 1)]
            modname = ".".join(parts + ([s.module] if s.module else []))
        for al in s.names:
            tm = self.world.modules.get(modname)
            r = None
            if tm is not None:
                r = self.world.resolve_global(tm, al.name)
                if r is None and modname + "." + al.name in self.world.modules:
                    r = ("module", modname + "." + al.name)
            else:
                r = ("extern", modname, al.name)
            if r is None:
                raise Unsupported(f"import {modname}.{al.name}")
            frame.vars[al.asname or al.name] = self.global_entity(r, al.name)

    def st_Assign(self, s, frame):
        v = self.eval(s.value, frame)
        for t in s.targets:
            self.assign(t, v, frame)

    def st_AnnAssign(self, s, frame):
        if s.value is not None:
            self.assign(s.target, self.eval(s.value, frame), frame)

    def st_AugAssign(self, s, frame):
        load = ast.copy_location(self.as_load(s.target), s)
        cur = self.eval(load, frame)
        rhs = self.eval(s.value, frame)
        v = self.binop(s.op, cur, rhs, s)
        self.assign(s.target, v, frame)

    @staticmethod
    def as_load(t):
        if isinstance(t, ast.Name):
            return ast.Name(id=t.id, ctx=ast.Load())
        if isinstance(t, ast.Attribute):
            return ast.Attribute(value=t.value, attr=t.attr, ctx=ast.Load())
        if isinstance(t, ast.Subscript):
            return ast.Subscript(value=t.value, slice=t.slice, ctx=ast.Load())
        raise Unsupported("augassign target")

    def assign(self, t, v, frame):
        if isinstance(t, ast.Name):
            self.bind(t.id, v, frame)
        elif isinstance(t, ast.Attribute):
            obj = self.eval(t.value, frame)
            self.store_attr(obj, t.attr, v)
        elif isinstance(t, ast.Subscript):
            obj = self.eval(t.value, frame)
            idx = self.eval(t.slice, frame)
            self.store_item(obj, idx, v)
        elif isinstance(t, (ast.Tuple, ast.List)):
            items = self.unpack(v, len(t.elts))
            for e, x in zip(t.elts, items):
                self.assign(e, x, frame)
        else:
            raise Unsupported("assign target " + type(t).__name__)

    def store_attr(self, obj, name, v):
        if obj.k == "py" and isinstance(obj.r, PyClass):
            a = z3.IntVal(obj.r.addr())
            self.heap = self.heap.store("fld", (a, z3.StringVal(name)), self.to_val(v)).store(
                "has", (a, z3.StringVal(name)), z3.BoolVal(True))
            return
        self.setattr_val(obj, z3.StringVal(name), v)

    def unpack(self, v, n):
        if v.k == "py" and isinstance(v.r, (list, tuple)):
            if len(v.r) != n:
                raise self.implicit("ValueError", "unpack")
            return list(v.r)
        if v.k == "val":
            items = self.concrete_items(v)
            if items is not None:
                if len(items) != n:
                    raise self.implicit("ValueError", "unpack")
                return items
            # symbolic tuple: require the cons structure
            out = []
            t = v.r
            for _ in range(n):
                self.require(Val.is_cons(t), "TypeError", "unpack non-tuple")
                hd = z3.simplify(Val.hd(t))
                self.closed(hd)
                out.append(self.from_val(hd))
                t = z3.simplify(Val.tl(t))
            self.require(Val.is_nil(t), "ValueError", "too many values to unpack")
            return out
        raise Unsupported("unpack " + v.k)

    def st_Return(self, s, frame):
        raise ReturnSig(self.eval(s.value, frame) if s.value is not None else tv_none())

    def st_Break(self, s, frame):
        raise BreakSig()

    def st_Continue(self, s, frame):
        raise ContinueSig()

    def narrow(self, test, taken, frame):
        """isinstance(x, C) decided for a plain variable: remember the class as the
        variable's type hint in that branch (the hint only selects method tables and
        schemas; the class fact itself is already in the path condition)"""
        neg = False
        t = test
        while isinstance(t, ast.UnaryOp) and isinstance(t.op, ast.Not):
            neg = not neg
            t = t.operand
        if not (isinstance(t, ast.Call) and isinstance(t.func, ast.Name) and t.func.id == "isinstance"
                and len(t.args) == 2 and isinstance(t.args[0], ast.Name) and isinstance(t.args[1], ast.Name)):
            return
        if taken == neg:
            return
        cur = frame.lookup(t.args[0].id)
        cname = t.args[1].id
        if cur is None or cur.k != "val" or cur.hint:
            return
        hint = {"str": "str", "int": "int", "list": "list", "dict": "dict", "set": "set"}.get(cname)
        if hint is None:
            from .contracts import SCHEMAS

            if cname in SCHEMAS or cname in CLASSES.by_name:
                hint = "obj:" + cname
        if hint:
            ntv = TV("val", cur.r, hint)
            self.bind(t.args[0].id, ntv, frame)
            self.apply_hint_facts(ntv)
            if hint.startswith("obj:"):
                self.schema_facts_lazy(ntv, hint)

    def schema_facts_lazy(self, tv, hint):
        return

    def st_If(self, s, frame):
        c = self.eval(s.test, frame)
        if self.decide(self.truthy(c), f"if@{s.lineno}"):
            self.narrow(s.test, True, frame)
            self.exec_block(s.body, frame)
        else:
            self.narrow(s.test, False, frame)
            self.exec_block(s.orelse, frame)

    def st_Assert(self, s, frame):
        c = self.eval(s.test, frame)
        if not self.decide(self.truthy(c), f"assert@{s.lineno}"):
            e = self.new_exception("AssertionError")
            raise PyRaise(e, known_cls="AssertionError", origin=f"assert@{s.lineno}")

    def st_Delete(self, s, frame):
        for t in s.targets:
            if isinstance(t, ast.Attribute):
                obj = self.eval(t.value, frame)
                self.delattr_val(obj, z3.StringVal(t.attr))
            elif isinstance(t, ast.Subscript):
                obj = self.eval(t.value, frame)
                idx = self.eval(t.slice, frame)
                self.del_item(obj, idx)
            elif isinstance(t, ast.Name):
                frame.vars.pop(t.id, None)
            else:
                raise Unsupported("del target")

    def delattr_val(self, obj, name_term):
        a = self.as_addr(obj)
        self.require(self.obj_has(a, name_term), "AttributeError", "delattr")
        self.heap = self.heap.store("has", (a, name_term), z3.BoolVal(False))

    def st_FunctionDef(self, s, frame):
        qual = s.name
        if frame.func is not None:
            qual = frame.func.qual + "." + s.name
        frame.vars[s.name] = py(PyFunc(s, frame, self.frame_mi(frame), qual), "func")

    def st_ClassDef(self, s, frame):
        self.declare_class(s, self.frame_mi(frame))
        frame.vars[s.name] = py(PyClass(s.name, self.frame_mi(frame), s), "class")

    def st_Raise(self, s, frame):
        if s.exc is None:
            if not self.cur_exc:
                raise Unsupported("bare raise outside handler")
            pr = self.cur_exc[-1]
            raise PyRaise(pr.exc, pr.known_cls, pr.origin, pr.implicit)
        e = self.eval(s.exc, frame)
        if e.k == "py" and isinstance(e.r, PyClass):
            e = self.instantiate(e.r, [], {}, s)
        known = self.exact_class.get(str(e.r)) if e.k == "val" else None
        raise PyRaise(e, known_cls=known, origin=f"raise@{s.lineno}")

    def st_Try(self, s, frame):
        sig = None
        names = set()
        for h in s.handlers:
            t = h.type
            if t is None:
                names.add("*")
            else:
                for el in (t.elts if isinstance(t, ast.Tuple) else [t]):
                    names.add(el.id if isinstance(el, ast.Name) else getattr(el, "attr", "*"))
        if not hasattr(self, "try_stack"):
            self.try_stack = []
        try:
            try:
                self.try_stack.append(names)
                try:
                    self.exec_block(s.body, frame)
                finally:
                    self.try_stack.pop()
            except PyRaise as pr:
                h = self.match_handler(pr, s.handlers, frame)
                if h is None:
                    raise
                if h.name:
                    frame.vars[h.name] = pr.exc
                self.cur_exc.append(pr)
                try:
                    self.exec_block(h.body, frame)
                finally:
                    self.cur_exc.pop()
            else:
                self.exec_block(s.orelse, frame)
        except (PyRaise, ReturnSig, BreakSig, ContinueSig) as e:
            sig = e
        if s.finalbody:
            self.exec_block(s.finalbody, frame)
        if sig is not None:
            raise sig

    def match_handler(self, pr, handlers, frame):
        for h in handlers:
            if h.type is None:
                return h
            t = self.eval(h.type, frame)
            classes = []
            if t.k == "py" and isinstance(t.r, PyClass):
                classes = [t.r.name]
            elif t.k == "py" and isinstance(t.r, (list, tuple)):
                classes = [x.r.name for x in t.r]
            elif t.k == "val":
                items = self.concrete_items(t)
                if items is None:
                    raise Unsupported("except with symbolic class")
                classes = [x.r.name for x in items]
            else:
                raise Unsupported("except type")
            if pr.known_cls is not None:
                if any(CLASSES.is_sub(pr.known_cls, c) for c in classes):
                    return h
                continue
            a = self.as_addr(pr.exc)
            c = cls_of(a)
            self.note_class_term(c)
            cond = z3.Or(*[subclass(c, CLASSES.addr(k)) for k in classes])
            if self.decide(cond, f"except {','.join(classes)}@{h.lineno}"):
                return h
        return None

    def st_With(self, s, frame):
        if len(s.items) != 1:
            raise Unsupported("with multiple items")
        item = s.items[0]
        ce = item.context_expr
        if isinstance(ce, ast.Call) and isinstance(ce.func, ast.Name) and ce.func.id == "suppress":
            t = self.eval(ce.args[0], frame)
            try:
                self.exec_block(s.body, frame)
            except PyRaise as pr:
                fake = ast.ExceptHandler(type=ce.args[0], name=None, body=[], lineno=s.lineno)
                if self.match_handler(pr, [fake], frame) is None:
                    raise
            return
        cm = self.eval(ce, frame)
        # generic context manager: __enter__ returns the object itself (files);
        # __exit__ is recorded as an external 'close' event that may raise.
        if item.optional_vars is not None:
            self.assign(item.optional_vars, cm, frame)
        sig = None
        try:
            self.exec_block(s.body, frame)
        except (PyRaise, ReturnSig, BreakSig, ContinueSig) as e:
            sig = e
        self.with_exit(cm, sig, s)
        if sig is not None:
            raise sig

    def with_exit(self, cm, sig, s):
        """leaving a with-block: if the contract names `<context expr>.__exit__` as an external (e.g. the
        closing of a file, which may fail), it is called here - on normal and on exceptional exit"""
        if self.unit is None or not s.items:
            return
        key = ast.unparse(s.items[0].context_expr) + ".__exit__"
        spec = self.unit.calls.get(key)
        if spec is None:
            return
        from .contracts import Ext as _Ext

        if isinstance(spec, _Ext):
            self.ext_call(spec, self.to_val(cm) if cm.k != "py" else None, [], {}, s)

    def st_While(self, s, frame):
        return self.exec_while(s, frame)

    def st_For(self, s, frame):
        return self.exec_for(s, frame)
