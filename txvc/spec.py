"""
Spec clause evaluation.  A clause is a Python expression; it is evaluated by
the same expression evaluator as the code (Interp.eval) in *spec mode*: total
(partial primitives are assumed defined), without forking (conditionals
become ite terms) and without side effects.  Extra forms:

  old(e)                 e in the pre-state of the unit / callee
  at(label, e)           e in a labelled heap snapshot (e.g. 'loop_entry')
  implies(a, b)  iff(a, b)
  forall(lambda j: p)  exists(lambda j: p)        j ranges over ints
  forall_in(lo, hi, lambda j: p)                  lo <= j < hi
  cls(x)  subclass(c, 'Name')  is_instance(x, 'Name')  addr(x)
  F(args) for a declared SpecFn F
"""

from __future__ import annotations

import ast

import z3

from . import core
from .contracts import SPECFNS
from .core import CLASSES, NIL, NONE, Val, cls_of, fresh, mk_ref, subclass
from .symex import TV, Frame, PyClass, PyRaise, Unsupported, const_tv, py, tv_none

_PARSE_CACHE = {}


def parse_expr(text):
    if text not in _PARSE_CACHE:
        _PARSE_CACHE[text] = ast.parse(text.strip(), mode="eval").body
    return _PARSE_CACHE[text]


def mentions(term, const):
    cid = const.get_id()
    seen = set()
    stack = [term]
    while stack:
        t = stack.pop()
        i = t.get_id()
        if i in seen:
            continue
        seen.add(i)
        if i == cid:
            return True
        if z3.is_quantifier(t):
            stack.append(t.body())
        else:
            stack.extend(t.children())
    return False


class SpecEval:
    def __init__(self, run, env, old_heap, heap, extra):
        self.run = run
        self.env = env
        self.old_heap = old_heap
        self.heap = heap
        self.extra = extra

    # ------------------------------------------------------------------
    def _enter(self):
        r = self.run
        self._saved = (r.heap, r.spec_side, r.spec_ctx, r.next_addr)
        r.heap = self.heap
        r.spec_side = []
        r.spec_ctx = self
        r.in_spec += 1
        fr = Frame()
        fr.vars.update(self.env)
        fr.func = getattr(r, "root_func", None)
        return fr

    def _exit(self):
        r = self.run
        side = r.spec_side
        r.heap, r.spec_side, r.spec_ctx, r.next_addr = self._saved
        r.in_spec -= 1
        return side

    def clause(self, text):
        fr = self._enter()
        try:
            tv = self.run.eval(parse_expr(text), fr)
            t = self.run.truthy(tv)
        finally:
            side = self._exit()
        return t, side

    def expr(self, text):
        fr = self._enter()
        try:
            tv = self.run.eval(parse_expr(text), fr)
        finally:
            side = self._exit()
        self.run.assume_all(side) if not self.run.in_spec else self.run.spec_side.extend(side)
        return tv

    def int_expr(self, text):
        tv = self.expr(text)
        return self.run.as_int(tv)

    def addr_of(self, tv):
        # a location named in a contract (modifies / protect): evaluating it must not ASSUME
        # that the value is an object (as_addr would, A-WD); a value that is not an object names
        # no location at all (address -7 is never allocated: objects >= 0, classes <= -1000)
        if tv.k == "val" and self.run.tag(tv) is None:
            return z3.If(Val.is_ref(tv.r), Val.a(tv.r), z3.IntVal(-7))
        return self.run.as_addr(tv)


class SpecMixin:
    """spec-mode behaviour of the evaluator (mixed into Interp)"""

    spec_ctx = None

    def spec_ifexp(self, n, frame):
        c = self.truthy(self.eval(n.test, frame))
        a = self.eval(n.body, frame)
        b = self.eval(n.orelse, frame)
        return self.ite_tv(c, a, b)

    def ite_tv(self, c, a, b):
        c = z3.simplify(c)
        if z3.is_true(c):
            return a
        if z3.is_false(c):
            return b
        if a.k == b.k and a.k in ("int", "bool", "str"):
            return TV(a.k, z3.If(c, a.r, b.r))
        hint = a.hint if a.hint == b.hint else None
        return TV("val", z3.If(c, self.to_val(a), self.to_val(b)), hint)

    def spec_boolop(self, n, frame):
        # Python evaluates `a and b` / `a or b` left to right and stops early: the side facts
        # (well-definedness of partial operations) of a later operand are only needed when the
        # earlier operands did not decide the result, so they are guarded by them
        is_and = isinstance(n.op, ast.And)
        ts = []
        for e in n.values:
            if ts:
                decided = z3.simplify(z3.And(*ts) if is_and else z3.Or(*ts))
                if (is_and and z3.is_false(decided)) or (not is_and and z3.is_true(decided)):
                    break  # statically decided: Python would not evaluate the rest
            side = self.spec_side
            mark = len(side) if side is not None else 0
            t = self.truthy(self.eval(e, frame))
            if ts and side is not None and len(side) > mark:
                guard = z3.And(*ts) if is_and else z3.Not(z3.Or(*ts))
                defs = self.__dict__.get("_defn_ids", ())
                for k in range(mark, len(side)):
                    if side[k].get_id() not in defs:
                        side[k] = z3.Implies(guard, side[k])
            ts.append(t)
        return TV("bool", z3.And(*ts) if is_and else z3.Or(*ts))

    def with_heap(self, heap, fn):
        saved = self.heap
        self.heap = heap
        try:
            return fn()
        finally:
            self.heap = saved

    def spec_call(self, n, frame):
        f = n.func
        ctx = self.spec_ctx
        if isinstance(f, ast.Name):
            nm = f.id
            if nm == "old":
                return self.with_heap(ctx.old_heap, lambda: self.eval(n.args[0], frame))
            if nm == "at":
                label = n.args[0].value
                if label not in ctx.extra:
                    raise Unsupported(f"at({label!r}): no such snapshot")
                return self.with_heap(ctx.extra[label], lambda: self.eval(n.args[1], frame))
            if nm in ("after", "before"):
                e = self.eval(n.args[0], frame)
                h = e.r[1]["heap_after" if nm == "after" else "heap_before"]
                return self.with_heap(h, lambda: self.eval(n.args[1], frame))
            if nm == "implies":
                a = z3.simplify(self.truthy(self.eval(n.args[0], frame)))
                if z3.is_false(a):
                    return TV("bool", z3.BoolVal(True))
                try:
                    b = self.truthy(self.eval(n.args[1], frame))
                except (PyRaise, Unsupported) as e:
                    # the consequent is not even defined here (e.g. it reads an attribute that the
                    # path condition says is absent, or a local that was never bound on this path):
                    # fine if the antecedent cannot hold on this path
                    if isinstance(e, Unsupported) and "unresolved name" not in str(e):
                        raise
                    if self.entails(z3.Not(a)):
                        return TV("bool", z3.BoolVal(True))
                    if getattr(self, "spec_mode", "prove") != "assume" and not getattr(self, "_in_quant", 0):
                        # not decided within the (short) feasibility budget: an undefined consequent counts as
                        # false, so the clause is `not antecedent` here - left to the obligation's own solver
                        # budget instead of failing the whole unit on a timing accident
                        return TV("bool", z3.Not(a))
                    raise
                return TV("bool", z3.Implies(a, b))
            if nm == "iff":
                a = self.truthy(self.eval(n.args[0], frame))
                b = self.truthy(self.eval(n.args[1], frame))
                return TV("bool", a == b)
            if nm in ("forall", "exists"):
                return self.spec_quant(nm, None, None, n.args[0], frame)
            if nm in ("forall_val", "exists_val"):
                return self.spec_quant(nm[:6], None, None, n.args[0], frame, sort="val")
            if nm in ("forall_str", "exists_str"):
                return self.spec_quant(nm[:6], None, None, n.args[0], frame, sort="str")
            if nm in ("forall_in", "exists_in"):
                lo = self.as_int(self.eval(n.args[0], frame))
                hi = self.as_int(self.eval(n.args[1], frame))
                return self.spec_quant(nm[:6], lo, hi, n.args[2], frame)
            if nm == "cls":
                a = self.as_addr(self.eval(n.args[0], frame))
                c = cls_of(a)
                self.note_class_term(c)
                return TV("val", mk_ref(c), "class")
            if nm == "addr":
                return TV("int", self.as_addr(self.eval(n.args[0], frame)))
            if nm == "is_instance":
                x = self.eval(n.args[0], frame)
                return TV("bool", self.isinstance_cond(x, [n.args[1].value]))
            if nm in ("split_len", "split_at"):
                # the parts of s.split(sep) (the same uninterpreted functions the code-level str.split uses)
                st = self.as_str(self.eval(n.args[0], frame))
                sep = self.as_str(self.eval(n.args[1], frame))
                if nm == "split_len":
                    return TV("int", z3.Function("split_len", core.StrS, core.StrS, core.IntS)(st, sep))
                row = z3.Function("split_row", core.StrS, core.StrS, z3.ArraySort(core.IntS, Val))(st, sep)
                return TV("val", z3.Select(row, self.as_int(self.eval(n.args[2], frame))), "str")
            if nm == "is_none":
                x = self.eval(n.args[0], frame)
                return TV("bool", self.val_eq(x, tv_none()))
            if nm == "truthy":
                return TV("bool", self.truthy(self.eval(n.args[0], frame)))
            if nm == "is_str":
                x = self.eval(n.args[0], frame)
                return TV("bool", z3.BoolVal(True) if x.k == "str" else Val.is_str(self.to_val(x)))
            if nm == "is_int":
                x = self.eval(n.args[0], frame)
                return TV("bool", z3.BoolVal(True) if x.k == "int" else Val.is_int(self.to_val(x)))
            if nm == "is_ref":
                x = self.eval(n.args[0], frame)
                return TV("bool", Val.is_ref(self.to_val(x)))
            if nm == "is_list":
                x = self.eval(n.args[0], frame)
                v = self.to_val(x)
                return TV("bool", z3.And(Val.is_ref(v), cls_of(Val.a(v)) == CLASSES.addr("list")))
            if nm == "as_list":
                x = self.eval(n.args[0], frame)
                return TV("val", self.to_val(x), "list")
            if nm == "as_dict":
                x = self.eval(n.args[0], frame)
                return TV("val", self.to_val(x), "dict")
            if nm == "as_obj":
                x = self.eval(n.args[0], frame)
                return TV("val", self.to_val(x), "obj:" + n.args[1].value)
            if nm == "as_str":
                x = self.eval(n.args[0], frame)
                return TV("str", self.as_str(x))
            if nm == "as_int":
                x = self.eval(n.args[0], frame)
                return TV("int", self.as_int(x))
            if nm == "created_here":
                # the object was allocated by this unit's own code on this path
                x = self.eval(n.args[0], frame)
                v = self.to_val(x)
                own = self.ghost.get("own_allocs", [])
                if not own:
                    return TV("bool", z3.BoolVal(False))
                return TV("bool", z3.And(Val.is_ref(v), z3.Or(*[Val.a(v) == t for t in own])))
            if nm == "fresh_since_entry":
                x = self.eval(n.args[0], frame)
                return TV("bool", self.as_addr(x) >= self.A0)
            if nm == "ev":
                # ev(k) : k-th external/contract call event of this path (python int, may be negative)
                k = ast.literal_eval(n.args[0])
                if not (-len(self.trace) <= k < len(self.trace)):
                    dummy = {"name": "?", "callee": fresh("noev", Val), "result": fresh("noev", Val),
                             "args": [fresh("noev", Val) for _ in range(6)], "kwargs": {},
                             "heap_before": self.heap, "heap_after": self.heap}
                    return py(("event", dummy), "event")
                return py(("event", self.trace[k]), "event")
            if nm == "path_exists":  # os.path.exists (the name `exists` is the quantifier here)
                return self.fs_exists(self.as_str(self.eval(n.args[0], frame)))
            if nm == "nkeys":
                d = self.eval(n.args[0], frame)
                return TV("int", self.hread("dklen", (self.as_addr(d),)))
            if nm == "key_at":
                d = self.eval(n.args[0], frame)
                i = self.as_int(self.eval(n.args[1], frame))
                v = self.hread("dkey", (self.as_addr(d), i))
                return TV("val", v, "tuple" if len(n.args) > 2 else None)
            if nm == "distinct":
                vs = [self.to_val(self.eval(a, frame)) for a in n.args]
                return TV("bool", z3.Distinct(*vs) if len(vs) > 1 else z3.BoolVal(True))
            if nm == "evn":
                # evn('name', k): k-th event with that name
                name = n.args[0].value
                k = ast.literal_eval(n.args[1])
                evs = [e for e in self.trace if e["name"] == name]
                if not (-len(evs) <= k < len(evs)):
                    # no such event on this path: an arbitrary (unconstrained) event, so
                    # that clauses stay total; guard them with n_calls(...)
                    dummy = {"name": name, "callee": fresh("noev", Val), "result": fresh("noev", Val),
                             "args": [fresh("noev", Val) for _ in range(6)], "kwargs": {},
                             "heap_before": self.heap, "heap_after": self.heap}
                    return py(("event", dummy), "event")
                return py(("event", evs[k]), "event")
            if nm == "evpos":
                # evpos('name', k): position in the trace of the k-th event with that name (-1: none)
                name = n.args[0].value
                k = ast.literal_eval(n.args[1])
                pos = [i for i, e in enumerate(self.trace) if e["name"] == name]
                return TV("int", z3.IntVal(pos[k] if -len(pos) <= k < len(pos) else -1))
            if nm == "n_calls":
                name = n.args[0].value if n.args else None
                return TV("int", z3.IntVal(len([e for e in self.trace if name is None or e["name"] == name])))
            if nm in SPECFNS:
                return self.spec_fn(SPECFNS[nm], [self.eval(a, frame) for a in n.args])
            hook = getattr(self, "sp_" + nm, None)
            if hook is not None:
                return hook(n, frame)
        return None  # fall back to the ordinary (pure) call path

    def spec_quant(self, kind, lo, hi, lam, frame, sort="int"):
        if not isinstance(lam, ast.Lambda):
            raise Unsupported("quantifier needs a lambda")
        names = [a.arg for a in lam.args.args]
        zs = {"int": core.IntS, "val": Val, "str": core.StrS}[sort]
        js = [fresh("q_" + nm, zs) for nm in names]
        fr = Frame(parent=frame, func=frame.func)
        for nm, j in zip(names, js):
            fr.vars[nm] = TV(sort, j)
        outer = self.spec_side
        self.spec_side = []
        self._in_quant = getattr(self, "_in_quant", 0) + 1
        try:
            body = self.truthy(self.eval(lam.body, fr))
            inner = self.spec_side
        finally:
            self.spec_side = outer
            self._in_quant -= 1
        dep, indep = [], []
        for f in inner:
            (dep if any(mentions(f, j) for j in js) else indep).append(f)
        self.spec_side.extend(indep)
        rng = []
        if lo is not None:
            rng = [z3.And(lo <= js[0], js[0] < hi)]
        # side facts that mention the bound variable are valid facts (frame
        # instances, definitional unfoldings, schema types): hypotheses when the
        # clause is to be proved, extra conjuncts when it is assumed
        assume = getattr(self, "spec_mode", "prove") == "assume"
        if kind == "forall":
            if assume:
                b = z3.And(*(dep + [body])) if dep else body
                b = z3.Implies(z3.And(*rng), b) if rng else b
            else:
                ant = rng + dep
                b = z3.Implies(z3.And(*ant), body) if ant else body
            return TV("bool", z3.ForAll(js, b))
        if assume:
            b = z3.And(*(rng + dep + [body]))
        else:
            b = z3.And(*(rng + [z3.Implies(z3.And(*dep), body) if dep else body]))
        ex = z3.Exists(js, b)
        if not assume and sort == "val" and len(js) == 1 and lo is None and not getattr(self, "_in_witness", False):
            # witness candidates: (exists x. B(x)) is equivalent to (exists x. B(x)) or B(t1) or ... for any
            # terms t_k, in either polarity; the instances for the values the clause's environment already
            # names spare the solver the search for the witness (it is not good at it)
            pool, seen = [], set()
            ctx_env = getattr(getattr(self, "spec_ctx", None), "env", {}) or {}
            f = frame
            frames_vars = []
            while f is not None:
                frames_vars.append(f.vars)
                f = f.parent
            for src in frames_vars + [ctx_env]:
                for tv in src.values():
                    if getattr(tv, "k", None) in ("val", "str") and hasattr(tv.r, "get_id"):
                        i = tv.r.get_id()
                        if i not in seen and not any(mentions(tv.r, j) for j in js):
                            seen.add(i)
                            pool.append(tv)
            # ... and the arguments / results of the most recent calls (values no variable names any more)
            for ev_ in list(getattr(self, "trace", []))[-4:]:
                args_ = ev_.get("args") or []
                args_ = list(args_.values()) if isinstance(args_, dict) else list(args_)
                for v_ in args_[:3] + [ev_.get("result")]:
                    v_ = getattr(v_, "r", v_) if getattr(v_, "k", None) == "val" else v_
                    if v_ is not None and hasattr(v_, "get_id") and v_.sort() == Val and v_.get_id() not in seen:
                        seen.add(v_.get_id())
                        pool.append(TV("val", v_))
            inst = []
            self._in_witness = True
            try:
                for tv in pool[:14]:
                    fr2 = Frame(parent=frame, func=frame.func)
                    fr2.vars[names[0]] = TV("val", self.to_val(tv))
                    outer2 = self.spec_side
                    self.spec_side = []
                    self._in_quant = getattr(self, "_in_quant", 0) + 1
                    try:
                        bt = self.truthy(self.eval(lam.body, fr2))
                        side_t = self.spec_side
                    except (PyRaise, Unsupported):
                        continue
                    finally:
                        self.spec_side = outer2
                        self._in_quant -= 1
                    # (side facts of an instance do not mention the bound variable: valid facts, like `indep`)
                    self.spec_side.extend(side_t)
                    inst.append(bt)
            finally:
                self._in_witness = False
            if inst:
                return TV("bool", z3.Or(ex, *inst))
        return TV("bool", ex)

    def spec_fn(self, sf, args):
        sorts = []
        raws = []
        for (pn, pt), a in zip(sf.params, args):
            if pt == "int":
                sorts.append(core.IntS)
                raws.append(self.as_int(a))
            elif pt == "str":
                sorts.append(core.StrS)
                raws.append(self.as_str(a))
            elif pt == "bool":
                sorts.append(core.BoolS)
                raws.append(self.truthy(a))
            else:
                sorts.append(Val)
                raws.append(self.to_val(a))
        rs = {"int": core.IntS, "str": core.StrS, "bool": core.BoolS}.get(sf.ret, Val)
        hargs = []
        if sf.reads:
            # frame rule of a heap-dependent spec function: it is a function of
            # the versions of the footprints it reads (see heap.py)
            for nm in sf.reads:
                hargs.append(self.heap.version(nm))
        elif sf.heap:
            for hf in ("fld", "has"):
                hargs.append(self.heap.cur[hf])
        f = z3.Function("spec_" + sf.name, *[x.sort() for x in hargs], *sorts, rs)
        t = f(*hargs, *raws)
        rk = sf.ret if sf.ret in ("int", "str", "bool") else "val"
        res = TV(rk, t, None if rk != "val" else (sf.ret if sf.ret not in ("any", "val") else None))
        depth = getattr(self, "_unfold_depth", 0)
        if sf.defn is not None and depth < sf.unfold and not getattr(self, "_in_quant", 0):
            self._unfold_depth = depth + 1
            try:
                fr = Frame()
                for (pn, pt), a, raw in zip(sf.params, args, raws):
                    fr.vars[pn] = a
                d = self.eval(parse_expr(sf.defn), fr)
                if rk == "int":
                    eq = t == self.as_int(d)
                elif rk == "str":
                    eq = t == self.as_str(d)
                elif rk == "bool":
                    eq = t == self.truthy(d)
                else:
                    eq = t == self.to_val(d)
                self.spec_side.append(eq)
                # a definitional equation holds for all arguments: never guarded by the context it occurs in
                self.__dict__.setdefault("_defn_ids", set()).add(eq.get_id())
            finally:
                self._unfold_depth = depth
        if sf.facts and not getattr(self, "_in_facts", False):
            # facts about F(args) hold at every application (also under quantifiers)
            self._in_facts = True
            saved_depth = getattr(self, "_unfold_depth", 0)
            self._unfold_depth = 99  # no unfolding while stating the facts
            try:
                fr = Frame()
                for (pn, pt), a in zip(sf.params, args):
                    fr.vars[pn] = a
                for ftxt in sf.facts:
                    if self.spec_side is not None:
                        f_ = self.truthy(self.eval(parse_expr(ftxt), fr))
                        self.spec_side.append(f_)
                        self.__dict__.setdefault("_defn_ids", set()).add(f_.get_id())
            finally:
                self._in_facts = False
                self._unfold_depth = saved_depth
        return res
