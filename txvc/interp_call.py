"""Calls: builtins, methods of primitives, inlining, contracts, externals."""

from __future__ import annotations

import ast

import z3

from . import core
from .contracts import BY_TARGET, SCHEMAS, Ext
from .core import CLASSES, NIL, NONE, Val, cls_of, fresh, mk_bool, mk_int, mk_ref, mk_str, subclass
from .interp_expr import ObjDict
from .symex import (
    TV, BoundBuiltin, Builtin, ContractCallable, ExtCallable, Frame, PathEnd, PyClass,
    PyFunc, PyModule, PyRaise, ReturnSig, SuperProxy, Unsupported, const_tv, py, tv_none,
)
from .world import strip_docstring

INLINE_CLASSES = {
    "TextXError", "TextXSemanticError", "TextXSyntaxError", "TextXRegistrationError",
    "ObjCrossRef", "RefRulePosition", "MetaAttr", "ClassCrossRef", "Postponed",
    "ReferenceResolver", "LanguageDesc", "GeneratorDesc", "PlainName", "ModelParams",
    "GlobalModelRepository", "ModelRepository",
}


class CallMixin:
    def ex_Call(self, n, frame):
        fn = self.eval(n.func, frame)
        args = []
        for a in n.args:
            if isinstance(a, ast.Starred):
                sv = self.eval(a.value, frame)
                items = self.concrete_items(sv)
                if items is None:
                    # a symbolic sequence spread into the call: only callees that model it accept it
                    args.append(py(("starred", sv), "starred"))
                    continue
                args.extend(items)
            else:
                args.append(self.eval(a, frame))
        kwargs = {}
        for kw in n.keywords:
            if kw.arg is None:
                d = self.eval(kw.value, frame)
                pairs = self.concrete_pairs(d)
                if pairs is None:
                    kwargs["**"] = d
                else:
                    for k, v in pairs:
                        kwargs[k] = v
            else:
                kwargs[kw.arg] = self.eval(kw.value, frame)
        return self.call(fn, args, kwargs, n, frame)

    def concrete_pairs(self, d):
        """[(python str key, TV)] for a dict of statically known string keys"""
        if d.k == "py" and isinstance(d.r, dict):
            return list(d.r.items())
        if d.k == "val":
            sh = self.shape.get(str(z3.simplify(self.as_addr(d)))) if self.tag(d) == "ref" else None
            if sh is not None and sh[0] == "dict":
                out = []
                for k, v in sh[1]:
                    ks = z3.simplify(self.as_str(k))
                    if not z3.is_string_value(ks):
                        return None
                    out.append((ks.as_string(), v))
                return out
        return None

    # ------------------------------------------------------------------
    def call(self, fn, args, kwargs, n, frame):
        if fn.k == "py":
            o = fn.r
            if isinstance(o, Builtin):
                m = getattr(self, "bi_" + o.name.replace(".", "_"), None)
                if m is None:
                    return self.call_by_pattern(fn, args, kwargs, n, frame, f"builtin {o.name}")
                return m(args, kwargs, n, frame)
            if isinstance(o, BoundBuiltin):
                m = getattr(self, f"m_{o.kind}_{o.name}", None)
                if m is None:
                    raise Unsupported(f"method {o.kind}.{o.name} line {getattr(n,'lineno','?')}")
                return m(o.recv, args, kwargs, n)
            if isinstance(o, PyClass):
                return self.instantiate(o, args, kwargs, n)
            if isinstance(o, PyFunc):
                return self.call_func(o, args, kwargs, n)
            if isinstance(o, ContractCallable):
                return self.apply_contract(o.unit, args, kwargs, n, o.bound_self)
            if isinstance(o, ExtCallable):
                return self.ext_call(o.ext, o.term, args, kwargs, n)
            if isinstance(o, tuple) and o and o[0] == "objdict.get":
                # obj.__dict__.get(name, default): the object's OWN attribute or the default
                a = o[1].addr
                nm = self.as_str(args[0])
                dflt = self.to_val(args[1]) if len(args) > 1 else NONE
                has = self.hread("has", (a, nm))
                v = self.hread("fld", (a, nm))
                self.closed(v)
                return TV("val", z3.If(has, v, dflt))
            raise Unsupported(f"call of {o!r}")
        return self.call_by_pattern(fn, args, kwargs, n, frame, "symbolic callee")

    def call_by_pattern(self, fn, args, kwargs, n, frame, why):
        """A callee that is a symbolic value: the unit's contract must say
        what it is (`calls` keyed by the source text of the callee)."""
        text = ast.unparse(n.func) if n is not None else "?"
        spec = None
        if self.unit is not None:
            spec = self.unit.calls.get(text)
            if spec is None:
                for k, v in self.unit.calls.items():
                    if k.endswith("*") and text.startswith(k[:-1]):
                        spec = v
                        break
        if spec is None:
            raise Unsupported(f"{why}: no `calls` entry for {text!r} (line {getattr(n,'lineno','?')})")
        if isinstance(spec, Ext):
            term = self.to_val(fn) if fn.k != "py" or isinstance(fn.r, (PyFunc, PyClass)) else None
            return self.ext_call(spec, term, args, kwargs, n)
        if spec == "builtin:copy.copy":
            # copy.copy(x) of a plain object (T-PY): a NEW object of the same class whose
            # attribute row is a copy of x's row (the attribute values themselves are shared)
            src = self.to_val(args[0])
            self.require(Val.is_ref(src), "TypeError", "copy.copy of a non-object is not modelled")
            sa = Val.a(src)
            a = self.alloc(cls_term=cls_of(sa))
            h = self.heap
            h = h.with_array("fld", z3.Store(h.cur["fld"], a, z3.Select(h.cur["fld"], sa)))
            h = h.with_array("has", z3.Store(h.cur["has"], a, z3.Select(h.cur["has"], sa)))
            self.heap = h
            return TV("val", mk_ref(a), args[0].hint if args[0].k == "val" else "obj")
        if isinstance(spec, str) and spec.split(".")[0] in ("list", "dict", "set"):
            # the contract says the receiver is a list/dict/set here; that is a
            # proof obligation at this call site, then the primitive applies
            kind, meth = spec.split(".")
            recv = self.eval(n.func.value, frame)
            v = self.to_val(recv)
            goal = z3.And(Val.is_ref(v), cls_of(Val.a(v)) == CLASSES.addr(kind))
            self.oblige("CALL", f"receiver-is-{kind}@{getattr(n, 'lineno', 0)}", goal,
                        f"{ast.unparse(n.func.value)} is a {kind}", None)
            recv = TV("val", v, kind)
            m = getattr(self, f"m_{kind}_{meth}")
            return m(recv, args, kwargs, n)
        if isinstance(spec, str):
            from .contracts import REGISTRY

            unit = REGISTRY[spec]
            bound = None
            if fn.k == "val" and (fn.hint or "").startswith("obj:"):
                bound = fn  # calling an instance: its __call__ contract
            elif isinstance(n.func, ast.Attribute) and frame is not None:
                bound = self.eval(n.func.value, frame)
            return self.apply_contract(unit, args, kwargs, n, bound)
        raise Unsupported("calls entry kind")

    # ---------------------------------------------------------- functions
    def func_target(self, pf):
        return f"{pf.mi.relpath}::{pf.qual}"

    def call_func(self, pf, args, kwargs, n):
        tgt = self.func_target(pf)
        is_self = self.unit is not None and tgt == self.unit.target
        unit = BY_TARGET.get(tgt)
        if self.unit is not None and n is not None and hasattr(n, "func"):
            # the verified unit may name the contract of a callee explicitly
            text = ast.unparse(n.func)
            sp = self.unit.calls.get(text)
            if isinstance(sp, Ext):
                return self.ext_call(sp, self.to_val(pf.bound_self) if pf.bound_self is not None else None,
                                     list(args), kwargs, n)
            if isinstance(sp, str) and sp.split(".")[0] not in ("list", "dict", "set"):
                from .contracts import REGISTRY

                return self.apply_contract(REGISTRY[sp], args, kwargs, n, pf.bound_self)
        inline_ok = (
            pf.frame is not None  # closure defined inside the code being executed
            or isinstance(pf.node, ast.Lambda)
            or (pf.cls in INLINE_CLASSES)
            or (self.unit is not None and (pf.qual in self.unit.inline or tgt in self.unit.inline))
        )
        if unit is not None and not (self.unit is not None and (pf.qual in self.unit.inline)) and (
            is_self or not inline_ok or unit is not self.unit
        ):
            if not (pf.frame is not None and unit is self.unit and not is_self):
                return self.apply_contract(unit, args, kwargs, n, pf.bound_self, recursive=is_self)
        if not inline_ok:
            raise Unsupported(f"no contract for callee {tgt} (line {getattr(n,'lineno','?')})")
        return self.inline_call(pf, args, kwargs, n)

    def bind_params(self, fnode, args, kwargs, self_tv, frame, mi):
        a = fnode.args
        params = [x.arg for x in a.posonlyargs + a.args]
        vals = {}
        pos = list(args)
        if self_tv is not None:
            pos = [self_tv] + pos
        for name, v in zip(params, pos):
            vals[name] = v
        extra = pos[len(params):]
        if extra:
            if a.vararg is None:
                raise self.implicit("TypeError", "too many positional arguments")
            vals[a.vararg.arg] = py(list(extra), "ctuple")
        elif a.vararg is not None:
            vals[a.vararg.arg] = py([], "ctuple")
        kw = dict(kwargs)
        star = kw.pop("**", None)
        for name in params + [x.arg for x in a.kwonlyargs]:
            if name in kw and name not in vals:
                vals[name] = kw.pop(name)
        if a.kwarg is not None:
            if star is not None and not kw:
                vals[a.kwarg.arg] = star
            else:
                if star is not None:
                    raise Unsupported("mixing ** dict and keywords into **kwargs")
                d = self.new_dict([(const_tv(k), v) for k, v in kw.items()])
                _a = self.as_addr(d)
                self.shape[str(z3.simplify(_a))] = ("dict", [(const_tv(k), v) for k, v in kw.items()], _a)
                vals[a.kwarg.arg] = d
            kw = {}
        elif kw:
            raise self.implicit("TypeError", f"unexpected keyword {sorted(kw)}")
        elif star is not None:
            raise Unsupported("** dict with unknown keys into explicit parameters")
        # defaults
        defaults = a.defaults
        dparams = params[len(params) - len(defaults):] if defaults else []
        for name, d in zip(dparams, defaults):
            if name not in vals:
                vals[name] = self.eval(d, frame)
        for x, d in zip(a.kwonlyargs, a.kw_defaults):
            if x.arg not in vals and d is not None:
                vals[x.arg] = self.eval(d, frame)
        for name in params + [x.arg for x in a.kwonlyargs]:
            if name not in vals:
                raise self.implicit("TypeError", f"missing argument {name}")
        return vals

    def inline_call(self, pf, args, kwargs, n):
        if self.depth > self.opts.get("max_inline_depth", 12):
            raise Unsupported(f"inline depth exceeded at {pf.qual}")
        fr = Frame(parent=pf.frame, func=pf)
        vals = self.bind_params(pf.node, args, kwargs, pf.bound_self, fr, pf.mi)
        fr.vars.update(vals)
        if pf.cls is not None:
            fr.vars["__class__"] = py(self.pyclass(pf.cls), "class")
        self.depth += 1
        try:
            if isinstance(pf.node, ast.Lambda):
                return self.eval(pf.node.body, fr)
            try:
                self.exec_block(strip_docstring(pf.node.body), fr)
            except ReturnSig as r:
                return r.value
            return tv_none()
        finally:
            self.depth -= 1

    def instantiate(self, cls, args, kwargs, n):
        name = cls.name
        if name in ("Exception", "BaseException") or (cls.node is None and CLASSES.is_sub(name, "BaseException")):
            e = self.new_exception(name)
            self.exact_class[str(e.r)] = name
            self.setattr_val(e, z3.StringVal("args"), TV("val", core.mk_tuple([self.to_val(x) for x in args]), "tuple"))
            return e
        if cls.node is None:
            return self.call_by_pattern(py(cls, "class"), args, kwargs, n, None, f"extern class {name}") \
                if (self.unit and (name in self.unit.calls)) else self.opaque_new(cls, args, kwargs, n)
        self.declare_class(cls.node, cls.mi)
        a = self.new_object(name)
        self_tv = TV("val", mk_ref(a), "obj:" + name)
        self.exact_class[str(self_tv.r)] = name
        m = self.find_method(name, "__init__")
        if m is not None:
            mi, cnode, fnode = m
            pf = PyFunc(fnode, None, mi, cnode.name + ".__init__", bound_self=self_tv, cls=cnode.name)
            tgt = self.func_target(pf)
            if tgt in BY_TARGET and cnode.name not in INLINE_CLASSES:
                self.apply_contract(BY_TARGET[tgt], args, kwargs, n, self_tv)
            else:
                pf.cls = cnode.name
                self.inline_call(pf, args, kwargs, n)
        elif CLASSES.is_sub(name, "BaseException"):
            self.setattr_val(self_tv, z3.StringVal("args"),
                             TV("val", core.mk_tuple([self.to_val(x) for x in args]), "tuple"))
        return self_tv

    def opaque_new(self, cls, args, kwargs, n):
        """constructor of a dependency class without a model: a fresh object
        whose keyword arguments become same-named attributes (A-CTOR-KW)."""
        name = cls.name
        text = ast.unparse(n.func) if n is not None else name
        if self.unit is None or (text not in self.unit.calls and name not in self.unit.calls
                                 and not self.opts.get("opaque_ctor", False)):
            raise Unsupported(f"constructor of extern class {name}: add a `calls` entry")
        a = self.new_object(name)
        tv = TV("val", mk_ref(a), "obj:" + name)
        self.exact_class[str(tv.r)] = name
        for k, v in kwargs.items():
            self.setattr_val(tv, z3.StringVal(k), v)
        self.ctor_args[str(tv.r)] = (name, list(args), dict(kwargs))
        return tv

    # ------------------------------------------------------------ externals
    def ext_call(self, ext, callee_term, args, kwargs, n):
        ev = {
            "name": ext.name,
            "callee": callee_term,
            "args": [self.to_val(a) if not (a.k == "py" and not isinstance(a.r, (PyFunc, PyClass, list, tuple))) else None for a in args],
            "kwargs": {k: (self.to_val(v) if not (v.k == "py" and not isinstance(v.r, (PyFunc, PyClass, list, tuple))) else None) for k, v in kwargs.items() if k != "**"},
            "heap_before": self.heap,
            "line": getattr(n, "lineno", 0),
            "star": self.to_val(kwargs["**"]) if "**" in kwargs else None,
            "preserves": tuple(ext.preserves) + tuple(getattr(self.unit, "ext_preserves", ()) if self.unit else ()),
        }
        if ext.requires and not self.in_spec:
            # the precondition of an external may speak about the caller's variables too
            renv = dict(self.spec_env_default())
            renv.update({f"a{i}": a for i, a in enumerate(args)})
            renv.update({k: v for k, v in kwargs.items() if k != "**"})
            for i, cl in enumerate(ext.requires):
                from .contracts import named as _named

                lab, text, prop = _named(cl)
                t, side = self.spec(text, renv)
                self.assume_all(side)
                self.oblige("CALL", f"{ext.name}.pre.{lab or i}@{ev['line']}", t, text, prop)
        protect = []
        penv = None
        for spec_text in list(ext.protect):
            if penv is None:
                penv = dict(self.spec_env_default())
                penv.update({f"a{i}": a for i, a in enumerate(args)})
            protect.extend(self.eval_locs(spec_text, ev, env=penv))
        for spec_text in list(self.unit.ext_protect if self.unit else []):
            try:
                protect.extend(self.eval_locs(spec_text, ev))
            except Unsupported as e:
                # a unit-wide protection that names a local not bound yet protects nothing yet
                if "unresolved name" not in str(e):
                    raise
        if not ext.pure:
            self.havoc_heap(protect, ext.modifies, ev, tag="X")
        outcomes = ["ret"]
        if ext.raises:
            outcomes.append("exc")
        d = self.choose(len(outcomes), [None] * len(outcomes), f"ext:{ext.name}@{ev['line']}") if len(outcomes) > 1 else 0
        if outcomes[d] == "ret":
            r = fresh("r_" + ext.name, Val)
            tv = TV("val", r, None if ext.returns == "any" else ext.returns)
            self.closed(r)
            if ext.returns != "any":
                self.assume(self.type_fact(r, ext.returns))
            ev["result"] = r
            ev["heap_after"] = self.heap
            self.trace.append(ev)
            for cl in ext.ensures:
                env = {f"a{i}": a for i, a in enumerate(args)}
                env.update({k: v for k, v in kwargs.items() if k != "**"})
                env["result"] = tv
                if callee_term is not None:
                    env["callee"] = TV("val", callee_term)
                # old(...) in an external's ensures is the state just before that call
                t, side = self.spec(cl, env, old_heap=ev["heap_before"])
                self.assume_all(side)
                self.assume(t)
            return tv
        e = fresh("e_" + ext.name, core.IntS)
        self.assume(z3.And(e >= 0, e < self.next_addr))
        c = cls_of(e)
        self.note_class_term(c)
        known = None
        if isinstance(ext.raises, (list, tuple)) and len(ext.raises) == 1 and ext.raises[0].startswith("="):
            # '=Name[:Base]': the exception is an instance of exactly that class (so that handlers for
            # unrelated classes are known not to match)
            nm, _, base = ext.raises[0][1:].partition(":")
            if nm not in CLASSES.by_name:
                CLASSES.declare(nm, (base or "Exception",))
            self.assume(c == CLASSES.addr(nm))
            known = nm
        elif isinstance(ext.raises, (list, tuple)):
            for k in ext.raises:
                if k not in CLASSES.by_name:
                    CLASSES.declare(k, ("Exception",))
            self.assume(z3.Or(*[subclass(c, CLASSES.addr(k)) for k in ext.raises]))
        else:
            self.assume(subclass(c, CLASSES.addr("BaseException")))
        etv = TV("val", mk_ref(e), "obj")
        ev["exc"] = etv.r
        ev["heap_after"] = self.heap
        self.trace.append(ev)
        raise PyRaise(etv, known_cls=known, origin=f"ext:{ext.name}")

    def havoc_heap(self, protect, modifies, ev, tag="X"):
        """External effect: everything may change except objects allocated by
        this activation (a >= A0, A-EXT-LOCAL) and the protected locations."""
        A0 = self.A0
        old_next = self.next_addr
        prot = list(protect)

        def cond(field, idx):
            a = idx[0]
            cs = [a >= A0] if not self.opts.get("ext_touches_locals") else []
            for p in prot:
                c = self.loc_match(p, field, idx)
                if c is not None:
                    cs.append(c)
            if not cs:
                return None
            return z3.simplify(z3.Or(*cs))

        if modifies is not None:
            mods = []
            for m in modifies:
                mods.extend(self.eval_locs(m, ev))

            def cond(field, idx, _mods=mods):  # noqa: F811
                cs = []
                for p in _mods:
                    c = self.loc_match(p, field, idx)
                    if c is not None:
                        cs.append(c)
                if not cs:
                    return z3.BoolVal(True) if len(idx) == 2 or field in ("llen", "dklen") else None
                return z3.simplify(z3.Not(z3.Or(*cs)))

        self.heap = self.heap.havoc(cond, tag=core.fresh_name(tag), preserves=ev.get("preserves", ()))
        self.invalidate_shapes(cond)
        self.next_addr = fresh("N", core.IntS)
        self.assume(self.next_addr >= old_next)

    def loc_match(self, loc, field, idx):
        """z3 condition that heap location (field, idx) belongs to `loc`
        (None if the location kind does not concern this field)."""
        kind = loc[0]
        a = idx[0]
        if kind == "attr":
            if field not in ("fld", "has"):
                return None
            if len(idx) == 1:
                return None
            if loc[2] is None:
                return a == loc[1]
            return z3.And(a == loc[1], idx[1] == loc[2])
        if kind == "obj":
            if field not in ("fld", "has"):
                return None
            return a == loc[1]
        if kind == "list":
            if field not in ("llen", "lelem"):
                return None
            return a == loc[1]
        if kind == "dict":
            if field not in ("dhas", "dval", "dklen", "dkey"):
                return None
            return a == loc[1]
        if kind == "pred":
            return loc[1](field, idx)
        raise Unsupported("loc kind " + kind)

    def eval_locs(self, text, ev=None, env=None):
        """location spec -> list of loc tuples.  Forms:
           'x.attr'  'x.*'  'list(x)'  'dict(x)'  where x is a spec expression"""
        from .spec import SpecEval

        env = env if env is not None else self.spec_env_default()
        text = text.strip()
        ev_ = SpecEval(self, env, self.entry_heap, self.heap, {})
        if text.startswith("ATTR:"):
            # ATTR:<name>           the attribute <name> of EVERY object
            # ATTR:<name> except x  ... of every object but x
            name, _, exc = text[len("ATTR:"):].partition(" except ")
            nm = z3.StringVal(name.strip())
            ex_addr = ev_.addr_of(ev_.expr(exc.strip())) if exc.strip() else None

            def pred(field, idx, _nm=nm, _ex=ex_addr):
                if field not in ("fld", "has") or len(idx) != 2:
                    return None
                c = idx[1] == _nm
                return c if _ex is None else z3.And(c, idx[0] != _ex)

            return [("pred", pred)]
        if text.startswith("MODULE:"):
            # a module-level variable: MODULE:<dotted module>.<name>
            from .interp_stmt import module_addr

            modname, _, var = text[len("MODULE:"):].rpartition(".")
            return [("attr", z3.IntVal(module_addr(modname)), z3.StringVal(var))]
        if text.startswith("list(") and text.endswith(")"):
            v = ev_.expr(text[5:-1])
            return [("list", ev_.addr_of(v))]
        if text.startswith("dict(") and text.endswith(")"):
            v = ev_.expr(text[5:-1])
            return [("dict", ev_.addr_of(v))]
        if text.endswith(".*"):
            v = ev_.expr(text[:-2])
            return [("obj", ev_.addr_of(v))]
        obj, _, attr = text.rpartition(".")
        v = ev_.expr(obj)
        return [("attr", ev_.addr_of(v), z3.StringVal(attr))]

    def spec_env_default(self):
        if getattr(self, "cur_frame", None) is not None:
            return self.loop_env(self.cur_frame)
        return dict(self.root_frame.vars) if getattr(self, "root_frame", None) else {}
