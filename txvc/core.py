"""
txvc core: the z3 encoding of Python values and of the heap.

Everything a verification condition talks about is built from the sorts and
functions declared here.  See DESIGN.md section 2.2 for the semantics that the
encoding assumes (A-... assumptions); they are repeated in ASSUMPTIONS below
and copied into every evidence file.
"""

from __future__ import annotations

import z3

# --------------------------------------------------------------------------
# Python values
# --------------------------------------------------------------------------
_V = z3.Datatype("Val")
_V.declare("none")
_V.declare("bool", ("b", z3.BoolSort()))
_V.declare("int", ("i", z3.IntSort()))
_V.declare("str", ("s", z3.StringSort()))
_V.declare("ref", ("a", z3.IntSort()))
_V.declare("nil")  # empty tuple
_V.declare("cons", ("hd", _V), ("tl", _V))  # tuples are cons lists (immutable)
Val = _V.create()

IntS = z3.IntSort()
BoolS = z3.BoolSort()
StrS = z3.StringSort()

NONE = Val.none
NIL = Val.nil


def mk_bool(b):
    return Val.bool(b if z3.is_expr(b) else z3.BoolVal(bool(b)))


def mk_int(i):
    return Val.int(i if z3.is_expr(i) else z3.IntVal(int(i)))


def mk_str(s):
    return Val.str(s if z3.is_expr(s) else z3.StringVal(s))


def mk_ref(a):
    return Val.ref(a if z3.is_expr(a) else z3.IntVal(int(a)))


def mk_tuple(items):
    t = NIL
    for it in reversed(list(items)):
        t = Val.cons(it, t)
    return t


# --------------------------------------------------------------------------
# Heap: a record of z3 arrays.  Objects, lists, dicts and sets are addresses
# (Int).  Attribute names are strings because textX computes them.
# --------------------------------------------------------------------------
FLD_S = z3.ArraySort(IntS, z3.ArraySort(StrS, Val))
HAS_S = z3.ArraySort(IntS, z3.ArraySort(StrS, BoolS))
LLEN_S = z3.ArraySort(IntS, IntS)
LELEM_S = z3.ArraySort(IntS, z3.ArraySort(IntS, Val))
DHAS_S = z3.ArraySort(IntS, z3.ArraySort(Val, BoolS))
DVAL_S = z3.ArraySort(IntS, z3.ArraySort(Val, Val))
# ghost iteration order of dicts / sets: dklen[d] keys, dkey[d][i] the i-th key
DKLEN_S = z3.ArraySort(IntS, IntS)
DKEY_S = z3.ArraySort(IntS, z3.ArraySort(IntS, Val))

# rows are nested arrays so that a fresh object / dict can be initialised with
# a constant row (no attribute, no key) and a whole object can be havocked
NESTED = {"fld", "has", "lelem", "dhas", "dval", "dkey"}

HEAP_FIELDS = {
    "fld": FLD_S,
    "has": HAS_S,
    "llen": LLEN_S,
    "lelem": LELEM_S,
    "dhas": DHAS_S,
    "dval": DVAL_S,
    "dklen": DKLEN_S,
    "dkey": DKEY_S,
}

_fresh_counter = [0]


def fresh_name(prefix):
    _fresh_counter[0] += 1
    return f"{prefix}!{_fresh_counter[0]}"


def fresh(prefix, sort):
    return z3.Const(fresh_name(prefix), sort)


# class of an object never changes (A-CLS): an uninterpreted function
cls_of = z3.Function("cls_of", IntS, IntS)
# subclass relation between class addresses
subclass = z3.Function("subclass", IntS, IntS, BoolS)
# truthiness of objects that are neither list/dict/set nor a known class
obj_truthy = z3.Function("obj_truthy", IntS, BoolS)
# builtins modelled as uninterpreted functions
py_callable = z3.Function("callable", Val, BoolS)
py_str_of = z3.Function("pystr", Val, StrS)  # str(x) for non-str x
py_lower = z3.Function("lower", StrS, StrS)
py_strip = z3.Function("strip", StrS, StrS, StrS)
py_abspath = z3.Function("abspath", StrS, StrS)
py_replace = z3.Function("py_replace", StrS, StrS, StrS, StrS)
py_id_name = z3.Function("type_name", IntS, StrS)  # cls.__name__ of class address

# --------------------------------------------------------------------------
# Known classes get fixed negative addresses; everything allocated or passed
# in at run time is >= 0.
# --------------------------------------------------------------------------


class ClassTable:
    def __init__(self):
        self.by_name = {}
        self.by_addr = {}
        self.bases = {}
        self._next = -1000

    def declare(self, name, bases=("object",)):
        if name in self.by_name:
            return self.by_name[name]
        addr = self._next
        self._next -= 1
        self.by_name[name] = addr
        self.by_addr[addr] = name
        self.bases[name] = tuple(b for b in bases if b != name)
        for b in self.bases[name]:
            if b not in self.by_name:
                self.declare(b, ("object",) if b != "object" else ())
        return addr

    def addr(self, name):
        return self.by_name[name]

    def is_sub(self, a, b):
        if a == b or b == "object":
            return True
        return any(self.is_sub(x, b) for x in self.bases.get(a, ()))

    def axioms(self, extra_class_terms=()):
        """Ground facts about the subclass relation of the known classes and
        instantiated transitivity for the given symbolic class terms."""
        ax = []
        names = list(self.by_name)
        for a in names:
            for b in names:
                ax.append(
                    subclass(self.by_name[a], self.by_name[b])
                    == z3.BoolVal(self.is_sub(a, b))
                )
        for c in extra_class_terms:
            ax.append(subclass(c, c))
            for a in names:
                for b in names:
                    if a != b and self.is_sub(a, b):
                        ax.append(
                            z3.Implies(
                                subclass(c, self.by_name[a]),
                                subclass(c, self.by_name[b]),
                            )
                        )
        return ax


CLASSES = ClassTable()
for _n, _b in [
    ("object", ()),
    ("type", ("object",)),
    ("list", ("object",)),
    ("dict", ("object",)),
    ("set", ("object",)),
    ("function", ("object",)),
    ("float", ("object",)),
    ("BaseException", ("object",)),
    ("Exception", ("BaseException",)),
    ("KeyboardInterrupt", ("BaseException",)),
    ("TypeError", ("Exception",)),
    ("ValueError", ("Exception",)),
    ("UnicodeDecodeError", ("ValueError",)),
    ("LookupError", ("Exception",)),
    ("KeyError", ("LookupError",)),
    ("IndexError", ("LookupError",)),
    ("AttributeError", ("Exception",)),
    ("AssertionError", ("Exception",)),
    ("StopIteration", ("Exception",)),
    ("OSError", ("Exception",)),
    ("RecursionError", ("Exception",)),
    ("SystemExit", ("BaseException",)),
]:
    CLASSES.declare(_n, _b)


ASSUMPTIONS = {
    "A-INT": "Python ints are mathematical integers (exact: Python ints are unbounded).",
    "A-STR": "z3 String operations (++, len, at, substr, prefixof, suffixof, contains, "
    "replace_all, indexof) agree with str on code points.",
    "A-CLS": "an object's class never changes during the call (no __class__ assignment).",
    "A-ID": "id(x) is the address of x and injective on objects alive during the call.",
    "A-MRO1": "attribute lookup considers the instance dict, then one merged class "
    "namespace of type(obj) (inherited attributes appear in that namespace); "
    "__getattr__/__getattribute__/descriptors of user classes are not modelled.",
    "A-EQ": "== on objects is identity unless the unit's contract says otherwise "
    "(user classes overriding __eq__ are outside the contract).",
    "A-DICT-ORDER": "dicts iterate in insertion order (CPython >= 3.7).",
    "A-FRESH": "objects returned by constructors/displays are fresh and distinct from "
    "every object reachable before.",
    "A-WD": "for units without wd=True, implicit TypeError/AttributeError/KeyError/"
    "IndexError paths of primitives are not explored (inputs are assumed "
    "well-typed as declared in the unit's params).",
    "A-DBG": "dprint(...)/logging calls have no effect on the heap.",
    "A-EXT": "callables passed in by the user (processors, scope providers, callbacks) "
    "may return anything and raise anything; they may modify any heap location "
    "except those the unit's contract lists as protected.",
}
